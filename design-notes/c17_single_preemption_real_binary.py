import os, subprocess, shutil, collections, sys
B='/tmp/cal/r'
MSG1=b'To: user@example.com\nSubject: one\n\nbody one\n'
def rw(extra): 
    h,b=MSG1.split(b'\n\n',1); return h+b'\n'+extra+b'\n'+b
A={ 'moveA':'move "%s/dA"'%B, 'moveA_exdev':'move "%s/dA"'%B, 'flag':'flag !new', 'label':'label "a"', 'discard':'discard' }
Bp={ 'moveB':'move "%s/dB"'%B, 'flagB':'flag !new', 'labelB':'label "b"', 'discardB':'discard', 'ext_rename':None, 'ext_delete':None }
VERS={MSG1, rw(b'X-Label: a\n'), rw(b'X-Label: b\n'), rw(b'X-Label: a b\n'), rw(b'X-Label: b a\n')}
def setup(a,b,cond):
    shutil.rmtree(B,ignore_errors=True)
    for d in ('src','dA','dB'):
        for s in ('new','cur'): os.makedirs('%s/%s/%s'%(B,d,s))
    open(B+'/src/new/m1','wb').write(MSG1)
    open(B+'/a.conf','w').write('maildir "%s/src" {\n match %s %s\n}\n'%(B,cond,A[a]))
    if Bp[b]: open(B+'/b.conf','w').write('maildir "%s/src" {\n match %s %s\n}\n'%(B,cond,Bp[b]))
def bcmd(b):
    if b=='ext_rename': return 'mv %s/src/new/m1 %s/src/cur/m1:2,S 2>/dev/null'%(B,B)
    if b=='ext_delete': return 'rm -f %s/src/new/m1'%B
    return '/repo/mdsort -f %s/b.conf 2>/dev/null'%B
def snap():
    out=[]
    for d in ('src','dA','dB'):
        for s in ('new','cur'):
            for f in os.listdir('%s/%s/%s'%(B,d,s)): out.append((d,s,f,open('%s/%s/%s/%s'%(B,d,s,f),'rb').read()))
    return out
res=collections.Counter(); tot=0
for cond in ('header "To" /user/','all'):
  for a in A:
    for b in Bp:
        setup(a,b,cond)
        env=dict(os.environ, LD_PRELOAD='/tmp/cal/vs.so', VSHIM_LOG=B+'/log')
        if 'exdev' in a: env['VSHIM_EXDEV']='1'
        subprocess.run(['/repo/mdsort','-f',B+'/a.conf'],env=env,capture_output=True)
        base=[l for l in open(B+'/log').read().split('\n') if l and l[0].isdigit()]
        for l in base:
            k=int(l.split(' ')[0]); setup(a,b,cond); tot+=1
            env2=dict(env, VSHIM_PAUSE=str(k), VSHIM_PAUSE_CMD=bcmd(b))
            p=subprocess.run(['/repo/mdsort','-f',B+'/a.conf'],env=env2,capture_output=True)
            s=snap()
            import re
            core=lambda c: re.sub(rb'(?m)^X-Label: [ab ]+\n',b'',c)
            good=[e for e in s if core(e[3])==MSG1]; bad=[e for e in s if core(e[3])!=MSG1]
            deliberate = ('discard' in a) or b in('discardB','ext_delete')
            tag=[]
            if bad: tag.append('STRAY'+str(sorted(set((e[0]+'/'+e[1],len(e[3])) for e in bad))))
            if len(good)>1: tag.append('DUP')
            if len(good)==0 and not deliberate: tag.append('LOST')
            for t in tag:
                res[(cond[:6],a,b,t)]+=1
print('schedules',tot)
for k,v in sorted(res.items()): print(k,v)
