import sys
sys.argv=['x','none']
exec(open('sweep.py').read().split("summary=collections")[0])
import collections
def runkill(sc,k):
    setup(sc)
    env=dict(os.environ, LD_PRELOAD='/tmp/cal/vs.so', VSHIM_LOG=B+'/log', TMPDIR=B+'/tmpdir', VSHIM_KILL=str(k))
    if sc.get('exdev'): env['VSHIM_EXDEV']='1'
    args=['/repo/mdsort','-f',B+'/c.conf']+(['-'] if sc.get('stdin') else [])
    p=subprocess.run(args,env=env,input=MSG1 if sc.get('stdin') else None,capture_output=True,timeout=20)
    return p.returncode
tot=0; res=collections.Counter()
for name,sc in SCEN.items():
    if sc.get('stdin'): continue
    rc,err,log=run(sc); base=[l for l in log if l]
    for l in base:
        k=int(l.split(' ')[0]); rc=runkill(sc,k); tot+=1
        snap,tmp=snapshot()
        versions=[MSG1]+([sc['final'][2]] if sc['final'] else [])
        intact=[e for e in snap if e[3] in versions]
        decoy=[e for e in snap if e[3]==MSG2]
        others=[e for e in snap if e not in intact and e not in decoy]
        probs=[]
        if len(decoy)!=1: probs.append('DECOY')
        if sc['final'] is not None and len(intact)==0: probs.append('NO-INTACT-COPY')
        for e in others:
            kind='empty' if len(e[3])==0 else 'partial(%d)'%len(e[3])
            orig_present=any(x[3]==MSG1 or (sc['final'] and x[3]==sc['final'][2]) for x in intact)
            res[(name,'leftover-'+kind.split('(')[0], 'orig-present' if orig_present else 'ORIG-MISSING')]+=1
        if len(intact)>1: res[(name,'complete-duplicate')]+=1
        for pr in probs: res[(name,pr)]+=1; print(name,k,l,pr)
print('kills',tot)
for k,v in sorted(res.items()): print(k,v)
