import itertools, subprocess, os, shutil
base='/tmp/bf/r9'
ACTS={'mA':'move "%s/A"'%base,'mB':'move "%s/B"'%base,'fn':'flag new','fc':'flag !new','F':'flags "F"'}
bad=0; n=0
for sub in ('new','cur'):
  for k in (1,2,3):
    for seq in itertools.product(ACTS, repeat=k):
        shutil.rmtree(base,ignore_errors=True)
        for d in ('src','A','B'):
            for s in ('new','cur'): os.makedirs('%s/%s/%s'%(base,d,s))
        open('%s/src/%s/1.h'%(base,sub),'w').write('To: x\n\nb\n')
        open(base+'/c.conf','w').write('maildir "%s/src" {\n\tmatch all %s\n}\n'%(base,' '.join(ACTS[a] for a in seq)))
        p=subprocess.run(['/repo/mdsort','-f',base+'/c.conf'],capture_output=True,text=True)
        found=[(d,s,f) for d in ('src','A','B') for s in ('new','cur') for f in os.listdir('%s/%s/%s'%(base,d,s))]
        n+=1
        md='src'
        for a in seq:
            if a[0]=='m': md=a[1]
        sd=sub
        for a in seq:
            if a in('fn','fc'): sd={'fn':'new','fc':'cur'}[a]
        ok = len(found)==1 and found[0][0]==md and found[0][1]==sd and p.returncode==0
        if ok:
            fl=found[0][2].split(':2,')[1] if ':2,' in found[0][2] else ''
            expF=('F' in seq)
            if ('F' in fl)!=expF: ok=False
        if not ok:
            bad+=1; print(sub,seq,'->',found,p.returncode,p.stderr.strip()[:80],'expected',md,sd)
print('runs',n,'bad',bad)
