#!/bin/sh
# Reproduction (real binary, stock shim) of the message loss found by the deep C17 schedules (package ce16):
# a `flag !new` run re-uses a file name it has just renamed away (maildir_genname restarts its counter for every message:
# time.pid_COUNT.host with COUNT = arc4random() % 128 + 1), while a `label` run that opened a message under that name removes
# "its" original BY NAME after writing the labelled copy - and removes another message.
#
#   sh design-notes/c17_name_reuse_loss.sh [scratch-dir]        (needs cc, yacc; builds a copy of /repo, never touches /repo)
#
# Schedule: A = flag run, paused before its call 26 (it has moved message 1 to cur/T.4242_8.host:2,S and has just read that file
# again while walking cur); B = label run issues its first 12 calls (it opens cur/T.4242_8.host:2,S = message 1) and is paused;
# A runs to its end (renames T.4242_8 to T.4242_9, then moves message 2 from cur/2.host:2,S to the free name T.4242_8.host:2,S);
# B goes on: writes the labelled copy of message 1, unlinks "T.4242_8.host:2,S" - which is message 2 now.
# Result: message 1 twice (T.4242_9 and the labelled copy), message 2 gone, exit statuses A=0 B=1.
set -e
W=${1:-/var/tmp/ce16-c17-repro}
V=$(cd "$(dirname "$0")/.." && pwd)
rm -rf "$W"; mkdir -p "$W/build" "$W/home" "$W/tmp" "$W/src/new" "$W/src/cur" "$W/src/tmp"
cp -r /repo/*.c /repo/*.h /repo/*.y /repo/libks /repo/configure /repo/Makefile /repo/GNUmakefile "$W/build/" 2>/dev/null || true
[ -f /repo/config.mk ] && cp /repo/config.mk /repo/config.h "$W/build/" 2>/dev/null || true
( cd "$W/build" && rm -f *.o parse.c && { [ -f config.h ] || sh ./configure >/dev/null; } && make mdsort >/dev/null 2>&1 )
cc -O1 -shared -fPIC -o "$W/vshim.so" "$V/harness/shim/vshim.c" -ldl
printf 'To: user1@example.com\nX-Id: 1\nSubject: message 1\n\nbody of message 1\nsecond line\n' > "$W/src/new/1.host"
printf 'To: user2@example.com\nX-Id: 2\nSubject: message 2\nX-Label: old\n\nbody of message 2\nsecond line\n' > "$W/src/cur/2.host:2,S"
printf 'maildir "%s/src" {\n\tmatch header "X-Id" /^[0-9]+$/ flag !new\n}\n' "$W" > "$W/confA"
printf 'maildir "%s/src" {\n\tmatch header "X-Id" /^[0-9]+$/ label "lbl"\n}\n' "$W" > "$W/confB"
COMMON="HOME=$W/home TMPDIR=$W/tmp LC_ALL=C LD_PRELOAD=$W/vshim.so VSHIM_TIME=1790000000 VSHIM_HOST=host"
cat > "$W/startB.sh" <<EOS
( env $COMMON VSHIM_PID=5353 VSHIM_RANDOM=50 VSHIM_LOG=$W/logB VSHIM_PAUSE=12 \
  VSHIM_PAUSE_CMD='touch $W/b.paused; while [ ! -e $W/a.done ]; do sleep 0.05; done' \
  $W/build/mdsort -f $W/confB > $W/outB 2>&1; echo \$? > $W/b.status ) &
while [ ! -e $W/b.paused ]; do sleep 0.05; done
EOS
set +e
env $COMMON VSHIM_PID=4242 VSHIM_RANDOM=7 VSHIM_LOG="$W/logA" VSHIM_PAUSE=26 VSHIM_PAUSE_CMD="sh $W/startB.sh" \
    "$W/build/mdsort" -f "$W/confA" > "$W/outA" 2>&1
echo "exit status of A (flag run):  $?"
touch "$W/a.done"
while [ ! -e "$W/b.status" ]; do sleep 0.05; done
echo "exit status of B (label run): $(cat "$W/b.status")"
echo "--- messages afterwards (X-Id of every file in src/new, src/cur):"
for f in "$W"/src/new/* "$W"/src/cur/*; do [ -f "$f" ] && echo "$(grep '^X-Id' "$f")  $(basename "$f")"; done
echo "--- the calls that matter"
grep -n 'renameat\|unlinkat\|O_EXCL' "$W/logA" | sed "s|$W|@W@|g; s/^/A: /"
grep -n 'renameat\|unlinkat\|O_EXCL\|O_RDONLY' "$W/logB" | sed "s|$W|@W@|g; s/^/B: /"
