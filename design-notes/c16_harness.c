#include "config.h"
#include <stdio.h>
#include <stdlib.h>
#include <string.h>
#include "decode.h"
static int hexv(int c){ return c<='9'?c-'0':c-'a'+10; }
int main(void){
  char line[1<<16];
  while (fgets(line, sizeof line, stdin)) {
    char op = line[0]; char *h = line+2; size_t n = strlen(h); if (n && h[n-1]=='\n') h[--n]=0;
    char *s = malloc(n/2+1); for (size_t i=0;i<n/2;i++) s[i]=hexv(h[2*i])*16+hexv(h[2*i+1]); s[n/2]=0;
    char *r = op=='b'?base64_decode(s):op=='q'?quoted_printable_decode(s):rfc2047_decode(s);
    if (!r) puts("ERR"); else { for (char *p=r;*p;p++) printf("%02x",(unsigned char)*p); puts(""); free(r);} 
    free(s);
  }
}
