import random, subprocess, os, re
R=random.Random(int(os.environ.get('SEED','21')))
WS=b' \t\n\v\f\r'
def strtoul(s):
    """returns (val, consumed) like strtoul base 10; consumed=0 if no digits"""
    i=0
    while i<len(s) and s[i] in WS: i+=1
    neg=False
    if i<len(s) and s[i] in b'+-': neg=(s[i]==45); i+=1
    j=i
    while j<len(s) and 48<=s[j]<=57: j+=1
    if j==i: return 0,0
    v=int(s[i:j])
    if v>2**64-1: v=2**64-1
    elif neg: v=(2**64-v)%2**64
    return v,j
INTMAX=2**31-1
def isbackref(s):
    if len(s)<2 or s[0]!=92 or not (48<=s[1]<=57): return 0,None
    v,c=strtoul(s[1:])
    if v>INTMAX: return -1,None
    end=1+c
    if s[end:end+1]==b'.':
        mi=v
        v2,c2=strtoul(s[end+1:])
        if v2>INTMAX: return -1,None
        return end+1+c2,(mi,v2)
    if s[end:end+2]==b'\\.': end+=1
    return end,(0,v)
def ismacro(s):
    if s[:2]!=b'${': return 0,None
    j=s.find(b'}',2)
    if j<0: return -1,None
    return j+1,s[2:j]
def interp(t,pats,path):
    out=bytearray(); i=0
    while i<len(t):
        n,br=isbackref(t[i:])
        if n<0: return None
        if n>0:
            mi,si=br
            if mi>=len(pats) or si>=len(pats[mi]): return None
            out+=pats[mi][si]; i+=n; continue
        n,mc=ismacro(t[i:])
        if n<0: return None
        if n>0:
            if mc!=b'path': return None
            out+=path; i+=n; continue
        out.append(t[i]); i+=1
    return bytes(out)
TOK=[b'\\',b'0',b'1',b'2',b'9',b'.',b'$',b'{',b'}',b'path',b'a',b'/',b' ',b'+',b'-',b'\\1',b'\\0.1',b'${path}',b'\\1\\.',b'99999999999',b'4294967296',b'2147483648',b'18446744073709551616']
GRP=[b'',b'x',b'\\1',b'${path}',b'a b',b'${',b'\\',b'9']
cases=[]
for _ in range(int(os.environ.get('N','100000'))):
    t=b''.join(R.choice(TOK) for _ in range(R.randint(1,7)))
    npat=R.randint(0,3)
    pats=[[R.choice(GRP) for _ in range(R.randint(1,3))] for _ in range(npat)]
    path=R.choice([b'/m/new/1',b'\\1',b'${path}'])
    cases.append((t,pats,path))
def enc(c):
    t,pats,path=c
    s='%s %s %d'%(t.hex(),path.hex(),len(pats))
    for p in pats:
        s+=' %d'%len(p)+''.join(' '+(g.hex() if g else '-') for g in p)
    return s+'\n'
p=subprocess.run(['./h'],input=''.join(enc(c) for c in cases).encode(),capture_output=True)
assert p.returncode==0,p.stderr.decode()[-800:]
outs=p.stdout.decode().split('\n'); bad=0; ok=0
for c,got in zip(cases,outs):
    e=interp(*c); e='ERR' if e is None else e.hex()+'.'
    if e!='ERR': ok+=1
    if got!=e:
        bad+=1
        if bad<8: print(c,'impl',got if got=='ERR' else bytes.fromhex(got[:-1]),'spec',e if e=='ERR' else bytes.fromhex(e[:-1]))
print('cases',len(cases),'non-error',ok,'bad',bad)
