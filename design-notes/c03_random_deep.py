import random, os, sys
sys.argv=['x','1','1','fix']
src=open('c03.py').read().split("def main():")[0]
exec(src)
exec(open('real.py').read().split("def conf_rules")[0].split("R=random.Random")[1].join(["R=random.Random",""]) if False else "")
R=random.Random(int(os.environ.get('SEED','7')))
def rnd_rules(depth, ctr, lab):
    n=R.randint(1,3); out=[]
    for _ in range(n):
        ck=R.choice('aan'); i=ctr[0]; ctr[0]+=1
        if depth>0 and R.random()<0.4:
            out.append(((ck,i),('block',rnd_rules(depth-1,ctr,lab))))
        else:
            acts=[]
            for _ in range(R.choice([0,1,1,2])):
                lab[0]+=1; acts.append(('L',lab[0]))
            ctl=R.choice([None,None,'pass','pass','break'])
            if ctl: acts.append(ctl)
            if not acts:
                lab[0]+=1; acts=[('L',lab[0])]
            out.append(((ck,i),('acts',acts)))
    return out
N=int(os.environ.get('N','300000')); bad=0; flagged=0; chk=0; nontriv=0
for it in range(N):
    ctr=[0]; lab=[0]
    rules=rnd_rules(3,ctr,lab)
    if not valid(rules): continue
    val=[R.choice('TTF') for _ in range(ctr[0])]
    for fix in (True, False):
        cr=c_run(build_block(rules),val,fix); sr=s_run(rules,val)
        excl = sr[2]['nso'] or (not fix and sr[2]['negpending'])
        if excl: flagged+=1; continue
        chk+=1
        if cr[1]: nontriv+=1
        if (cr[0],cr[1])!=(sr[0],sr[1]):
            bad+=1
            if bad<6: print('DIVERGE fix=%s'%fix,rules,val,cr,sr[:2])
print('checked',chk,'flagged',flagged,'nontrivial',nontriv,'bad',bad)
