import random, subprocess, os
exec(open('c10.py').read().split("LINES=")[0])
class Err(Exception): pass
def hdr1(fields,name):
    for n,v in fields:
        if lower(n)==lower(name): return cstr(s_2047(unfold(v)))
    return None
def boundary(ct):
    """0 -> None ; error -> raise ; else bytes"""
    if ct is None or not ct.startswith(b'multipart/'): return None
    s=ct[len(b'multipart/'):]
    i=s.find(b';')
    if i<0: return None
    s=s[i+1:].lstrip(b' \t')
    if not s.startswith(b'boundary="'): return None
    s=s[len(b'boundary="'):]
    j=s.find(b'"')
    if j<0: raise Err('boundary')
    if j==0: raise Err('boundary')
    return s[:j]
def lines_with_pos(body):
    pos=0; out=[]
    while pos<len(body):
        e=body.find(b'\n',pos)
        if e<0: out.append((pos,body[pos:],False)); pos=len(body)
        else: out.append((pos,body[pos:e],True)); pos=e+1
    return out
def parts(fields,body,depth,acc):
    if depth>4: raise Err('depth')
    b=boundary(hdr1(fields,b'Content-Type'))
    if b is None: return
    delim=b'--'+b; term=delim+b'--'
    # delimiter lines: exact line == delim or term, and terminated by newline
    marks=[(pos,l==term) for pos,l,nl in lines_with_pos(body) if nl and (l==delim or l==term)]
    if not marks: raise Err('noterm')
    # first mark opens (even if it is a terminator: then done, no parts)
    if marks[0][1]: return
    start=None
    cur=marks[0][0]
    beg=body.find(b'\n',cur)+1
    for pos,isterm in marks[1:]:
        seg=body[beg:pos]
        f,bd=parse(seg)
        acc.append((f,bd,seg))
        parts(f,bd,depth+1,acc)
        if isterm: return
        beg=body.find(b'\n',pos)+1
    raise Err('noterm')
def spec_attach(m):
    f,bd=parse(m); acc=[]
    try: parts(f,bd,0,acc)
    except Err as e: return 'ERR'
    s=str(len(acc))
    for (pf,pb,seg) in acc:
        ct=hdr1(pf,b'Content-Type')
        s+=' ['+('NULL' if ct is None else ct.hex()+'.')+'|'+pb.hex()+'.]'
    return s
def is_ct(fields,needle):
    t=hdr1(fields,b'Content-Type')
    return t is not None and t.startswith(needle) and (len(t)==len(needle) or t[len(needle):len(needle)+1]==b';')
def decode(fields,body):
    enc=hdr1(fields,b'Content-Transfer-Encoding')
    if enc==b'base64':
        d=s_b64(cstr(body)); 
        return None if d is None else cstr(d)
    if enc==b'quoted-printable': return cstr(s_qp(body))
    return body
def spec_body(m):
    f,bd=parse(m)
    if not is_ct(f,b'multipart/alternative'):
        d=decode(f,bd); return 'NULL' if d is None else d.hex()+'.'
    acc=[]
    try: parts(f,bd,0,acc)
    except Err: return 'NULL'
    found=None
    for (pf,pb,seg) in acc:
        if is_ct(pf,b'text/plain'): found=(pf,pb); break
        if is_ct(pf,b'text/html') and found is None: found=(pf,pb)
    if found is None: return bd.hex()+'.'
    d=decode(*found); return 'NULL' if d is None else d.hex()+'.'
R=random.Random(int(os.environ.get('SEED','13')))
def gen_part(depth):
    k=R.random()
    if depth<6 and k<0.3:
        b=R.choice([b'b%d'%depth,b'x',b'b0'])
        kind=R.choice([b'mixed',b'alternative',b'mixed'])
        h=b'Content-Type: multipart/'+kind+R.choice([b'; boundary="%s"'%b,b';boundary="%s"'%b,b';  boundary="%s"; x=y'%b,b'; boundary=%s'%b,b'; boundary="%s'%b,b'; boundary=""'])+b'\n'
        body=R.choice([b'',b'preamble\n'])
        n=R.choice([0,1,2,3,20]) if depth<2 else R.choice([0,1,2])
        for _ in range(n):
            body+=b'--'+b+R.choice([b'\n',b'\n',b'\n',b' \n',b'x\n'])+gen_part(depth+1)
        body+=R.choice([b'--'+b+b'--\n',b'--'+b+b'--\n',b'--'+b+b'--',b'',b'--'+b+b'--\nepilogue\n'])
        return h+R.choice([b'\n',b'\n',b'X: y\n\n'])+body
    ct=R.choice([b'text/plain',b'text/html',b'text/plain; charset=x',b'Text/Plain',b'image/png',None])
    enc=R.choice([None,None,b'base64',b'quoted-printable',b'BASE64',b'7bit'])
    h=b''
    if ct: h+=b'Content-Type: '+ct+b'\n'
    if enc: h+=b'Content-Transfer-Encoding: '+enc+b'\n'
    body=R.choice([b'aGVsbG8=\n',b'hello=\nworld=41\n',b'plain\n',b'--x\n',b'!!\n',b''])
    return h+b'\n'+body
cases=[gen_part(0) for _ in range(int(os.environ.get('N','30000')))]
inp=''.join('%s 00 %s\n'%(op,m.hex()) for m in cases for op in 'ab')
p=subprocess.run(['./h','/tmp/h10/d'],input=inp.encode(),capture_output=True)
if p.returncode!=0: print('HARNESS FAIL',p.returncode,p.stderr.decode()[-1500:])
outs=p.stdout.decode().split('\n'); bad=0;k=0;errs=0;multi=0
for m in cases:
    for op in 'ab':
        if k>=len(outs): break
        got=outs[k];k+=1
        exp=spec_attach(m) if op=='a' else spec_body(m)
        if exp=='ERR': errs+=1
        if op=='a' and exp not in('ERR','0'): multi+=1
        if got!=exp:
            bad+=1
            if bad<6: print(op,repr(m),'\n impl',got[:300],'\n spec',exp[:300])
print('cases',len(cases)*2,'errors',errs,'with-parts',multi,'bad',bad)
