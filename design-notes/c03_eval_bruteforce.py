#!/usr/bin/env python3
"""Brute-force prototype (design calibration only): python transcription of expr.c/match.c
evaluation vs a documented-semantics spec, over small rule trees."""
import itertools, sys, random, subprocess, os, shutil

ACTIONS = {'label','pass','break','move','flag','discard','reject','exec'}

# ---------- C model ----------
class Ml(list): pass

def is_action(e): return e[0] in ACTIONS

def m_append(ml, e):
    ml.append(e)

def ev(x, val, ml, negfix):
    t = x[0]
    if t == 'block':
        r = ev(x[1], val, ml, negfix)
        if r == 'E': return 'E'
        if any(e[0]=='break' for e in ml):
            ml[:] = [e for e in ml if e[0]!='break']
            return 'N'
        if any(e[0]=='pass' for e in ml):
            ml[:] = [e for e in ml if e[0]!='pass']
            n = sum(1 for e in ml if is_action(e))
            return 'N' if n == 0 else 'M'
        return r
    if t == 'or':
        r = ev(x[1], val, ml, negfix)
        if r != 'N': return r
        return ev(x[2], val, ml, negfix)
    if t == 'and':
        r = ev(x[1], val, ml, negfix)
        if r != 'M': return r
        return ev(x[2], val, ml, negfix)
    if t == 'match':
        m_append(ml, ('MATCH', x[3]))
        r = ev(x[1], val, ml, negfix)
        if r != 'M': return r
        return ev(x[2], val, ml, negfix)
    if t == 'neg':
        mark = len(ml)
        r = ev(x[1], val, ml, negfix)
        if r == 'E': return 'E'
        if r == 'N': return 'M'
        if negfix: del ml[mark:]
        else: ml[:] = []
        return 'N'
    if t == 'atom':
        v = val[x[1]]
        if v == 'T':
            m_append(ml, ('hdr', x[1])); return 'M'
        return 'N' if v == 'F' else 'E'
    if t == 'label':
        m_append(ml, ('label', x[1])); return 'M'
    if t == 'break':
        m_append(ml, ('break',)); return 'M'
    if t == 'pass':
        m_append(ml, ('pass',)); return 'N'
    raise Exception(t)

def c_run(tree, val, negfix=False):
    ml = []
    r = ev(tree, val, ml, negfix)
    acts = [e[1] for e in ml if e[0]=='label']
    return r, (acts if r == 'M' else [])

# ---------- tree construction as the grammar does ----------
def build_block(rules):
    e = None
    for r in rules:
        n = build_rule(r)
        e = n if e is None else ('or', e, n)
    return ('block', e)

_ctr = [0]
def build_rule(r):
    cond, body = r
    _ctr[0]+=1
    c = build_cond(cond)
    if body[0] == 'acts':
        a = None
        for act in body[1]:
            n = (act,) if isinstance(act,str) else ('label', act[1])
            a = n if a is None else ('and', a, n)
        return ('match', c, a, _ctr[0])
    else:
        return ('match', c, build_block(body[1]), _ctr[0])

def build_cond(c):
    if c[0]=='a': return ('atom', c[1])
    if c[0]=='n': return ('neg', ('atom', c[1]))
    raise Exception()

# ---------- spec ----------
class Flag(Exception): pass

def s_cond(c, val):
    v = val[c[1]]
    if v == 'E': return 'E'
    if c[0]=='a': return 'M' if v=='T' else 'N'
    return 'N' if v=='T' else 'M'

def s_block(rules, val, pend, outer_pass, st, nested):
    """returns result; pend is mutated (list of labels). st collects flags."""
    own = 0; pass_seen = False; start = len(pend)
    res = None
    for (cond, body) in rules:
        c = s_cond(cond, val)
        if c == 'E': return 'E'
        if c == 'N':
            if cond[0]=='n' and len(pend)>0: st['negpending']=True
            continue
        if body[0]=='acts':
            acts = body[1]
            ctl = acts[-1] if isinstance(acts[-1], str) else None
            for a in acts:
                if not isinstance(a,str): pend.append(a[1])
            if ctl == 'pass':
                pass_seen = True; continue
            if ctl == 'break':
                if nested and pass_seen: st['nso'] = True   # (iii) own pass leaks outward through break
                return ('N', 'broke')
            return ('M', None)
        else:
            r = s_block(body[1], val, pend, outer_pass or pass_seen, st, True)
            if r == 'E': return 'E'
            if r[0] == 'M': return ('M', None)
            continue
    own = len(pend) - start
    if nested:
        # root-cause predicate of the pinned finding, evaluated on the spec run
        if outer_pass: st['nso'] = True            # completes without break while outer pass pending
        if pass_seen and own == 0 and start > 0: st['nso'] = True
    if pass_seen and own > 0: return ('M', None)
    return ('N', None)

def s_run(rules, val):
    pend = []; st = {'nso': False, 'negpending': False}
    r = s_block(rules, val, pend, False, st, False)
    if r == 'E': return 'E', [], st
    return r[0], (pend if r[0]=='M' else []), st

# ---------- enumeration ----------
def gen_bodies(depth, lab):
    # action lists: label? + ctl
    out = []
    for ctl in (None, 'pass', 'break'):
        for nl in (0, 1):
            acts = [('L', next(lab))] if nl else []
            if ctl: acts.append(ctl)
            if acts: out.append(('acts', acts))
    return out

def gen_blocks(depth, nrules_max, atoms):
    """yield rule lists; atoms is a counter list"""
    lab = itertools.count(1)
    def rules_of(n, depth):
        if n == 0:
            yield []
            return
        for first in rule_of(depth):
            for rest in rules_of(n-1, depth):
                yield [first] + rest
    def rule_of(depth):
        for ck in ('a','n'):
            for body in gen_bodies(depth, lab):
                yield ((ck, None), body)
            if depth > 0:
                for n in range(1, nrules_max+1):
                    for sub in rules_of(n, depth-1):
                        yield ((ck, None), ('block', sub))
    for n in range(1, nrules_max+1):
        for rs in rules_of(n, depth):
            yield rs

def number_atoms(rules, ctr):
    out = []
    for (cond, body) in rules:
        i = ctr[0]; ctr[0]+=1
        if body[0]=='acts': out.append(((cond[0], i), body))
        else: out.append(((cond[0], i), ('block', number_atoms(body[1], ctr))))
    return out

def relabel(rules, ctr):
    out=[]
    for (cond, body) in rules:
        if body[0]=='acts':
            acts=[]
            for a in body[1]:
                if isinstance(a,str): acts.append(a)
                else:
                    ctr[0]+=1; acts.append(('L', ctr[0]))
            out.append((cond, ('acts', acts)))
        else: out.append((cond, ('block', relabel(body[1], ctr))))
    return out

def has_action(rules):
    for (c,b) in rules:
        if b[0]=='acts': return True
        if has_action(b[1]): return True
    return False
def valid(rules):
    # parser: every block must contain >=1 action (pass/break count as actions)
    for (c,b) in rules:
        if b[0]=='block':
            if not has_action(b[1]) or not valid(b[1]): return False
    return True

def main():
    depth = int(sys.argv[1]); nmax = int(sys.argv[2]); negfix = sys.argv[3]=='fix'
    total=0; checked=0; bad=0; flagged=0; shown=0
    for rs in gen_blocks(depth, nmax, None):
        if not valid(rs): continue
        ctr=[0]; rs2 = number_atoms(rs, ctr); na = ctr[0]
        rs2 = relabel(rs2, [0])
        if na > 7: continue
        tree = build_block(rs2)
        for bits in itertools.product('TF', repeat=na):
            val = list(bits); total+=1
            cr = c_run(tree, val, negfix)
            sr = s_run(rs2, val)
            excl = sr[2]['nso'] or (not negfix and sr[2]['negpending'])
            if excl: flagged+=1; continue
            checked+=1
            if (cr[0], cr[1]) != (sr[0], sr[1]):
                bad+=1
                if shown < 8:
                    shown+=1; print('DIVERGE', rs2, val, 'C=',cr, 'S=',sr[:2])
    print('total',total,'checked',checked,'flagged',flagged,'bad',bad)
main()
