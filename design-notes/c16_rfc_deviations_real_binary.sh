#!/bin/sh
# Package p15-c16: where decode.c is not the RFC decoder, shown on the real binary.
#
#   sh design-notes/c16_rfc_deviations_real_binary.sh [scratch-dir] [mdsort-binary]
#
# Every case is one message in a scratch maildir and a one-rule configuration, run with `mdsort -d`
# (dry run: prints the match, moves nothing).  MATCH = the rule matched the decoded text.
# Expected output on mptre/mdsort as pinned in /repo (098cbec) is at the end of this file.
S=${1:-/var/tmp/p15-c16-repro}
M=${2:-/repo/mdsort}
mkdir -p "$S" || exit 1

md() { mkdir -p $S/$1/src/new $S/$1/src/cur $S/$1/src/tmp $S/$1/dst/new $S/$1/dst/cur $S/$1/dst/tmp; }
verdict() { if [ -s $S/$1/out ]; then echo MATCH; else echo no-match; fi; }

body() { # name, body (printf format): quoted-printable body, rule `match body /foobar/`
	md $1
	printf 'Subject: t\nContent-Transfer-Encoding: quoted-printable\n\n'"$2" > $S/$1/src/new/1.msg
	printf 'maildir "%s/src" {\n\tmatch body /foobar/ move "%s/dst"\n}\n' $S/$1 $S/$1 > $S/$1/conf
	$M -d -f $S/$1/conf > $S/$1/out 2>&1
	echo "body   $1: exit=$? $(verdict $1)"
}
hdr() { # name, Subject value (printf format), ERE
	md $1
	printf 'Subject: '"$2"'\n\nbody\n' > $S/$1/src/new/1.msg
	printf 'maildir "%s/src" {\n\tmatch header "Subject" /%s/ move "%s/dst"\n}\n' $S/$1 "$3" $S/$1 > $S/$1/conf
	$M -d -f $S/$1/conf > $S/$1/out 2>&1
	echo "header $1: Subject: $2   /$3/   exit=$? $(verdict $1)"
}

echo "--- quoted-printable soft line breaks (rule: match body /foobar/)"
body lf   'foo=\nbar\n'
body crlf 'foo=\r\nbar\r\n'
body pad  'foo= \nbar\n'
body tab  'foo=\t\nbar\n'
echo "--- a message stored with CRLF throughout: no decoder is selected at all (value is 'quoted-printable\\r')"
md allcrlf
printf 'Subject: t\r\nContent-Transfer-Encoding: quoted-printable\r\n\r\nfoo=\r\nbar=3Dbaz\r\n' > $S/allcrlf/src/new/1.msg
printf 'maildir "%s/src" {\n\tmatch body /bar=3Dbaz/ move "%s/dst"\n}\n' $S/allcrlf $S/allcrlf > $S/allcrlf/conf
$M -d -f $S/allcrlf/conf > $S/allcrlf/out 2>&1
echo "body   allcrlf: /bar=3Dbaz/ (the UNDECODED text) exit=$? $(verdict allcrlf)"

echo "--- encoded words"
hdr wf        '=?utf-8?q?foo?= =?utf-8?B?YmFy?='   '^foobar$'
hdr emptycs   '=??q?foobar?='                      '^foobar$'
hdr emptytx   'foo=?u?q??=bar'                     '^foobar$'
hdr blank     '=?x?q?foo bar?='                    '^foo bar$'
hdr qmark     '=?x?q?foo?bar?='                    '^foo[?]bar$'
hdr gluedpre  'x=?u?q?foobar?='                    '^xfoobar$'
hdr gluedpost '=?u?q?foobar?=x'                    '^foobarx$'
hdr gluedww   '=?u?q?foo?==?u?q?bar?='             '^foobar$'
hdr nulcut    '=?u?B?Zm9vAGJheg==?= bar'           '^foo bar$'
hdr vt        '=?u?q?foo?= \013 =?u?q?bar?='       '^foobar$'
hdr mixeddec  '=?u?q?foobar?= =?u?x?b?='           '^foobar'
hdr mixedraw  '=?u?q?foobar?= =?u?x?b?='           '^=[?]u[?]q[?]foobar[?]= =[?]u[?]x[?]b[?]=$'

# Expected (2026-09-30, /repo at 098cbec):
#   body lf MATCH; crlf, pad, tab no-match; allcrlf MATCH (raw text, nothing decoded)
#   header: wf, emptycs, emptytx, blank, qmark, gluedpre, gluedpost, gluedww, nulcut, vt MATCH
#           mixeddec no-match, mixedraw MATCH (the value with one malformed word is matched raw, as C10 says)
