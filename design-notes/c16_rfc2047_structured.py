import random, subprocess
exec(open('ref.py').read().split("ALPHA=")[0])
R=random.Random(5)
TOK=[b'=?',b'?',b'?=',b'Q',b'B',b'b',b'q',b'x',b' ',b'\n',b'=',b'_',b'=41',b'QQ==',b'QUI=',b'u',b'=?u?Q?',b'=?u?B?',b'\t',b'=4',b'QQ=',b'AA==',b'=00',b'AAAA']
cases=[b''.join(R.choice(TOK) for _ in range(R.randint(1,9))) for _ in range(300000)]
inp=''.join('r %s\n'%c.hex() for c in cases)
p=subprocess.run(['./h'],input=inp.encode(),capture_output=True)
assert p.returncode==0,p.stderr[-300:]
outs=p.stdout.decode().split('\n'); bad=0; dec=0
for c,got in zip(cases,outs):
    exp=s_2047(c); e=cstr(exp).hex()
    if exp!=c: dec+=1
    if got!=e:
        bad+=1
        if bad<8: print(repr(c),'impl',bytes.fromhex(got),'spec',cstr(exp))
print('cases',len(cases),'decoded-nontrivially',dec,'bad',bad)
