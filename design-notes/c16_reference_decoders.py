import itertools, subprocess, sys
WS=b' \t\n\v\f\r'
B64=b'ABCDEFGHIJKLMNOPQRSTUVWXYZabcdefghijklmnopqrstuvwxyz0123456789+/'
def cstr(b): 
    i=b.find(b'\0'); return b if i<0 else b[:i]
def s_b64(s):
    # returns bytes or None
    t=bytes(c for c in s if c not in WS)
    # split at first '='
    i=t.find(b'=')
    data=t if i<0 else t[:i]; pad=b'' if i<0 else t[i:]
    if any(c not in B64 for c in data): 
        # note: a non-alphabet char before the first '=' -> failure
        return None
    vals=[B64.index(c) for c in data]
    r=len(vals)%4
    out=bytearray()
    for k in range(0,len(vals)-r,4):
        a,b,c,d=vals[k:k+4]; out+=bytes([(a<<2)|(b>>4),((b&15)<<4)|(c>>2),((c&3)<<6)|d])
    rest=vals[len(vals)-r:]
    if i<0:
        return bytes(out) if r==0 else None
    if r in (0,1): return None
    if r==2:
        if pad!=b'==': return None
        a,b=rest
        if b&15: return None
        out.append((a<<2)|(b>>4))
    else:
        if pad!=b'=': return None
        a,b,c=rest
        if c&3: return None
        out+=bytes([(a<<2)|(b>>4),((b&15)<<4)|(c>>2)])
    return bytes(out)
def hexd(c):
    if 48<=c<=57: return c-48
    if 65<=c<=70: return c-55
    return None
def s_qp(s,hdr=False):
    out=bytearray(); i=0
    while i<len(s):
        c=s[i]
        if c==95 and hdr: out.append(32); i+=1; continue
        if c!=61: out.append(c); i+=1; continue
        if i+1<len(s) and s[i+1]==10: i+=2; continue
        if i+2<len(s) and hexd(s[i+1]) is not None and hexd(s[i+2]) is not None:
            out.append(hexd(s[i+1])*16+hexd(s[i+2])); i+=3; continue
        out.append(61); i+=1
    return bytes(out)
def s_2047(s):
    out=bytearray(); i=0
    while i<len(s):
        if s[i:i+2]==b'=?':
            j=s.find(b'?',i+2)
            if j<0: return s
            if j+1>=len(s): return s
            enc=s[j+1:j+2]
            if s[j+2:j+3]!=b'?': return s
            k=s.find(b'?=',j+3)
            if k<0: return s
            text=s[j+3:k]
            e=enc.upper()
            if e==b'B':
                d=s_b64(text)
                if d is None: return s
                out+=cstr(d)
            elif e==b'Q':
                out+=s_qp(text,True)
            else: return s
            i=k+2
            nxt=s.find(b'=?',i)
            if nxt>=0 and all(c in WS for c in s[i:nxt]): i=nxt
        else:
            out.append(s[i]); i+=1
    return bytes(out)
ALPHA=[b'A',b'Q',b'g',b'=',b'?',b'_',b' ',b'\n',b'\t',b'/',b'+',b'-',b'0',b'F']
L=int(sys.argv[1])
cases=[]
for n in range(0,L+1):
    for t in itertools.product(ALPHA,repeat=n): cases.append(b''.join(t))
inp=''.join('%s %s\n'%(op,c.hex()) for c in cases for op in 'bqr')
p=subprocess.run(['./h'],input=inp.encode(),capture_output=True)
outs=p.stdout.decode().split('\n')
assert p.returncode==0,(p.returncode,p.stderr[-500:])
k=0;bad=0
for c in cases:
    for op in 'bqr':
        got=outs[k];k+=1
        exp={'b':s_b64,'q':s_qp,'r':s_2047}[op](c)
        e='ERR' if exp is None else cstr(exp).hex()
        if got!=e:
            bad+=1
            if bad<10: print(op,repr(c),'impl',got,'spec',e)
print('cases',len(cases)*3,'bad',bad)
