import random, subprocess, os, shutil, re
R=random.Random(int(os.environ.get('SEED','3')))
base='/tmp/bf/r8'
NAMES=['A','b','X-Label','x-label','To','Z','B-c','X-LABEL','Subject']
def rnd_value():
    parts=[]
    n=R.choice([1,1,1,2,3])
    for i in range(n):
        w=''.join(R.choice('ab \t:=?\xe9.;"') for _ in range(R.randint(0,8)))
        if i>0: w=R.choice([' ','\t',' \t','  '])+w
        parts.append(w)
    v='\n'.join(parts)
    return v
def gen():
    fields=[]
    for _ in range(R.randint(0,7)):
        nm=R.choice(NAMES); sep=R.choice([': ',':',':  ',':\t'])
        v=rnd_value().lstrip(' \t')
        fields.append((nm,sep,v))
    body=R.choice(['','b\n','line1\n\nline3\n','no newline at end',' leading space\n','--x\n'])
    frm=R.choice(['','','From a@b Mon\n'])
    raw=frm+''.join(n+s+v+'\n' for n,s,v in fields)+'\n'+body
    return fields,body,raw
def spec(fields,body,sets):
    out=[(n,v) for n,_,v in fields]
    for k,v in sets:
        idx=[i for i,(n,_) in enumerate(out) if n.lower()==k.lower()]
        if idx:
            out[idx[0]]=(out[idx[0]][0],v)  # name kept as in original first occurrence
            for i in reversed(idx[1:]): del out[i]
        else:
            out.append((k,v))
    return ''.join('%s: %s\n'%(n,v) for n,v in out)+'\n'+body
bad=0;N=int(os.environ.get('N','400'))
for it in range(N):
    fields,body,raw=gen()
    if body.startswith('\n'): continue
    shutil.rmtree(base,ignore_errors=True); os.makedirs(base+'/src/new'); os.makedirs(base+'/src/cur')
    open(base+'/src/new/1.h','w',encoding='latin-1').write(raw)
    kind=R.choice(['label','add','both'])
    acts=[];sets=[]
    if kind in('label','both'):
        acts.append('label "L"')
    if kind in('add','both'):
        k=R.choice(NAMES+['New']); acts.append('add-header "%s" "vv"'%k); 
    open(base+'/c.conf','w').write('maildir "%s/src" {\n\tmatch all %s\n}\n'%(base,' '.join(acts)))
    p=subprocess.run(['/repo/mdsort','-f',base+'/c.conf'],capture_output=True)
    f=os.listdir(base+'/src/new')
    got=open(base+'/src/new/'+f[0],encoding='latin-1').read()
    # expected: label value = existing x-label values (unfolded+decoded) joined + L
    sets=[]
    if 'label "L"' in acts:
        ex=[v for n,_,v in fields if n.lower()=='x-label']
        def unfold(v): return ''.join(l.lstrip('\t') for l in v.split('\n'))
        lab=' '.join([unfold(v) for v in ex]+['L'])
        # empty existing values: buffer_get_len>0 check -> handled approx
        sets.append(('X-Label',lab))
    if len(acts)==2 or kind=='add':
        sets.append((k,'vv'))
    exp=spec(fields,body,sets)
    if got!=exp:
        # tolerate label-join subtleties: compare with X-Label line removed
        strip=lambda s: re.sub(r'(?im)^x-label: .*\n(?:[ \t].*\n)*','',s)
        if strip(got)!=strip(exp):
            bad+=1
            if bad<6: print('DIFF\nRAW',repr(raw),'\nACTS',acts,'\nGOT',repr(got),'\nEXP',repr(exp),p.stderr[:100])
print('N',N,'bad',bad)
