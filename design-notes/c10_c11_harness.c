#include "/repo/message.c"
#include <sys/stat.h>
int log_level = 0;
void logit(const char *fmt, ...) { (void)fmt; }
size_t nspaces(const char *str) { return strspn(str, " \t"); }
char *pathjoin(char *buf, size_t bufsiz, const char *d, const char *f){ int n=snprintf(buf,bufsiz,"%s/%s",d,f); if(n<0||(size_t)n>=bufsiz) return NULL; return buf; }
static int hexv(int c){ return c<='9'?c-'0':c-'a'+10; }
static void ph(const char *s){ if(!s){printf("NULL");return;} for(;*s;s++) printf("%02x",(unsigned char)*s); printf("."); }
int main(int argc,char**argv){
  static char line[1<<20];
  const char *dir=argv[1];
  while (fgets(line,sizeof line,stdin)){
    size_t n=strlen(line); if(n&&line[n-1]=='\n') line[--n]=0;
    /* format: op SP name-hex SP msg-hex */
    char op=line[0]; char *nh=line+2; char *mh=strchr(nh,' '); *mh++=0;
    char name[256]; size_t nl=strlen(nh)/2; for(size_t i=0;i<nl;i++) name[i]=hexv(nh[2*i])*16+hexv(nh[2*i+1]); name[nl]=0;
    size_t ml=strlen(mh)/2; char path[512]; snprintf(path,sizeof path,"%s/m",dir);
    FILE*f=fopen(path,"w"); for(size_t i=0;i<ml;i++) fputc(hexv(mh[2*i])*16+hexv(mh[2*i+1]),f); fclose(f);
    int dfd=open(dir,O_RDONLY|O_DIRECTORY);
    struct message *msg=message_parse(dir,dfd,"m");
    if(!msg){ puts("PARSEFAIL"); close(dfd); continue; }
    if(op=='g'){ char*const*v=message_get_header(msg,name); if(!v) printf("NONE"); else for(size_t i=0;i<VECTOR_LENGTH(v);i++){ ph(v[i]); printf(" ");} puts(""); }
    else if(op=='b'){ const char*b=message_get_body(msg); ph(b); puts(""); }
    else if(op=='a'){ struct message **at=message_get_attachments(msg); if(!at) puts("ERR"); else { printf("%zu",VECTOR_LENGTH(at)); for(size_t i=0;i<VECTOR_LENGTH(at);i++){ printf(" ["); const char*ct=message_get_header1(at[i],"Content-Type"); ph(ct); printf("|"); ph(at[i]->me_body); printf("]"); } puts(""); message_free_attachments(at);} }
    message_free(msg); close(dfd);
  }
}
