import random, subprocess, os, calendar, time
R=random.Random(31)
DAYS=['Mon','Tue','Wed','Thu','Fri','Sat','Sun']; MON=['Jan','Feb','Mar','Apr','May','Jun','Jul','Aug','Sep','Oct','Nov','Dec']
def tzoff(s):
    if len(s)<5 or s[0] not in '+-': return None
    if not all(c.isdigit() and c.isascii() for c in s[1:5]): return None
    hh=int(s[1:3]); mm=int(s[3:5])
    if hh>23 or mm>59: return None
    return (1 if s[0]=='+' else -1)*(hh*3600+mm*60)
cases=[]
for _ in range(20000):
    t=R.randint(0,2**31-1-86400*2); tm=time.gmtime(t)
    sign=R.choice('+-'); hh=R.randint(0,23); mm=R.randint(0,59)
    zone=R.choice(['%s%02d%02d'%(sign,hh,mm)]*6+['GMT','UT','UTC','+0200 (CEST)','-0000','+2400','+0060',''])
    lay=R.randint(0,2)
    d=DAYS[tm.tm_wday]; mo=MON[tm.tm_mon-1]
    if lay==0: s='%s, %d %s %d %02d:%02d:%02d'%(d,tm.tm_mday,mo,tm.tm_year,tm.tm_hour,tm.tm_min,tm.tm_sec)
    elif lay==1: s='%s, %d %s %d %02d:%02d'%(d,tm.tm_mday,mo,tm.tm_year,tm.tm_hour,tm.tm_min)
    else: s='%d %s %d %02d:%02d:%02d'%(tm.tm_mday,mo,tm.tm_year,tm.tm_hour,tm.tm_min,tm.tm_sec)
    civil=t if lay!=1 else t-tm.tm_sec
    now=R.randint(0,2**31-1)
    cases.append((now,s+' '+zone,civil,zone))
inp=''.join('%d %s\n'%(c[0],c[1]) for c in cases)
for tz in ['UTC','Europe/Stockholm','America/New_York','Asia/Kolkata',None]:
    env=dict(os.environ); 
    if tz is None: env.pop('TZ',None)
    else: env['TZ']=tz
    p=subprocess.run(['./h'],input=inp.encode(),capture_output=True,env=env)
    outs=p.stdout.decode().split('\n'); bad=0; errs=0; deltas={}
    for c,got in zip(cases,outs):
        now,s,civil,zone=c
        z=tzoff(zone)
        if z is None and zone in('GMT','UT','UTC'): z=0
        f=got.split(' ')
        if z is None:
            errs+=1; continue
        exp=civil-z
        if f[0]=='ERR': bad+=1; print('unexpected ERR',s,got); continue
        d=int(f[0])-exp
        deltas[d]=deltas.get(d,0)+1
        assert int(f[1])==civil,(s,got,civil)
    print(tz,'errs',errs,'bad',bad,'deltas',deltas)
