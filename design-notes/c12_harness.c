#include <stdio.h>
#include "/repo/match.c"
static int hexv(int c){ return c<='9'?c-'0':c-'a'+10; }
static char *unhex(const char *h){ size_t n=strlen(h)/2; char *s=malloc(n+1); for(size_t i=0;i<n;i++) s[i]=hexv(h[2*i])*16+hexv(h[2*i+1]); s[n]=0; return s; }
/* line: tplhex SP pathhex SP npat { SP ngroups {SP grouphex} } ; group "-" = empty */
int main(void){
  static char line[1<<16];
  while(fgets(line,sizeof line,stdin)){
    size_t n=strlen(line); if(n&&line[n-1]=='\n') line[--n]=0;
    char *save; char *tok=strtok_r(line," ",&save);
    char *tpl=unhex(tok); char *path=unhex(strtok_r(NULL," ",&save));
    int npat=atoi(strtok_r(NULL," ",&save));
    struct match_list ml; TAILQ_INIT(&ml);
    struct expr exm={.ex_type=EXPR_TYPE_MATCH}, exh={.ex_type=EXPR_TYPE_HEADER,.ex_flags=EXPR_FLAG_INTERPOLATE|EXPR_FLAG_INSPECT}, exmv={.ex_type=EXPR_TYPE_MOVE,.ex_flags=EXPR_FLAG_ACTION};
    struct match *s=match_alloc(&exm,NULL); TAILQ_INSERT_TAIL(&ml,s,mh_entry);
    for(int p=0;p<npat;p++){
      int ng=atoi(strtok_r(NULL," ",&save));
      struct match *m=match_alloc(&exh,NULL);
      m->mh_matches=calloc(ng?ng:1,sizeof(*m->mh_matches)); m->mh_nmatches=ng;
      for(int g=0;g<ng;g++){ char *t=strtok_r(NULL," ",&save); m->mh_matches[g].m_str=strcmp(t,"-")?unhex(t):strdup(""); }
      TAILQ_INSERT_TAIL(&ml,m,mh_entry);
    }
    struct match *mv=match_alloc(&exmv,NULL); TAILQ_INSERT_TAIL(&ml,mv,mh_entry);
    struct macro_list *mc=macros_alloc(MACRO_CTX_ACTION); macros_insertc(mc,"path",path);
    char *r=interpolate(mv,mc,tpl);
    if(!r) puts("ERR"); else { for(char*q=r;*q;q++) printf("%02x",(unsigned char)*q); puts("."); free(r);} 
    macros_free(mc); matches_clear(&ml); free(tpl); free(path);
  }
}
