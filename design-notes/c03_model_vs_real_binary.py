import random, subprocess, os, shutil, sys
sys.argv=['x','1','1','nofix']
exec(open('c03.py').read().split("def main():")[0])
R=random.Random(int(os.environ.get('SEED','1')))
def rnd_rules(depth, ctr, lab):
    n=R.randint(1,3); out=[]
    for _ in range(n):
        ck=R.choice('aan'); i=ctr[0]; ctr[0]+=1
        if depth>0 and R.random()<0.35:
            out.append(((ck,i),('block',rnd_rules(depth-1,ctr,lab))))
        else:
            acts=[]
            for _ in range(R.choice([0,1,1,2])):
                lab[0]+=1; acts.append(('L',lab[0]))
            ctl=R.choice([None,None,'pass','pass','break'])
            if ctl: acts.append(ctl)
            if not acts:
                lab[0]+=1; acts=[('L',lab[0])]
            out.append(((ck,i),('acts',acts)))
    return out
def conf_rules(rules, ind):
    s=''
    for (c,b) in rules:
        cond=('! ' if c[0]=='n' else '')+'header "X-%d" /^1$/'%c[1]
        if b[0]=='acts':
            a=' '.join(x if isinstance(x,str) else 'label "L%d"'%x[1] for x in b[1])
            s+='\t'*ind+'match %s %s\n'%(cond,a)
        else:
            s+='\t'*ind+'match %s {\n'%cond+conf_rules(b[1],ind+1)+'\t'*ind+'}\n'
    return s
base='/tmp/bf/run'
bad=0; N=int(os.environ.get('N','300'))
for it in range(N):
    ctr=[0]; lab=[0]
    rules=rnd_rules(2,ctr,lab)
    if not valid(rules): continue
    na=ctr[0]; val=[R.choice('TF') for _ in range(na)]
    shutil.rmtree(base,ignore_errors=True); os.makedirs(base+'/src/new'); os.makedirs(base+'/src/cur')
    open(base+'/src/new/1.h','w').write(''.join('X-%d: %d\n'%(i,1 if v=='T' else 0) for i,v in enumerate(val))+'\nbody\n')
    open(base+'/c.conf','w').write('maildir "%s/src" {\n'%base+conf_rules(rules,1)+'}\n')
    p=subprocess.run(['/repo/mdsort','-f',base+'/c.conf'],capture_output=True,text=True)
    f=os.listdir(base+'/src/new'); assert len(f)==1
    txt=open(base+'/src/new/'+f[0]).read()
    got=[]
    for line in txt.split('\n'):
        if line.startswith('X-Label: '): got=[int(x[1:]) for x in line[9:].split()]
    tree=build_block(rules)
    cr=c_run(tree,val,False)
    if p.returncode!=0 or cr[1]!=got:
        bad+=1; print('MISMATCH',rules,val,'model',cr,'real',got,p.returncode,p.stderr[:200])
print('compared',N,'bad',bad)
