#define _GNU_SOURCE
#include <dlfcn.h>
#include <stdio.h>
#include <stdarg.h>
#include <fcntl.h>
#include <dirent.h>
#include <unistd.h>
#include <errno.h>
#include <stdlib.h>
#include <string.h>
static int n;
static FILE *lg(void){ static FILE *f; if(!f){ const char*p=getenv("VSHIM_LOG"); f=fopen(p?p:"/dev/null","a"); setvbuf(f,NULL,_IONBF,0);} return f; }
int openat(int d, const char *p, int fl, ...){ static int(*r)(int,const char*,int,...); if(!r) r=dlsym(RTLD_NEXT,"openat"); mode_t m=0; if(fl&O_CREAT){va_list a;va_start(a,fl);m=va_arg(a,int);va_end(a);} int k=n++; int v=r(d,p,fl,m); fprintf(lg(),"%d openat %d %s %#x = %d\n",k,d,p,fl,v); return v; }
int renameat(int a,const char*b,int c,const char*d){ static int(*r)(int,const char*,int,const char*); if(!r) r=dlsym(RTLD_NEXT,"renameat"); int k=n++; const char*f=getenv("VSHIM_FAIL"); if(f&&atoi(f)==k){errno=EXDEV; fprintf(lg(),"%d renameat %s %s = -1 EXDEV(injected)\n",k,b,d); return -1;} int v=r(a,b,c,d); fprintf(lg(),"%d renameat %s %s = %d\n",k,b,d,v); return v; }
int unlinkat(int a,const char*b,int c){ static int(*r)(int,const char*,int); if(!r) r=dlsym(RTLD_NEXT,"unlinkat"); int k=n++; int v=r(a,b,c); fprintf(lg(),"%d unlinkat %s = %d\n",k,b,v); return v; }
int fprintf(FILE*f,const char*fmt,...){ va_list a; va_start(a,fmt); int v=vfprintf(f,fmt,a); va_end(a); if(f!=stdout&&f!=stderr&&f!=lg()){ int k=n++; FILE*l=lg(); fputs("",l); char b[64]; snprintf(b,sizeof b,"%d fprintf fd=%d = %d\n",k,fileno(f),v); fputs(b,l);} return v; }
int fsync(int fd){ static int(*r)(int); if(!r) r=dlsym(RTLD_NEXT,"fsync"); int k=n++; int v=r(fd); fprintf(lg(),"%d fsync %d = %d\n",k,fd,v); return v; }
int fclose(FILE*f){ static int(*r)(FILE*); if(!r) r=dlsym(RTLD_NEXT,"fclose"); if(f==lg()) return r(f); int k=n++; int fd=fileno(f); int v=r(f); fprintf(lg(),"%d fclose fd=%d = %d\n",k,fd,v); return v; }
struct dirent *readdir(DIR*d){ static struct dirent*(*r)(DIR*); if(!r) r=dlsym(RTLD_NEXT,"readdir"); int k=n++; struct dirent*e=r(d); fprintf(lg(),"%d readdir = %s\n",k,e?e->d_name:"NULL"); return e; }
int utimensat(int a,const char*b,const struct timespec t[2],int f){ static int(*r)(int,const char*,const struct timespec*,int); if(!r) r=dlsym(RTLD_NEXT,"utimensat"); int k=n++; int v=r(a,b,t,f); fprintf(lg(),"%d utimensat %s = %d\n",k,b,v); return v; }
