import random, subprocess, os
exec(open('refdec.py').read().split("ALPHA=")[0])
R=random.Random(int(os.environ.get('SEED','11')))
def parse(m):
    """LF-convention reading following findheader: returns (fields, body)"""
    m=cstr(m)
    i=0
    if m.startswith(b'From '):
        j=m.find(b'\n'); 
        if j>=0: i=j+1
    fields=[]
    while True:
        # name
        j=i
        ok=True
        while True:
            if j>=len(m): ok=False;break
            c=m[j]
            if c==58: break
            if c in b' \t\n\v\f\r': ok=False;break
            j+=1
        if not ok: break
        name=m[i:j]; k=j+1
        while k<len(m) and m[k] in b' \t': k+=1
        vs=k
        # end of value
        while True:
            e=m.find(b'\n',k)
            if e<0: ok=False;break
            if e+1<len(m) and m[e+1] in b' \t':
                k=e+1
                while k<len(m) and m[k] in b' \t': k+=1
                continue
            break
        if not ok: break
        fields.append((name,m[vs:e])); i=e+1
    while i<len(m) and m[i]==10: i+=1
    return fields,m[i:]
def unfold(v):
    if b'\n' not in v: return v
    return b''.join(l.lstrip(b'\t') for l in v.split(b'\n'))
def lower(b): return bytes(c+32 if 65<=c<=90 else c for c in b)
def get(m,name):
    f,_=parse(m)
    vals=[cstr(s_2047(unfold(v))) for n,v in f if lower(n)==lower(name)]
    return vals
LINES=[b'To: a',b'to:b',b'TO:  c d',b'X: 1',b'Subject: =?u?Q?a_b?=',b'Subject: =?u?B?QQ==?= =?u?q?=41?=',b' cont',b'\tcont',b'\t tc',b'  ',b'',b'noheader',b'K :v',b':empty',b'From x',b'a: =?bad',b'Y:',b'y: \t',b'Z: z\r',b'b\x00c: d',b'\xe9: \xe9',b'to: last']
NAMES=[b'to',b'To',b'subject',b'x',b'y',b'K',b'',b'z',b'a',b'\xe9',b'nosuch']
cases=[]
for _ in range(int(os.environ.get('N','60000'))):
    n=R.randint(0,9)
    ls=[R.choice(LINES) for _ in range(n)]
    m=b'\n'.join(ls)+R.choice([b'',b'\n',b'\n\n',b'\n\nbody\n'])
    cases.append((R.choice(NAMES),m))
inp=''.join('g %s %s\n'%(n.hex(),m.hex()) for n,m in cases)
p=subprocess.run(['./h','/tmp/h10/d'],input=inp.encode(),capture_output=True)
assert p.returncode==0,p.stderr[-600:]
outs=p.stdout.decode().split('\n'); bad=0; nontriv=0
for (n,m),got in zip(cases,outs):
    vals=get(m,n)
    e='NONE' if not vals else ''.join(v.hex()+'. ' for v in vals)
    if len(vals)>1 or any(b'=?' in x for x in [m]): nontriv+=1
    if got!=e:
        bad+=1
        if bad<8: print(repr(n),repr(m),'\n impl',got,'\n spec',e)
print('cases',len(cases),'nontrivial',nontriv,'bad',bad)
