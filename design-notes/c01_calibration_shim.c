/* calibration shim (scratch): trace + single fault by call index */
#define _GNU_SOURCE
#include <dlfcn.h>
#include <stdio.h>
#include <stdarg.h>
#include <fcntl.h>
#include <dirent.h>
#include <unistd.h>
#include <errno.h>
#include <stdlib.h>
#include <string.h>
#include <sys/stat.h>
#include <sys/wait.h>
static int n = 0, fk = -2, ferr = EIO, fshort = 0, exdev = 0, inited = 0, logfd = -1;
static void init(void){ if(inited) return; inited=1; const char*p=getenv("VSHIM_LOG"); if(p) logfd=open(p,O_WRONLY|O_CREAT|O_APPEND|O_CLOEXEC,0600);
  const char*f=getenv("VSHIM_FAIL"); if(f){ fk=atoi(f); const char*c=strchr(f,':'); if(c){ if(!strcmp(c+1,"short")) fshort=1; else ferr=atoi(c+1);} } else fk=-2;
  if(getenv("VSHIM_EXDEV")) exdev=1; }
static void lg(const char*fmt,...){ char b[512]; va_list a; va_start(a,fmt); int l=vsnprintf(b,sizeof b,fmt,a); va_end(a); if(logfd>=0){ ssize_t(*w)(int,const void*,size_t)=dlsym(RTLD_NEXT,"write"); w(logfd,b,l);} }
/* returns 1 if this call must fail */
#include <signal.h>
static int tick(const char*name,const char*arg){ init(); int k=n++; { const char*pp=getenv("VSHIM_PAUSE"); if(pp&&atoi(pp)==k){ const char*cmd=getenv("VSHIM_PAUSE_CMD"); lg("%d %s PAUSED\n",k,name); char*ld=getenv("LD_PRELOAD"); char save[512]=""; if(ld){strncpy(save,ld,511); unsetenv("LD_PRELOAD");} int rc=system(cmd); lg("other-party rc=%d\n",rc); if(save[0]) setenv("LD_PRELOAD",save,1);} }
  { const char*kk=getenv("VSHIM_KILL"); if(kk&&atoi(kk)==k){ lg("%d %s KILLED-BEFORE\n",k,name); kill(getpid(),SIGKILL);} } int f=(k==fk); lg("%d %s %s%s\n",k,name,arg?arg:"",f?(fshort?" <SHORT>":" <FAULT>"):""); if(f&&!fshort) errno=ferr; return f; }
#define REAL(ret,name,...) static ret(*r)(__VA_ARGS__); if(!r) r=dlsym(RTLD_NEXT,#name)
int openat(int d,const char*p,int fl,...){ REAL(int,openat,int,const char*,int,...); mode_t m=0; if(fl&O_CREAT){va_list a;va_start(a,fl);m=va_arg(a,int);va_end(a);} if(tick(fl&O_CREAT?"openat_creat":"openat",p)&&!fshort) return -1; return r(d,p,fl,m); }
int open(const char*p,int fl,...){ REAL(int,open,const char*,int,...); mode_t m=0; if(fl&O_CREAT){va_list a;va_start(a,fl);m=va_arg(a,int);va_end(a);} if(!inited&&!getenv("VSHIM_LOG")) return r(p,fl,m); if(tick("open",p)&&!fshort) return -1; return r(p,fl,m); }
ssize_t read(int fd,void*b,size_t c){ REAL(ssize_t,read,int,void*,size_t); char a[32]; snprintf(a,sizeof a,"fd=%d",fd); int f=tick("read",a); if(f&&!fshort) return -1; if(f&&c>1) c=1; return r(fd,b,c); }
ssize_t write(int fd,const void*b,size_t c){ REAL(ssize_t,write,int,const void*,size_t); if(fd<=2) return r(fd,b,c); char a[32]; snprintf(a,sizeof a,"fd=%d n=%zu",fd,c); int f=tick("write",a); if(f&&!fshort) return -1; if(f&&c>1) c=c/2; return r(fd,b,c); }
int fsync(int fd){ REAL(int,fsync,int); if(tick("fsync",0)&&!fshort) return -1; return r(fd); }
int close(int fd){ REAL(int,close,int); if(fd==logfd) return 0; char a[32]; snprintf(a,sizeof a,"fd=%d",fd); if(tick("close",a)&&!fshort){ r(fd); return -1;} return r(fd); }
int renameat(int a,const char*b,int c,const char*d){ REAL(int,renameat,int,const char*,int,const char*); if(tick("renameat",b)&&!fshort) return -1; if(exdev){errno=EXDEV;return -1;} return r(a,b,c,d); }
int unlinkat(int a,const char*b,int c){ REAL(int,unlinkat,int,const char*,int); if(tick("unlinkat",b)&&!fshort) return -1; return r(a,b,c); }
int unlink(const char*b){ REAL(int,unlink,const char*); if(tick("unlink",b)&&!fshort) return -1; return r(b); }
int mkdir(const char*p,mode_t m){ REAL(int,mkdir,const char*,mode_t); if(tick("mkdir",p)&&!fshort) return -1; return r(p,m); }
char*mkdtemp(char*t){ REAL(char*,mkdtemp,char*); if(tick("mkdtemp",t)&&!fshort) return NULL; return r(t); }
int mkstemp(char*t){ REAL(int,mkstemp,char*); if(tick("mkstemp",t)&&!fshort) return -1; return r(t); }
int rmdir(const char*p){ REAL(int,rmdir,const char*); if(tick("rmdir",p)&&!fshort) return -1; return r(p); }
int stat(const char*p,struct stat*s){ REAL(int,stat,const char*,struct stat*); if(tick("stat",p)&&!fshort) return -1; return r(p,s); }
int fstatat(int d,const char*p,struct stat*s,int f){ REAL(int,fstatat,int,const char*,struct stat*,int); if(tick("fstatat",p)&&!fshort) return -1; return r(d,p,s,f); }
int utimensat(int a,const char*b,const struct timespec t[2],int f){ REAL(int,utimensat,int,const char*,const struct timespec*,int); if(tick("utimensat",b)&&!fshort) return -1; return r(a,b,t,f); }
int fcntl(int fd,int cmd,...){ REAL(int,fcntl,int,int,...); va_list a; va_start(a,cmd); long arg=va_arg(a,long); va_end(a); if(tick("fcntl",0)&&!fshort) return -1; return r(fd,cmd,arg); }
off_t lseek(int fd,off_t o,int w){ REAL(off_t,lseek,int,off_t,int); if(tick("lseek",0)&&!fshort) return -1; return r(fd,o,w); }
FILE*fdopen(int fd,const char*m){ REAL(FILE*,fdopen,int,const char*); if(tick("fdopen",0)&&!fshort) return NULL; return r(fd,m); }
static FILE *tracked[64]; static int ntr;
static int istracked(FILE*f){ for(int i=0;i<ntr;i++) if(tracked[i]==f) return 1; return 0; }
int fprintf(FILE*f,const char*fmt,...){ va_list a; va_start(a,fmt); int t=(f!=stdout&&f!=stderr); if(t){ if(tick("fprintf",0)&&!fshort){ va_end(a); return -1; } } int v=vfprintf(f,fmt,a); va_end(a); return v; }
int fflush(FILE*f){ REAL(int,fflush,FILE*); if(f==stdout||f==stderr||f==NULL) return r(f); if(tick("fflush",0)&&!fshort) return EOF; return r(f); }
int fclose(FILE*f){ REAL(int,fclose,FILE*); if(tick("fclose",0)&&!fshort){ r(f); return EOF;} return r(f); }
DIR*opendir(const char*p){ REAL(DIR*,opendir,const char*); if(tick("opendir",p)&&!fshort) return NULL; return r(p); }
struct dirent*readdir(DIR*d){ REAL(struct dirent*,readdir,DIR*); if(tick("readdir",0)&&!fshort) return NULL; errno=0; return r(d); }
int closedir(DIR*d){ REAL(int,closedir,DIR*); if(tick("closedir",0)&&!fshort){ r(d); return -1;} return r(d); }
pid_t fork(void){ REAL(pid_t,fork,void); if(tick("fork",0)&&!fshort) return -1; pid_t p=r(); if(p==0){ fk=-2; logfd=-1; unsetenv("LD_PRELOAD"); unsetenv("VSHIM_FAIL"); unsetenv("VSHIM_LOG"); } return p; }
pid_t waitpid(pid_t p,int*s,int o){ REAL(pid_t,waitpid,pid_t,int*,int); if(tick("waitpid",0)&&!fshort) return -1; return r(p,s,o); }
