import os, subprocess, shutil, sys, errno, collections
B='/tmp/cal/w'
MSG1=b'To: user@example.com\nSubject: one\nContent-Type: multipart/mixed; boundary="b"\n\n--b\nContent-Type: text/plain\n\npart one\n--b--\n'
MSG2=b'To: other@example.com\n\ndecoy\n'
HELPER='/tmp/cal/helper.sh'
open(HELPER,'w').write('#!/bin/sh\ncat >/dev/null\nexit 0\n'); os.chmod(HELPER,0o755)
def rewritten(msg, extra):
    # what message_write produces: headers normalised + extra headers appended
    head,body=msg.split(b'\n\n',1)
    return head+b'\n'+b''.join(extra)+b'\n'+body
SCEN={
 'move':      dict(rule='match header "To" /user/ move "%s/dst"'%B, final=('dst','new',MSG1)),
 'move_exdev':dict(rule='match header "To" /user/ move "%s/dst"'%B, final=('dst','new',MSG1), exdev=True),
 'flag':      dict(rule='match header "To" /user/ flag !new', final=('src','cur',MSG1)),
 'flags':     dict(rule='match header "To" /user/ flags "F"', final=('src','new',MSG1)),
 'label':     dict(rule='match header "To" /user/ label "l"', final=('src','new',rewritten(MSG1,[b'X-Label: l\n']))),
 'addheader': dict(rule='match header "To" /user/ add-header "Z" "z"', final=('src','new',rewritten(MSG1,[b'Z: z\n']))),
 'label_move':dict(rule='match header "To" /user/ label "l" move "%s/dst"'%B, final=('dst','new',rewritten(MSG1,[b'X-Label: l\n']))),
 'discard':   dict(rule='match header "To" /user/ discard', final=None),
 'exec':      dict(rule='match header "To" /user/ exec stdin "%s"'%HELPER, final=('src','new',MSG1)),
 'exec_body': dict(rule='match header "To" /user/ exec stdin body "%s"'%HELPER, final=('src','new',MSG1)),
 'attach_exec':dict(rule='match header "To" /user/ attachment {\n match all exec stdin "%s"\n}'%HELPER, final=('src','new',MSG1)),
 'stdin_move':dict(stdin=True, rule='match all move "%s/dst"'%B, final=('dst','new',MSG1)),
 'stdin_move_exdev':dict(stdin=True, exdev=True, rule='match all move "%s/dst"'%B, final=('dst','new',MSG1)),
 'stdin_label_move':dict(stdin=True, exdev=True, rule='match all label "l" move "%s/dst"'%B, final=('dst','new',rewritten(MSG1,[b'X-Label: l\n']))),
}
def setup(sc):
    shutil.rmtree(B,ignore_errors=True)
    for d in ('src','dst'):
        for s in ('new','cur','tmp'): os.makedirs('%s/%s/%s'%(B,d,s))
    os.makedirs(B+'/tmpdir')
    if not sc.get('stdin'):
        open(B+'/src/new/m1','wb').write(MSG1); open(B+'/src/new/m2','wb').write(MSG2)
        os.utime(B+'/src/new/m1',(1000000000,1000000000))
    hdr='stdin' if sc.get('stdin') else 'maildir "%s/src"'%B
    open(B+'/c.conf','w').write('%s {\n%s\n}\n'%(hdr,sc['rule']))
def run(sc, fail=None):
    setup(sc)
    env=dict(os.environ, LD_PRELOAD='/tmp/cal/vs.so', VSHIM_LOG=B+'/log', TMPDIR=B+'/tmpdir')
    if fail: env['VSHIM_FAIL']=fail
    if sc.get('exdev'): env['VSHIM_EXDEV']='1'
    args=['/repo/mdsort','-f',B+'/c.conf']+(['-'] if sc.get('stdin') else [])
    p=subprocess.run(args,env=env,input=MSG1 if sc.get('stdin') else None,capture_output=True,timeout=20)
    log=open(B+'/log').read().split('\n') if os.path.exists(B+'/log') else []
    return p.returncode,p.stderr.decode(),log
def snapshot():
    out=[]
    for d in ('src','dst'):
        for s in ('new','cur','tmp'):
            for f in sorted(os.listdir('%s/%s/%s'%(B,d,s))):
                out.append((d,s,f,open('%s/%s/%s/%s'%(B,d,s,f),'rb').read(),os.stat('%s/%s/%s/%s'%(B,d,s,f)).st_mtime))
    return out, sorted(os.listdir(B+'/tmpdir'))
def check(name, sc, rc, fired, site, short_ok=False):
    snap,tmp=snapshot(); probs=[]
    stdin=sc.get('stdin')
    versions=[MSG1]+([sc['final'][2]] if sc['final'] else [])
    m1=[e for e in snap if e[3] in versions]
    decoy=[e for e in snap if e[3]==MSG2]
    others=[e for e in snap if e not in m1 and e not in decoy]
    if not stdin:
        if len(decoy)!=1 or decoy[0][:3]!=('src','new','m2'): probs.append('DECOY-TOUCHED')
    if others: probs.append('STRAY %s'%[(e[0],e[1],len(e[3])) for e in others])
    if stdin:
        if rc==0:
            if len(m1)!=1: probs.append('STDIN exit0 copies=%d'%len(m1))
            elif sc['final'] and (m1[0][0],m1[0][1],m1[0][3])!=sc['final']: probs.append('STDIN exit0 not-final')
        else:
            if len(m1)>1: probs.append('STDIN dup copies=%d'%len(m1))
        if tmp: probs.append('TMPDIR-LEFT %s'%tmp)
        if rc not in (0,75): probs.append('STDIN rc=%d'%rc)
    else:
        if sc['final'] is None:
            if rc==0 and m1: probs.append('DISCARD exit0 but present')
            if len(m1)>1: probs.append('DUP')
        else:
            if len(m1)==0: probs.append('LOST')
            if len(m1)>1: probs.append('DUP %s'%[(e[0],e[1]) for e in m1])
            if rc==0 and len(m1)==1 and (m1[0][0],m1[0][1],m1[0][3])!=sc['final']: probs.append('EXIT0-NOT-FINAL at %s/%s'%(m1[0][0],m1[0][1]))
            if rc==0 and len(m1)==1 and m1[0][4]!=1000000000: probs.append('MTIME-LOST')
        if tmp: probs.append('TMPDIR-LEFT %s'%tmp)
    if fired and rc==0 and not short_ok: probs.append('FAULT-BUT-EXIT0')
    if rc<0 or rc>=128: probs.append('SIGNAL rc=%d'%rc)
    return probs
summary=collections.Counter(); total=0
only=sys.argv[1:] 
for name,sc in SCEN.items():
    if only and name not in only: continue
    rc,err,log=run(sc)
    base=[l for l in log if l]
    p0=check(name,sc,rc,False,None)
    print('== %s: %d calls, rc=%d %s'%(name,len(base),rc,p0 if p0 else 'ok'))
    if '-v' in os.environ.get('V',''): print('\n'.join(base))
    for l in base:
        k=int(l.split(" ")[0])
        call=l.split(' ')[1]
        kinds=['%d'%errno.EIO]
        if call in('write','read'): kinds.append('short')
        for kind in kinds:
            rc,err,log=run(sc,'%d:%s'%(k,kind)); total+=1
            fired=any('<FAULT>' in x or '<SHORT>' in x for x in log)
            probs=check(name,sc,rc,fired,call,short_ok=(kind=='short' and call=='read'))
            for pr in probs:
                key=(name,call+('(short)' if kind=='short' else ''),pr.split(' ')[0])
                summary[key]+=1
                print('   k=%d %-14s rc=%-3d %s | %s'%(k,call+('/short' if kind=='short' else ''),rc,pr,l.split(' ',2)[2][:40] if len(l.split(' '))>2 else ''))
print('total fault runs',total)
for k,v in sorted(summary.items()): print(k,v)
