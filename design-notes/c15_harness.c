#include "/repo/config.h"
#include <stdio.h>
#include "/repo/time.c"
int log_level=0; void logit(const char*f,...){(void)f;}
size_t nspaces(const char *s){ return strspn(s," \t"); }
/* line: now SP date-string */
int main(void){
  static char line[4096];
  struct environment env; memset(&env,0,sizeof env);
  const char *tz=getenv("TZ");
  if(!tz) env.ev_tz.t_state=TZ_STATE_LOCAL; else { env.ev_tz.t_state=*tz?TZ_STATE_SET:TZ_STATE_UTC; strlcpy(env.ev_tz.t_buf,tz,sizeof env.ev_tz.t_buf);} 
  while(fgets(line,sizeof line,stdin)){
    size_t n=strlen(line); if(n&&line[n-1]=='\n') line[--n]=0;
    char *sp=strchr(line,' '); *sp++=0;
    env.ev_now=atoll(line); struct tm *lt=localtime(&env.ev_now); env.ev_tz.t_offset=lt->tm_gmtoff;
    time_t res; 
    struct tm tm; memset(&tm,0,sizeof tm); const char *end=timeparse(sp,&tm);
    long long g = end? (long long)timegm(&tm) : -1;
    if(time_parse(sp,&res,&env)) printf("ERR %lld [%s]\n",g,end?end:"");
    else printf("%lld %lld [%s]\n",(long long)res,g,end);
  }
}
