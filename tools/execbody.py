"""What a command run by `exec stdin body` / `exec stdin` (attachment) reads when the transfer into the temporary file is disturbed.

Shared stage of C11 (the command gets the DECODED body) and C13 (the command reads the COMPLETE content from offset 0).  mdsort
copies the decoded body (write(2) loop) or the part (message_write: stdio) into an unlinked temporary file and hands that file to
the command.  Every call between creating the temporary file and the fork is disturbed on the real binary under the shim:

* `write`: short (1 byte), shorthalf, two short counts in a row, EINTR, ENOSPC, EIO, EDQUOT, EFBIG;
* every other call of that window (mkostemp, unlink, lseek, fcntl, fdopen, fprintf, fflush, fsync, fclose ...): its errno row;
* the kernel's file size limit (proc.run(fsize=N)) at boundaries of the content size: reaches the write(2) calls stdio issues itself.

Oracle (the property, not the unchanged binary): whenever the command ran, the bytes it read on standard input (recorded by
harness/shim/exechelper.c) are exactly the expected content - the body decoded by the SPECIFICATION (`S body` / `S parts` of the Lean
driver: Spec.decodedBody), resp. the part; if it did not run, mdsort reported an error (non-zero exit status and a diagnostic);
exit status 0 only if it ran the expected number of times with the complete content.
"""
import base64
import concurrent.futures as cf
import quopri
import vlib
import proc
import worldscen as ws

R = '@R@'
H = '"@HELPER@"'
WRITE_SPECS = ['short', 'shorthalf', 'EINTR', 'ENOSPC', 'EIO', 'EDQUOT', 'EFBIG']
WRITE_QUICK = ['short', 'shorthalf', 'EINTR', 'ENOSPC']


def qp_text(n):
    out, size, i = [], 0, 0
    while size < n:
        l = (b'qp line %06d: caf\xe9 cr\xe8me = 1+1=2; this line goes on well beyond seventy-six characters so that the encoder '
             b'has to insert a soft line break\n' % i)
        out.append(l)
        size += len(l)
        i += 1
    return b''.join(out)


def head(i, extra=b''):
    return b'To: user%d@example.com\nX-Id: %d\nSubject: message %d\n' % (i, i, i) + extra


def mime(i, parts):
    m = head(i, b'Content-Type: multipart/mixed; boundary="b"\n') + b'\n'
    for p in parts:
        m += b'--b\n' + p
    return m + b'--b--\n'


class Case:
    def __init__(self, name, conf, msg, want=None, part=None, pats=(), stdin_mode=False, runs=1, whole=None):
        """want: ('body',) | ('part', index) -> expectation asked from the specification; whole: exact bytes (exec stdin of a part)"""
        self.name, self.conf, self.msg, self.want, self.pats, self.stdin_mode, self.runs, self.whole = name, conf, msg, want, list(pats), stdin_mode, runs, whole
        self.expected = whole
        self.plain = None

    def spec(self):
        tree = {}
        if self.stdin_mode:
            tree.update(proc.maildir_tree('dst', {}))
            return ws.Spec(self.name, self.conf, self.pats, tree=tree, stdin=self.msg, args=['-'], kind='stdin')
        tree.update(proc.maildir_tree('src', {('new', '1.host'): self.msg}))
        tree.update(proc.maildir_tree('dst', {}))
        return ws.Spec(self.name, self.conf, self.pats, tree=tree)


def cases(sizes, whole_part=True):
    """Scenario family: top-level body / attachment part / stdin mode x base64 / quoted-printable / identity x sizes."""
    C = []
    top = 'maildir "%s/src" {\n\tmatch all exec stdin body { %s "arg" }\n}\n' % (R, H)
    att = 'maildir "%s/src" {\n\tmatch all attachment { match header "Content-Type" /pdf/ exec stdin body { %s "part" } }\n}\n' % (R, H)
    attw = 'maildir "%s/src" {\n\tmatch all attachment { match header "Content-Type" /pdf/ exec stdin { %s "part" } }\n}\n' % (R, H)
    sin = 'stdin {\n\tmatch all exec stdin body { %s "arg" } move "%s/dst"\n}\n' % (H, R)
    for n in sizes:
        t = ws.text_body(n, b'b64')
        q = qp_text(n)
        c = Case('top-base64-%d' % n, top, head(2, b'Content-Transfer-Encoding: base64\n') + b'\n' + base64.encodebytes(t), want=('body',))
        c.plain = t
        C.append(c)
        c = Case('top-qp-%d' % n, top, head(3, b'Content-Transfer-Encoding: quoted-printable\n') + b'\n' + quopri.encodestring(q), want=('body',))
        c.plain = q
        C.append(c)
        t7 = ws.text_body(n, b'7bit')
        c = Case('top-identity-%d' % n, top, head(4) + b'\n' + t7, want=('body',))
        c.plain = t7
        C.append(c)
        p1 = b'Content-Type: text/plain\n\nhello part\n'
        pb = b'Content-Type: application/pdf\nContent-Transfer-Encoding: base64\n\n' + base64.encodebytes(t)
        c = Case('part-base64-%d' % n, att, mime(5, [p1, pb]), want=('part', 1), pats=[('pdf', '')])
        c.plain = t
        C.append(c)
        pq = b'Content-Type: application/pdf\nContent-Transfer-Encoding: quoted-printable\n\n' + quopri.encodestring(q)
        c = Case('part-qp-%d' % n, att, mime(6, [pq, p1]), want=('part', 0), pats=[('pdf', '')])
        c.plain = q
        C.append(c)
        c = Case('stdin-base64-%d' % n, sin, head(7, b'Content-Transfer-Encoding: base64\n') + b'\n' + base64.encodebytes(t), want=('body',), stdin_mode=True)
        c.plain = t
        C.append(c)
        if whole_part:
            pw = b'Content-Type: application/pdf\nX-Part: two\n\n' + ws.text_body(n, b'part')
            C.append(Case('part-whole-%d' % n, attw, mime(8, [p1, pw]), pats=[('pdf', '')], whole=pw))
    return C


def undecodable_cases():
    """A body / part whose transfer encoding cannot be decoded: there is no decoded body to hand to the command.  The property: the
    command is not run, the message is not acted upon (an error: exit status 1, 75 for a delivery on standard input, a diagnostic)."""
    top = 'maildir "%s/src" {\n\tmatch all exec stdin body { %s "arg" } move "%s/dst"\n}\n' % (R, H, R)
    att = 'maildir "%s/src" {\n\tmatch all attachment { match header "Content-Type" /pdf/ exec stdin body { %s "part" } } move "%s/dst"\n}\n' % (R, H, R)
    sin = 'stdin {\n\tmatch all exec stdin body { %s "arg" } move "%s/dst"\n}\n' % (H, R)
    C = []
    for tag, bad in (('junk', b'!!!!notbase64$$$\n'), ('short', b'QUJD\nQ\n'), ('pad', b'QUJ=RA==\n')):
        C.append(Case('undecodable-top-%s' % tag, top, head(2, b'Content-Transfer-Encoding: base64\n') + b'\n' + bad, want=('body',)))
        C.append(Case('undecodable-stdin-%s' % tag, sin, head(7, b'Content-Transfer-Encoding: base64\n') + b'\n' + bad, want=('body',), stdin_mode=True))
        p1 = b'Content-Type: text/plain\n\nhello part\n'
        pb = b'Content-Type: application/pdf\nContent-Transfer-Encoding: base64\n\n' + bad
        C.append(Case('undecodable-part-%s' % tag, att, mime(5, [p1, pb]), want=('part', 1), pats=[('pdf', '')]))
    return C


def undecodable_run(tools, case):
    scen = case.spec().build(tools)
    try:
        r = scen.run()
        probs = []
        if r.helper:
            probs.append('the command was run %d times although the body cannot be decoded (it read %d bytes)' % (len(r.helper), len(parse_helper(r.helper[0]))))
        want = 75 if case.stdin_mode else 1
        if r.status != want:
            probs.append('exit status %r, expected %d' % (r.status, want))
        if not r.err.strip():
            probs.append('no diagnostic')
        moved = [k for k, v in r.final.items() if k.startswith('dst/') and v[0] == 'file']
        if moved:
            probs.append('the message was delivered to %s although an action before the move failed' % moved[:2])
        if not case.stdin_mode and r.final.get('src/new/1.host') != scen.initial.get('src/new/1.host'):
            probs.append('the message is no longer as it was in src/new')
        return {'scenario': case.name, 'status': r.status, 'stderr': r.err[-200:].decode('latin-1').replace(scen.root, R), 'problems': probs}
    finally:
        scen.cleanup()


def expectations(cs):
    """Fill Case.expected from the specification side of the Lean driver. Returns problems (cases without an expectation)."""
    lines, idx = [], []
    for c in cs:
        if c.want is None:
            continue
        lines.append('S %s %s' % ('body' if c.want[0] == 'body' else 'parts', vlib.hexs(c.msg)))
        idx.append(c)
    outs = vlib.run_batch([vlib.driver_path()], lines)
    probs = []
    for c, o in zip(idx, outs):
        dec = None
        if c.want[0] == 'body':
            if o.startswith('B'):
                dec = vlib.unhex(o[1:] or '-')
        elif o.startswith('P'):
            toks = o.split(' ')[1:]
            if c.want[1] < len(toks):
                d = toks[c.want[1]].split('|')[-1]
                if d.startswith('B'):
                    dec = vlib.unhex(d[1:] or '-')
        if dec is None:
            probs.append('%s: the specification gives no decoded body (%s)' % (c.name, o[:60]))
        c.expected = dec
    return probs


def plans(clean, tier, expected_len):
    """[(label, fail, fsize)] for one scenario from the calls of its fault-free run."""
    calls = clean.calls()
    names = [c['name'] for c in calls]
    out = []
    if 'mkostemp' not in names and 'mkstemp' not in names:
        return out
    first = min(i for i, n in enumerate(names) if n in ('mkostemp', 'mkstemp'))
    last = max([i for i, n in enumerate(names) if n == 'fork'] or [len(names) - 1])
    for k in range(first, last + 1):
        n = names[k]
        if n == 'write':
            for e in (WRITE_QUICK if tier == 'quick' else WRITE_SPECS):
                out.append(('%d:%s' % (k, e), '%d:%s' % (k, e), None))
            # a loop that copes with one short count only
            out.append(('%d:short,%d:short' % (k, k + 1), '%d:short,%d:short' % (k, k + 1), None))
            out.append(('%d:shorthalf,%d:short' % (k, k + 1), '%d:shorthalf,%d:short' % (k, k + 1), None))
            if tier != 'quick':
                out.append(('%d:short,%d:EINTR' % (k, k + 1), '%d:short,%d:EINTR' % (k, k + 1), None))
                out.append(('%d:shorthalf,%d:ENOSPC' % (k, k + 1), '%d:shorthalf,%d:ENOSPC' % (k, k + 1), None))
        else:
            for e in ws.errnos(n, tier):
                out.append(('%d:%s' % (k, e), '%d:%s' % (k, e), None))
    L = expected_len
    lims = [0, 1, L // 2, L - 1, L] if tier == 'quick' else [0, 1, 2, 511, 512, 4095, 4096, 4097, L // 3, L // 2, L - 4096, L - 2, L - 1, L, L + 1]
    for lim in sorted(set(l for l in lims if 0 <= l <= L + 1)):
        out.append(('fsize=%d' % lim, None, lim))
    return out


def parse_helper(line):
    d = {}
    for tok in line.split(' '):
        if '=' in tok:
            k, v = tok.split('=', 1)
            d[k] = v
    return b'' if d.get('stdin', '-') == '-' else bytes.fromhex(d['stdin'])


def judge(case, r):
    """Problems of one run under the property."""
    probs = []
    got = [parse_helper(l) for l in r.helper]
    want = case.expected
    for g in got:
        if g != want:
            n = 0
            while n < min(len(g), len(want)) and g[n] == want[n]:
                n += 1
            probs.append('the command read %d bytes on standard input, the %s has %d bytes (first difference at offset %d): a command that '
                         'runs must read the complete content' % (len(g), 'decoded body' if case.want else 'part', len(want), n))
    if r.status not in (0, 1, 75):
        probs.append('abnormal exit status %r: %s' % (r.status, r.err[-200:].decode('latin-1')))
    if not got and r.status == 0:
        probs.append('the command was not run and mdsort exited 0')
    if not got and r.status != 0 and not r.err.strip():
        probs.append('the command was not run and mdsort printed no diagnostic (exit status %r)' % (r.status,))
    if r.status == 0 and len(got) != case.runs:
        probs.append('exit status 0 but the command ran %d times, expected %d' % (len(got), case.runs))
    if len(got) > case.runs:
        probs.append('the command ran %d times, expected at most %d' % (len(got), case.runs))
    return probs


def sweep(tools, case, tier):
    out = []
    spec = case.spec()
    scen = spec.build(tools)
    try:
        clean = scen.run()
        p0 = judge(case, clean)
        if clean.status != 0 or p0:
            out.append({'scenario': case.name, 'plan': None, 'status': clean.status, 'problems': p0 or ['fault-free run exits %r: %s' % (clean.status, clean.err[-200:].decode('latin-1'))],
                        'fired': False, 'ran': len(clean.helper)})
            return out
        out.append({'scenario': case.name, 'plan': None, 'status': 0, 'problems': [], 'fired': False, 'ran': len(clean.helper)})
        for label, fail, fsize in plans(clean, tier, len(case.expected)):
            scen.reset()
            r = scen.run(fail=fail, fsize=fsize)
            fired = any(t.get('fault') for t in r.trace if t['kind'] == 'call') or (fsize is not None and fsize < len(case.expected))
            out.append({'scenario': case.name, 'plan': label, 'status': r.status, 'problems': judge(case, r), 'fired': fired, 'ran': len(r.helper),
                        'stderr': r.err[-200:].decode('latin-1')})
        return out
    finally:
        scen.cleanup()


def stage(rep, tools, whole_part=True):
    """Run the stage, report findings, return a coverage dict."""
    sizes = [3000] if rep.tier == 'quick' else [700, 3000, 9000, 70000]
    cs = cases(sizes, whole_part)
    for p in expectations(cs):
        rep.violation({'obligation': 'exec stdin body under write faults: scenario corpus: ' + p}, False)
    cs = [c for c in cs if c.expected is not None]
    notes = [c.name for c in cs if c.plain is not None and c.plain != c.expected]
    results = []
    with cf.ThreadPoolExecutor(min(vlib.NCPU, len(cs))) as ex:
        for res in ex.map(lambda c: sweep(tools, c, rep.tier), cs):
            results.extend(res)
    # bodies that cannot be decoded: the specification must say so too, and then nothing may be run
    ucs = undecodable_cases()
    uprobs = expectations(ucs)
    ures = []
    for c in ucs:
        if c.expected is not None:
            continue                      # the specification decodes it: not a case of this family
        res = undecodable_run(tools, c)
        ures.append(res)
        if res['problems']:
            rep.finding('unlisted', {'stage': 'execbody-undecodable', 'scenario': c.name, 'config': c.conf, 'message': c.msg[:600].decode('latin-1'),
                                     'exit_status': res['status'], 'stderr': res['stderr'], 'what': res['problems'][:4]})
    by_name = {c.name: c for c in cs}
    nbad = 0
    for r in results:
        if not r['problems']:
            continue
        c = by_name[r['scenario']]
        if r['plan'] is None:
            rep.violation({'obligation': 'exec stdin body under write faults: the fault-free run of a scenario is not as the property says',
                           'scenario': r['scenario'], 'config': c.conf, 'what': r['problems']}, False)
            continue
        nbad += 1
        if nbad <= 6:
            rep.finding('unlisted', {'stage': 'execbody', 'scenario': r['scenario'], 'config': c.conf, 'message': c.msg[:600].decode('latin-1'),
                                     'message_bytes': len(c.msg), 'expected_stdin_bytes': len(c.expected), 'fault_plan': r['plan'],
                                     'exit_status': r['status'], 'stderr': r.get('stderr', ''), 'what': r['problems'][:4],
                                     'replay_cmd': 'python3 tools/check.py %s --replay <this file>' % rep.prop})
    faults = [r for r in results if r['plan'] is not None]
    return {
        'scenarios': len(cs), 'fault_runs': len(faults), 'faults_fired': sum(1 for r in faults if r['fired']),
        'runs_where_the_command_ran': sum(1 for r in faults if r['ran']), 'runs_where_it_did_not': sum(1 for r in faults if not r['ran']),
        'failing_runs': nbad, 'spec_decoding_differs_from_python_codec': notes,
        'undecodable_bodies': {'cases': len(ucs), 'undecodable_for_the_specification': len(ures), 'failing': len([u for u in ures if u['problems']]),
                               'rule': 'exec stdin body on a base64 body / part / standard-input delivery that Spec.decodedBody cannot decode: the command '
                                       'is not run, exit status 1 (75 with -), a diagnostic, the following move is not carried out'},
        'rule': 'exec stdin body (top-level base64 / quoted-printable / identity body, base64 / quoted-printable part inside an attachment '
                'block, stdin mode)%s with contents of %s bytes on the real binary; every call between the creation of the temporary file and '
                'the fork is disturbed (write: short, shorthalf, two short counts in a row, EINTR, ENOSPC, ...; other calls: errno row; kernel '
                'file size limit at boundaries of the content size); compared: the bytes the command read on standard input (exec helper '
                'record) with the body decoded by Spec.decodedBody (driver S body / S parts), "not run" only with a diagnostic and a non-zero '
                'exit status, exit 0 only with the expected number of complete runs' % (' and exec stdin of a whole part' if whole_part else '', sizes),
        'samples': faults[:3],
    }


def replay(tools, j):
    """Re-run one recorded failing run and print what happened."""
    cs = cases([700, 3000, 9000, 70000])
    expectations(cs)
    c = [c for c in cs if c.name == j.get('scenario')]
    if not c:
        print('unknown scenario', j.get('scenario'))
        return
    c = c[0]
    scen = c.spec().build(tools)
    plan = j.get('fault_plan') or ''
    fsize = int(plan[6:]) if plan.startswith('fsize=') else None
    r = scen.run(fail=None if fsize is not None else plan or None, fsize=fsize)
    print('scenario', c.name, 'plan', plan)
    print('exit status', r.status)
    print(r.err.decode('latin-1'))
    for t in r.trace:
        print(t.get('raw', '').replace(scen.root, '@R@'))
    for l in r.helper:
        g = parse_helper(l)
        print('command read %d bytes on stdin; expected %d; equal: %s' % (len(g), len(c.expected), g == c.expected))
    for p in judge(c, r):
        print('PROBLEM', p)
    scen.cleanup()
