#!/usr/bin/env python3
"""Measure which parts of the mirrored C code the correspondence runs execute.

  cov.py [--tier quick|thorough] [Cxx ...]     default: all eighteen checks, quick tier

Every check is run once with VERIF_COV_OUT set: vlib.Scratch then builds the unit harnesses and the
mdsort binary with `--coverage` instead of the sanitizer / plain flavours, and when the check ends it
runs gcov over what was executed (real functions called in-process by the harnesses, and the real
binary under the shim).  This tool merges the per-run reports and writes

  coverage/functions.json   per function of /repo: lines, lines hit, branches, branches taken,
                            unexecuted lines, untaken branches - merged over the checks run
  coverage/REPORT.md        the same as a table, mirrored functions first (the list of DESIGN
                            Appendix D), least covered first

A measurement aid for the generators (a branch of a mirrored function that no generator reaches is a
place where model and code are not tied); it decides nothing and is not a registered check.  Evidence
files are not touched (VERIF_EVID is redirected).
"""
import argparse
import glob
import json
import os
import shutil
import subprocess
import sys
import tempfile

ROOT = os.path.dirname(os.path.dirname(os.path.abspath(__file__)))

# functions transcribed in lean/Mdsort/Model (DESIGN Appendix D); file:function
MIRRORED = {
    'decode.c': None, 'libks/buffer.c': None, 'libks/vector.c': None,
    'message.c': None, 'maildir.c': None, 'match.c': None, 'expr.c': None, 'time.c': None, 'util.c': None,
    'macro.c': None, 'mdsort.c': None, 'parse.y': None, 'parse.c': None, 'compat-strlcpy.c': None,
}


def merge(dirs):
    tot = {}
    for d in dirs:
        for f in glob.glob(os.path.join(d, 'cov-*.json')):
            for k, v in json.load(open(f)).items():
                t = tot.get(k)
                if t is None:
                    tot[k] = {'lines': v['lines'], 'branches': v['branches'],
                              'un_l': set(v['unexecuted_lines']), 'un_b': set(v['untaken_branches']),
                              'all_b_unknown': set()}
                else:
                    t['un_l'] &= set(v['unexecuted_lines'])
                    # a branch on a line that one run never executed is unknown there, not untaken
                    t['un_b'] = {b for b in t['un_b'] if b in v['untaken_branches'] or int(b.split('#')[0]) in v['unexecuted_lines']} | \
                                {b for b in v['untaken_branches'] if int(b.split('#')[0]) in t['un_l']}
                    t['lines'] = max(t['lines'], v['lines'])
                    t['branches'] = max(t['branches'], v['branches'])
    out = {}
    for k, t in tot.items():
        nb_un = len(t['un_b'])
        out[k] = {'lines': t['lines'], 'lines_hit': t['lines'] - len(t['un_l']),
                  'branches': t['branches'], 'unexecuted_lines': sorted(t['un_l']),
                  'untaken_branches_on_executed_lines': sorted(t['un_b'])}
        out[k]['untaken'] = nb_un
    return out


def main():
    ap = argparse.ArgumentParser()
    ap.add_argument('--tier', default='quick')
    ap.add_argument('--keep', action='store_true')
    ap.add_argument('props', nargs='*')
    a = ap.parse_args()
    props = a.props or ['C%02d' % i for i in range(1, 19)]
    base = tempfile.mkdtemp(prefix='mdsort-cov.', dir='/var/tmp')
    rcs = {}
    try:
        for p in props:
            env = dict(os.environ, VERIF_COV_OUT=os.path.join(base, p), VERIF_EVID=os.path.join(base, 'ev-' + p))
            r = subprocess.run([sys.executable, os.path.join(ROOT, 'tools', 'check.py'), p, '--tier', a.tier],
                               env=env, capture_output=True, text=True)
            rcs[p] = r.returncode
            sys.stderr.write('%s rc=%d %s\n' % (p, r.returncode, ' | '.join(l for l in r.stdout.split('\n') if 'VIOLATION' in l)[:300]))
        tot = merge([os.path.join(base, p) for p in props])
        outd = os.path.join(ROOT, 'coverage')
        os.makedirs(outd, exist_ok=True)
        with open(os.path.join(outd, 'functions.json'), 'w') as fh:
            json.dump({'tier': a.tier, 'checks': props, 'functions': tot}, fh, indent=1, sort_keys=True)
        rows = []
        for k, v in tot.items():
            fn = k.split(':')[0]
            if fn not in MIRRORED or fn == 'parse.c':
                continue
            rows.append((v['lines_hit'] / max(1, v['lines']), k, v))
        rows.sort()
        with open(os.path.join(outd, 'REPORT.md'), 'w') as fh:
            fh.write('# Coverage of the repository functions by the correspondence runs (%s tier; checks: %s)\n\n' % (a.tier, ' '.join(props)))
            fh.write('Built with `--coverage` (no sanitizers), so sanitizer-only stages are not represented; the fuzz stage of C07 is not either.\n\n')
            tl = sum(v['lines'] for _, _, v in rows)
            th = sum(v['lines_hit'] for _, _, v in rows)
            fh.write('Total over %d functions: %d of %d lines executed (%.1f%%).\n\n' % (len(rows), th, tl, 100.0 * th / max(1, tl)))
            fh.write('| function | lines hit / lines | unexecuted lines | untaken branches on executed lines |\n|---|---|---|---|\n')
            for frac, k, v in rows:
                fh.write('| %s | %d / %d | %s | %s |\n' % (k, v['lines_hit'], v['lines'],
                                                           ' '.join(map(str, v['unexecuted_lines'][:40])),
                                                           ' '.join(v['untaken_branches_on_executed_lines'][:30])))
        print('wrote coverage/REPORT.md (%d functions)' % len(rows))
    finally:
        if not a.keep:
            shutil.rmtree(base, ignore_errors=True)
    return 0


if __name__ == '__main__':
    sys.exit(main())
