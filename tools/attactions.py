"""Actions inside `attachment { ... }` blocks, at process level (shared stage of C08 and C02).

mdsort.conf(5): inside an attachment block "the only available action in rule is exec".  A rule of an attachment block is evaluated
with ONE PART of the message in the place of the message, so any action that touches "the message" there would touch the part: a
rewriting action (label, add-header) would write the part over the whole message, move / flag / flags / discard would act on the
whole message once per matching part.  The grammar therefore has to refuse them (`expr_validate_attachment_block`); this stage does
not look at the parser, it looks at what happens to the messages:

for every action kind of the grammar (move, flag, flags, label, add-header, discard, reject, pass, break, exec, exec stdin, exec stdin
body, a nested attachment block), in four positions inside `attachment { ... }` (alone in a rule; after an exec of the same rule; in
a `match ... { }` block nested in the attachment block; in an attachment block that is followed by a `move` of the message), in
maildir mode and - reject, label, add-header - in stdin mode, the real binary runs over multipart messages (two parts with preamble and
epilogue, one part, not multipart) and

  * EITHER the configuration is rejected as a whole (`-n` and the run exit non-zero, a `file:line:` diagnostic, every file, name and
    timestamp as before, no command run, nothing left in TMPDIR),
  * OR it is accepted, and then the outcome has to satisfy the property's oracle:
      C08 - every message file present afterwards is byte for byte an original message or a rewrite that `Spec.rewriteOk` accepts for
            the header the action sets (all original headers, the byte-identical body of the WHOLE message; driver `S hsetcheck`, the
            predicate of tools/rewriteproc.py), and no message is gone;
      C02 / C01 - of every original message an intact complete copy (the original bytes, or such a rewrite) exists afterwards - also
            when the process is killed before any call of the run (kill sweep over the accepted configurations).

On the unchanged tree everything except the exec variants is rejected and the exec variants leave the messages alone.
"""
import concurrent.futures as cf
import re
import vlib
import proc
import worldscen as ws

R = '@R@'
H = ws.HELPER
XL, XA = b'X-Label', b'X-Added'

MP2 = (b'To: user1@example.com\nX-Id: 1\nSubject: two parts\nReceived: by a; Mon, 21 Sep 2026 10:00:00 +0000\n'
       b'Received: by b; Mon, 21 Sep 2026 10:00:01 +0000\nContent-Type: multipart/mixed; boundary="b"\n\n'
       b'preamble of message 1\n--b\nContent-Type: text/plain\nX-Part: m1p1\n\nfirst part of message 1\n'
       b'--b\nContent-Type: application/pdf\nContent-Transfer-Encoding: base64\nX-Part: m1p2\n\naGVsbG8K\n--b--\nepilogue of message 1\n')
MP1 = (b'To: user2@example.com\nX-Id: 2\nSubject: one part\nX-Label: old\nContent-Type: multipart/mixed; boundary="q"\n\n'
       b'--q\nContent-Type: text/plain\nX-Part: m2p1\n\nthe only part of message 2\n--q--\n')
PLAIN = b'To: user3@example.com\nX-Id: 3\nSubject: no parts\n\nbody of message 3\n'
POPULATION = {('new', '1.host'): MP2, ('cur', '2.host:2,S'): MP1, ('new', '3.host'): PLAIN}
STDIN_MSG = MP2.replace(b'X-Id: 1', b'X-Id: 7')

# kind -> (action text, header settings of the action for Spec.rewriteOk, per original: function of the original's X-Label)
ACTIONS = {
    'move': 'move "%s/dst"' % R,
    'flag': 'flag !new',
    'flag-new': 'flag new',
    'flags': 'flags "F"',
    'label': 'label "lbl"',
    'add-header': 'add-header "X-Added" "v1"',
    'discard': 'discard',
    'reject': 'reject',
    'pass': 'pass',
    'break': 'break',
    'exec': 'exec { "%s" "plain" }' % H,
    'exec-stdin': 'exec stdin { "%s" "stdin" }' % H,
    'exec-stdin-body': 'exec stdin body { "%s" "body" }' % H,
    'attachment-block': 'attachment { match all exec stdin { "%s" "inner" } }' % H,
}
PRE = 'exec { "%s" "pre" }' % H
POSITIONS = {
    'alone': 'match all attachment {\n\t\tmatch all %(a)s\n\t}',
    'after-exec': 'match all attachment {\n\t\tmatch all %(pre)s %(a)s\n\t}',
    'nested-block': 'match all attachment {\n\t\tmatch header "Content-Type" /./ {\n\t\t\tmatch all %(a)s\n\t\t}\n\t}',
    'then-move': 'match all attachment {\n\t\tmatch all %(a)s\n\t} move "%(R)s/dst"',
}


def settings(kind, orig):
    """The header settings a (hypothetical) execution of the action on the WHOLE message amounts to."""
    if kind == 'label':
        old = re.search(rb'^X-Label: (.*)$', orig, re.M)
        return [(XL, (old.group(1) + b' lbl') if old else b'lbl')]
    if kind == 'add-header':
        return [(XA, b'v1')]
    return []


class Case:
    def __init__(self, kind, pos, mode):
        self.kind, self.pos, self.mode = kind, pos, mode
        self.name = '%s/%s/%s' % (kind, pos, mode)
        rule = POSITIONS[pos] % {'a': ACTIONS[kind], 'pre': PRE, 'R': R}
        if mode == 'stdin':
            self.conf = 'stdin {\n\t%s\n}\n' % rule
        else:
            self.conf = 'maildir "%s/src" {\n\t%s\n}\n' % (R, rule)

    def spec(self):
        tree = {}
        tree.update(proc.maildir_tree('dst', {}))
        if self.mode == 'stdin':
            return ws.Spec(self.name, self.conf, [], tree=tree, stdin=STDIN_MSG, args=['-'], kind='stdin')
        tree.update(proc.maildir_tree('src', POPULATION))
        return ws.Spec(self.name, self.conf, [], tree=tree)

    def originals(self):
        return {7: STDIN_MSG} if self.mode == 'stdin' else {ws.msg_id(v): v for v in POPULATION.values()}


def cases():
    out = []
    for kind in ACTIONS:
        for pos in POSITIONS:
            out.append(Case(kind, pos, 'maildir'))
    # a delivery: the message has to end up somewhere, so only the position with a move of the message
    for kind in ('reject', 'label', 'add-header', 'exec-stdin', 'pass'):
        out.append(Case(kind, 'then-move', 'stdin'))
    return out


def files_of(r):
    return sorted((rel, data) for rel, data in ws.maildir_files(r.final).items() if not rel.startswith('tmp/'))


def run_case(tools, case, kills):
    scen = case.spec().build(tools)
    try:
        base_args = list(scen.args)
        scen.args = base_args + ['-n']
        n = scen.run(trace=False, timeout=20)
        scen.reset()
        scen.args = base_args
        r = scen.run(timeout=20)
        diag = re.search(rb'(^|\n)[^\n]*conf:\d+: [^\n]*', n.err + b'\n' + r.err)
        rec = {'case': case, 'n_status': n.status, 'status': r.status, 'stderr': r.err[-400:].decode('latin-1').replace(scen.root, R),
               'n_stderr': n.err[-300:].decode('latin-1').replace(scen.root, R), 'diag': bool(diag), 'run_diag': bool(re.search(rb'conf:\d+: ', r.err)),
               'untouched': r.final == scen.initial and n.final == scen.initial, 'helper': len(r.helper), 'files': files_of(r),
               'tmp_left': ws.tmp_entries(r.final), 'config': scen.config.replace(scen.root, R).replace(tools.helper, H), 'kills': []}
        changed = sorted(rel for rel in set(scen.initial) | set(r.final) if scen.initial.get(rel) != r.final.get(rel))
        rec['changed'] = changed[:8]
        if kills and n.status == 0 and case.mode == 'maildir':
            for k in range(len(r.calls())):
                scen.reset()
                kr = scen.run(kill=k, timeout=20)
                rec['kills'].append((k, kr.status, files_of(kr)))
        return rec
    finally:
        scen.cleanup()


def classify(recs):
    """{(case name, file bytes): set of (message id, 'original' | 'rewrite')} through Spec.rewriteOk (driver `S hsetcheck`)."""
    cls, lines, keys = {}, [], []
    for rec in recs:
        case = rec['case']
        origs = case.originals()
        for fs in [rec['files']] + [f for _, _, f in rec['kills']]:
            for rel, data in fs:
                key = (case.name, data)
                if key in cls:
                    continue
                cls[key] = set()
                for i, o in origs.items():
                    if data == o:
                        cls[key].add((i, 'original'))
                        continue
                    for kvs in ([settings(case.kind, o)] if settings(case.kind, o) else []) + [[]]:
                        args = [data, o, XL]
                        for k, v in kvs:
                            args += [k, v]
                        lines.append('S hsetcheck ' + ' '.join(vlib.hexs(a) for a in args))
                        keys.append((key, i))
    outs = vlib.run_batch([vlib.driver_path()], lines)
    for (key, i), o in zip(keys, outs):
        if o == 'OK':
            cls[key].add((i, 'rewrite'))
    return cls, len(lines)


def judge(rec, cls, view):
    """-> (verdict 'rejected' | 'accepted', problems)"""
    case = rec['case']
    probs = []
    if rec['n_status'] != 0:
        # rejected as a whole
        if rec['status'] == 0:
            probs.append('`mdsort -n` rejects the configuration (exit %r) but the run exits 0' % (rec['n_status'],))
        if not rec['diag']:
            probs.append('rejected without a file:line: diagnostic: %r' % rec['n_stderr'])
        if not rec['untouched']:
            probs.append('the configuration is rejected but the run changed %s' % rec['changed'])
        if rec['helper']:
            probs.append('the configuration is rejected but %d command(s) ran' % rec['helper'])
        if rec['tmp_left']:
            probs.append('the configuration is rejected but TMPDIR holds %s' % rec['tmp_left'])
        return 'rejected', probs
    # accepted: the property's oracle
    if rec['run_diag']:
        probs.append('`mdsort -n` accepts the configuration but the run prints a configuration diagnostic: %r' % rec['stderr'])
    origs = case.originals()

    def account(files, when):
        have = {}
        for rel, data in files:
            c = cls[(case.name, data)]
            if not c:
                if view == 'C08':
                    probs.append('%s%s (%d bytes) is neither an original message nor a rewrite that keeps every original header and the '
                                 'byte-identical body of the whole message (Spec.rewriteOk rejects it for every message of the maildir): %r'
                                 % (when, rel, len(data), data[:160]))
                continue
            for i, what in c:
                have.setdefault(i, []).append(rel)
        for i in origs:
            if i not in have and not (case.kind == 'discard') and not (case.mode == 'stdin' and rec['status'] != 0):
                probs.append('%sno intact copy of message %d remains (neither its original bytes nor a complete rewrite of it)' % (when, i))

    account(rec['files'], '')
    if view == 'C02':
        for k, st, fs in rec['kills']:
            n0 = len(probs)
            account(fs, 'killed before call %d: ' % k)
            if len(probs) > n0 + 3:
                del probs[n0 + 3:]
    return 'accepted', probs


def stage(rep, tools, view, kills=False):
    cs = cases()
    with cf.ThreadPoolExecutor(min(vlib.NCPU, 8)) as ex:
        recs = list(ex.map(lambda c: run_case(tools, c, kills), cs))
    cls, nq = classify(recs)
    stats = {'configurations': len(recs), 'rejected': 0, 'accepted': [], 'failing': 0, 'kill_runs': sum(len(r['kills']) for r in recs),
             'files_judged_by_Spec_rewriteOk': nq}
    nrep = 0
    for rec in recs:
        verdict, probs = judge(rec, cls, view)
        if verdict == 'rejected':
            stats['rejected'] += 1
        else:
            stats['accepted'].append(rec['case'].name)
        if probs:
            stats['failing'] += 1
            if nrep < 4:
                nrep += 1
                c = rec['case']
                rep.finding('unlisted', {'stage': 'attachment-actions', 'view': view, 'action': c.kind, 'position': c.pos, 'mode': c.mode,
                                         'config': rec['config'], 'verdict_of_mdsort_n': 'rejected' if rec['n_status'] else 'accepted',
                                         'exit_status': rec['status'], 'stderr': rec['stderr'], 'what': probs[:6],
                                         'files_afterwards': [(rel, len(d), d[:200].decode('latin-1')) for rel, d in rec['files']],
                                         'messages': {'src/%s/%s' % k: v.decode('latin-1') for k, v in POPULATION.items()} if c.mode == 'maildir'
                                         else {'stdin': STDIN_MSG.decode('latin-1')},
                                         'replay_cmd': 'python3 tools/check.py %s --replay <this file>' % view})
    stats['rule'] = ('%d action kinds x %d positions inside attachment { } (maildir mode; reject / label / add-header / exec stdin also as a stdin '
                     'delivery), real binary over a two-part message with preamble and epilogue, a one-part message and a message without parts: '
                     'rejected as a whole (-n and run non-zero, file:line: diagnostic, tree and timestamps unchanged, no command, TMPDIR empty) OR '
                     'accepted and then %s' % (len(ACTIONS), len(POSITIONS),
                                               'every file afterwards is an original or accepted by Spec.rewriteOk (all original headers, byte-identical '
                                               'body of the whole message), no message gone' if view == 'C08' else
                                               'an intact complete copy of every message (original bytes or a rewrite accepted by Spec.rewriteOk) exists '
                                               'after the run and after a kill before every call of the run'))
    return stats


def replay(tools, j):
    cs = [c for c in cases() if (c.kind, c.pos, c.mode) == (j.get('action'), j.get('position'), j.get('mode'))]
    if not cs:
        print('unknown case', j.get('action'), j.get('position'), j.get('mode'))
        return
    rec = run_case(tools, cs[0], j.get('view') == 'C02')
    cls, _ = classify([rec])
    verdict, probs = judge(rec, cls, j.get('view', 'C08'))
    print('config:\n%s' % rec['config'])
    print('mdsort -n: exit %r %s' % (rec['n_status'], rec['n_stderr']))
    print('run: exit %r %s' % (rec['status'], rec['stderr']))
    for rel, d in rec['files']:
        print('file %s (%d bytes): %r' % (rel, len(d), d[:300]))
    print('verdict', verdict)
    for p in probs:
        print('PROBLEM', p)
