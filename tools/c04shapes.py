"""C04, rule-shape family: an evaluation error must reach the exit status from EVERY position of the rule tree.

The populations of tools/props/c04.py put a defective message under one flat rule.  Here the condition that cannot be evaluated
(undecodable base64 body under `body`, unparsable Date under `date`, a multipart message that is nested too deep / has no closing
delimiter / an invalid boundary parameter / one undecodable part under `attachment ...`) stands

  (a) in a rule after a matching `pass` rule of the same block,
  (b) in a nested block entered after a pass of the enclosing block (also two levels down, also after a pass of the nested block itself),
  (c) after a nested block that was left by `break` (with and without a pass pending),
  (d) as the second operand of `and` / `or`, under `!`, inside a compound condition,
  (e) as an `attachment` condition after a pass, next to / inside an `attachment { ... }` action block of a passing rule, as an
      attachment block whose parts cannot all be evaluated,

and in randomly generated trees of the same grammar (1-3 rules per block, nesting up to 2, pass / break, attachment blocks); every
shape also as a delivery on standard input (`stdin { ... }`, mdsort -: documented error => exit status 75, nothing delivered).  Every
maildir mixes healthy and defective messages; whether a message is defective under a configuration is not decided by the generator
but by the DOCUMENTED rule semantics: `Spec.evalBlockA` of Spec/RulesAtt.lean, evaluated by the Lean driver (`S evalatt`) on the tree
the real parser built - the instance the theorems C03_eval_refines_spec_att and C04_eval_error_propagates are about.

Oracle (property C04 + documented semantics), per message of the real run of the real binary:
  * documented result ERROR  => exit status non-zero; the message is byte for byte where it was; no command ran for it or a part of it;
  * documented result NOMATCH => untouched, no command;
  * documented result MATCH  => the commands of the documented plan ran, in order, each on the documented part; final maildir = the last
    `move` of the plan (else where it was); X-Label = the labels of the plan; everything else of the content unchanged;
  * exit status 0 iff no message's documented result is ERROR (all actions used here can be carried out).
Evaluations on which the documented run records one of the two known deviation classes of the evaluator - `crosses` (F11: a nested or
attachment block evaluated while a pass of an enclosing block is pending) and `leaks` (F24) - are classified as tools/props/c03.py does:
the documented verdict is not used for that message (counted, not judged; the run is still followed call by call through Model.mainP).
The shapes (a)-(e) are chosen so that the defective messages are outside both classes, with one exception kept on purpose and counted
separately: an attachment block that follows a pass crosses by definition.
"""
import base64
import concurrent.futures as cf
import random
import re
import vlib
import proc
import world
import worldscen as ws

R = '@R@'
H = ws.HELPER
NOW = int(proc.PIN['VSHIM_TIME'])
NBITS = 3


# ------------------------------------------------------------------------------------------------------------------
# messages: structure x Date header x bits
# ------------------------------------------------------------------------------------------------------------------

def deep_mime(depth):
    inner = b'Content-Type: text/plain\n\ndeep text hello\n'
    for d in range(depth):
        b = b'b%d' % d
        inner = b'Content-Type: multipart/mixed; boundary="' + b + b'"\n\n--' + b + b'\n' + inner + b'--' + b + b'--\n'
    return inner


def part(i, k, kind):
    tag = b'X-Part: m%dp%d\n' % (i, k)
    if kind == 'hit':
        return b'Content-Type: text/plain\n' + tag + b'\nhello from part %d\n' % k
    if kind == 'hit64':
        return b'Content-Type: text/plain\nContent-Transfer-Encoding: base64\n' + tag + b'\n' + base64.b64encode(b'hello encoded %d\n' % k) + b'\n'
    if kind == 'miss':
        return b'Content-Type: text/html\n' + tag + b'\n<p>nothing to see</p>\n'
    if kind == 'b64':
        return b'Content-Type: application/octet-stream\nContent-Transfer-Encoding: base64\n' + tag + b'\n!!!! this is not base64 !!!!\n'
    if kind == 'deep':
        return tag + deep_mime(6)
    raise ValueError(kind)


def multipart(i, layout, subtype=b'mixed', close=True, ctype=None):
    parts = [part(i, k + 1, p) for k, p in enumerate(layout)]
    ct = ctype if ctype is not None else b'multipart/' + subtype + b'; boundary="q"'
    return b'Content-Type: ' + ct + b'\n\n' + b''.join(b'--q\n' + p for p in parts) + (b'--q--\n' if close else b'')


# structure name -> (function i -> bytes after the common headers (more headers, empty line, body))
def structure(name, i):
    if name == 'plain-hello':
        return b'\nhello, this is message %d\n' % i
    if name == 'plain-other':
        return b'\nnothing of interest in message %d\n' % i
    if name == 'b64-hello':
        return b'Content-Transfer-Encoding: base64\n\n' + base64.b64encode(b'hello encoded body %d\n' % i) + b'\n'
    if name == 'b64-bad':
        return b'Content-Transfer-Encoding: base64\n\n%%%% not base64 at all %%%%\n'
    if name == 'alt-noterm':
        return multipart(i, ('hit', 'miss'), subtype=b'alternative', close=False)
    if name == 'mp-noterm':
        return multipart(i, ('hit', 'miss'), close=False)
    if name == 'mp-badbnd':
        return multipart(i, ('hit',), ctype=b'multipart/mixed; boundary="q')
    if name == 'mp-deep':
        return deep_mime(7)
    if name.startswith('mp:'):
        return multipart(i, tuple(name[3:].split(',')))
    raise ValueError(name)


DATES = {'none': b'', 'good': b'Date: Mon, 21 Sep 2026 14:13:20 +0100\n', 'bad': b'Date: not a date at all\n'}


def message(i, struct, date, bits):
    return (b'To: u%d@x\nX-Id: %d\n' % (i, i) + b''.join(b'X-B%d: %d\n' % (k, b) for k, b in enumerate(bits)) + DATES[date] +
            structure(struct, i))


# the failing conditions; per condition: structures / dates that (may) make it an error, and ones that do not
FCONDS = {
    'body': {'text': lambda g: 'body ' + g.pat('hello'),
             'bad': [('b64-bad', None), ('alt-noterm', None)],
             'ok': [('plain-hello', None), ('plain-other', None), ('b64-hello', None), ('mp:hit,miss', None), ('plain-hello', 'bad')]},
    'date': {'text': lambda g: 'date > 1 seconds',
             'bad': [('plain-hello', 'bad'), ('mp:hit', 'bad'), ('b64-bad', 'bad')],
             'ok': [('plain-hello', 'good'), ('plain-other', 'none'), ('mp:miss,hit', 'good'), ('b64-bad', 'good'), ('mp-deep', 'none')]},
    'att': {'text': lambda g: 'attachment body ' + g.pat('hello'),
            'bad': [('mp:b64,hit', None), ('mp:miss,b64,hit', None), ('mp:b64,miss', None), ('mp-noterm', None), ('mp-badbnd', None), ('mp-deep', None),
                    ('mp:hit,deep', None), ('alt-noterm', None)],
            'ok': [('plain-hello', None), ('mp:hit', None), ('mp:miss,hit64', None), ('mp:miss', None), ('mp:hit,b64', None), ('b64-bad', None),
                   ('mp:miss,hit', 'bad')]},
}
# multipart structures for the shapes that contain an attachment block (whatever the failing condition is)
PARTS_BAD = [('mp:b64,hit', None), ('mp:hit,b64', None), ('mp:miss,b64,hit,miss', None), ('mp:hit,deep', None), ('mp-noterm', None)]
PARTS_OK = [('mp:hit', None), ('mp:miss,hit', None), ('mp:hit,miss,hit64', None), ('mp:miss', None), ('plain-hello', None)]


# ------------------------------------------------------------------------------------------------------------------
# rule trees -> configuration text
# ------------------------------------------------------------------------------------------------------------------
# condition: ('all',) ('never',) ('bit', i) ('F',) ('and', a, b) ('or', a, b) ('not', a) ('att', c) ('ctype', word) ('bodyhello',)
# rule:      ('acts', cond, [action...], ctl)   ctl: '' | 'pass' | 'break'        ('blk', cond, [rule...])
# action:    ('exec',) ('label',) ('move', 'dst' | 'dst2') ('attblk', [rule...])          tags are assigned when the text is written

class Text:
    """Writes a tree as configuration text: every action on a line of its own (so that (type, line) identifies it in the tree the
    parser builds), patterns recorded in textual order."""

    def __init__(self, fcond):
        self.fcond = fcond
        self.pats = []
        self.lines = []
        self.ntag = 0
        self.tags = []          # (kind, tag or destination) in textual order

    def pat(self, src):
        self.pats.append((src, ''))
        return '/%s/' % src

    def cond(self, c):
        k = c[0]
        if k == 'all':
            return 'all'
        if k == 'never':
            return 'header "X-None" ' + self.pat('x')
        if k == 'bit':
            return 'header "X-B%d" %s' % (c[1], self.pat('^1$'))
        if k == 'F':
            return '(' + FCONDS[self.fcond]['text'](self) + ')'
        if k == 'ctype':
            return 'header "Content-Type" ' + self.pat(c[1])
        if k == 'bodyhello':
            return 'body ' + self.pat('hello')
        if k == 'and':
            return '(%s and %s)' % (self.cond(c[1]), self.cond(c[2]))
        if k == 'or':
            return '(%s or %s)' % (self.cond(c[1]), self.cond(c[2]))
        if k == 'not':
            return '! %s' % self.cond(c[1])
        if k == 'att':
            return 'attachment %s' % self.cond(c[1])
        raise ValueError(c)

    def tag(self, kind):
        self.ntag += 1
        t = '%s%d' % (kind[0], self.ntag)
        return t

    def rules(self, rs, ind):
        pad = '\t' * ind
        for r in rs:
            if r[0] == 'blk':
                self.lines.append('%smatch %s {' % (pad, self.cond(r[1])))
                self.rules(r[2], ind + 1)
                self.lines.append('%s}' % pad)
                continue
            self.lines.append('%smatch %s' % (pad, self.cond(r[1])))
            for a in r[2]:
                if a[0] == 'exec':
                    t = self.tag('exec')
                    self.tags.append(('exec', t))
                    self.lines.append('%s\texec stdin { "%s" "%s" }' % (pad, H, t))
                elif a[0] == 'label':
                    t = self.tag('label')
                    self.tags.append(('label', t))
                    self.lines.append('%s\tlabel "%s"' % (pad, t))
                elif a[0] == 'move':
                    self.tags.append(('move', a[1]))
                    self.lines.append('%s\tmove "%s/%s"' % (pad, R, a[1]))
                elif a[0] == 'attblk':
                    self.lines.append('%s\tattachment {' % pad)
                    self.rules(a[1], ind + 2)
                    self.lines.append('%s\t}' % pad)
                else:
                    raise ValueError(a)
            if r[3]:
                self.lines.append('%s\t%s' % (pad, r[3]))

    def config(self, rs, stdin=False):
        self.lines.append('stdin {' if stdin else 'maildir "%s/src" {' % R)
        self.rules(rs, 1)
        self.lines.append('}')
        return '\n'.join(self.lines) + '\n'


def has_attblk(rs):
    for r in rs:
        if r[0] == 'blk':
            if has_attblk(r[2]):
                return True
        elif any(a[0] == 'attblk' for a in r[2]):
            return True
    return False


E, L = ('exec',), ('label',)
M1, M2 = ('move', 'dst'), ('move', 'dst2')
ALL, NEVER, F = ('all',), ('never',), ('F',)
B0, B1, B2 = ('bit', 0), ('bit', 1), ('bit', 2)
TAIL = [('acts', F, [E, M1], ''), ('acts', ALL, [M2], '')]      # the failing condition decides between two destinations
ATTB = ('attblk', [('acts', ('bodyhello',), [E], '')])
ATTB2 = ('attblk', [('blk', ('ctype', 'text'), [('acts', ('bodyhello',), [E], '')]), ('acts', ('ctype', 'html'), [E], '')])

SHAPES = {
    # reference: the failing condition in the first rule, nothing pending
    'flat': TAIL,
    # (a) after a matching pass rule of the same block
    'a-pass': [('acts', ALL, [E], 'pass')] + TAIL,
    'a-pass-label': [('acts', ALL, [L], 'pass'), ('acts', B0, [E], 'pass')] + TAIL,
    'a-pass-own': [('acts', ALL, [L], 'pass'), ('acts', F, [E], 'pass'), ('acts', ALL, [M1], '')],
    # (b) inside a nested block entered after a pass of the enclosing block
    'b-nested': [('acts', ALL, [E], 'pass'), ('blk', ALL, TAIL)],
    'b-nested2': [('acts', B0, [L], 'pass'), ('blk', ALL, [('blk', ALL, TAIL)])],
    'b-inner-pass': [('blk', ALL, [('acts', ALL, [E], 'pass')] + TAIL)],
    'b-cond-of-block': [('acts', ALL, [E], 'pass'), ('blk', F, [('acts', ALL, [M1], '')]), ('acts', ALL, [M2], '')],
    # (c) after a nested block that was left by break
    'c-break': [('blk', ALL, [('acts', B0, [E], 'break'), ('acts', ALL, [L], 'break')])] + TAIL,
    'c-pass-break': [('acts', ALL, [L], 'pass'), ('blk', ALL, [('acts', ALL, [E], 'break')])] + TAIL,
    'c-break-nested': [('blk', ALL, [('acts', ALL, [E], 'break')]), ('blk', ALL, [('acts', ALL, [L], 'pass')] + TAIL)],
    # (d) second operand of and / or, under !, inside a compound condition
    'd-and': [('acts', ALL, [E], 'pass'), ('acts', ('and', ALL, F), [E, M1], ''), ('acts', ALL, [M2], '')],
    'd-or': [('acts', ALL, [E], 'pass'), ('acts', ('or', NEVER, F), [E, M1], ''), ('acts', ALL, [M2], '')],
    'd-not': [('acts', ALL, [L], 'pass'), ('acts', ('not', F), [E, M1], ''), ('acts', ALL, [M2], '')],
    'd-compound': [('acts', ALL, [E], 'pass'), ('acts', ('and', ('or', B0, B1), ('not', ('or', B2, F))), [E, M1], ''), ('acts', ALL, [M2], '')],
    'd-bit-and': [('acts', ALL, [E], 'pass'), ('acts', ('and', B0, F), [M1], ''), ('acts', ('or', B1, F), [L, M2], ''), ('acts', ALL, [E], '')],
    # (e) attachment blocks: in the passing rule itself, with a nested block inside, as the failing action after a break-ed block,
    #     following a pass (crosses by definition: counted, judged by the model only)
    'e-attblk-pass': [('acts', ALL, [ATTB, L], 'pass')] + TAIL,
    'e-attblk-nested-pass': [('acts', ALL, [ATTB2], 'pass')] + TAIL,
    'e-attblk-alone': [('acts', ALL, [ATTB, M1], ''), ('acts', ALL, [M2], '')],
    'e-break-attblk': [('blk', ALL, [('acts', ALL, [E], 'break')]), ('acts', ALL, [ATTB, M1], ''), ('acts', ALL, [M2], '')],
    'e-pass-attblk': [('acts', ALL, [E], 'pass'), ('acts', ALL, [ATTB, M1], ''), ('acts', ALL, [M2], '')],
}
# the shapes whose evaluations are expected to cross (F11) for messages with parts
CROSSING_SHAPES = {'e-pass-attblk'}


def random_tree(rng, depth=2, in_att=False, nested=False):
    """1-3 rules; the failing condition F occurs wherever a condition may stand (not inside attachment blocks, whose conditions are
    evaluated on the parts)."""
    def cond():
        k = rng.random()
        if in_att:
            return rng.choice([ALL, ('bodyhello',), ('ctype', 'text'), ('ctype', 'html'), ('not', ('bodyhello',))])
        if k < 0.30:
            return ALL
        if k < 0.45:
            return rng.choice([B0, B1, B2, ('not', B0)])
        if k < 0.70:
            return F
        if k < 0.80:
            return ('and', rng.choice([B0, B1, ALL]), F)
        if k < 0.90:
            return ('or', rng.choice([B0, B2, NEVER]), F)
        if k < 0.95:
            return ('not', F)
        return ('and', ('or', B0, B1), ('not', ('or', B2, F)))

    rs = []
    for _ in range(rng.randrange(1, 4)):
        k = rng.random()
        if depth > 0 and k < 0.22:
            rs.append(('blk', cond(), random_tree(rng, depth - 1, in_att, True)))
            continue
        if in_att:
            rs.append(('acts', cond(), [E], ''))
            continue
        acts = [rng.choice([E, E, L, M1, M2]) for _ in range(rng.randrange(1, 3))]
        if depth > 0 and rng.random() < 0.18:
            acts.insert(rng.randrange(len(acts) + 1), ('attblk', random_tree(rng, depth - 1, True, True)))
        ctl = rng.choice(['', '', '', 'pass', 'pass', 'break' if nested else 'pass'])
        rs.append(('acts', cond(), acts, ctl))
    return rs


def uses_F(rs):
    def c(x):
        return x == F or any(isinstance(y, tuple) and c(y) for y in x[1:])
    for r in rs:
        if c(r[1]):
            return True
        if r[0] == 'blk' and uses_F(r[2]):
            return True
        if r[0] == 'acts' and any(a[0] == 'attblk' and uses_F(a[1]) for a in r[2]):
            return True
    return False


# ------------------------------------------------------------------------------------------------------------------
# populations
# ------------------------------------------------------------------------------------------------------------------

def candidates(fcond, tree):
    bad, ok = list(FCONDS[fcond]['bad']), list(FCONDS[fcond]['ok'])
    if has_attblk(tree):
        bad, ok = bad + PARTS_BAD, ok + PARTS_OK
    return bad, ok


def mk_population(rng, picks):
    """picks: [(structure, date or None, bits or None)] -> ({(sub, name): bytes}, {id: description})"""
    msgs, meta = {}, {}
    for n, (struct, date, bits) in enumerate(picks):
        i = n + 1
        date = date or rng.choice(['none', 'good', 'good'])
        bits = bits if bits is not None else tuple(rng.randrange(2) for _ in range(NBITS))
        sub = rng.choice(['new', 'cur'])
        name = '%d.host' % i + (':2,S' if sub == 'cur' else '')
        msgs[(sub, name)] = message(i, struct, date, bits)
        meta[i] = {'structure': struct, 'date': date, 'bits': ''.join(map(str, bits)), 'sub': sub, 'name': name}
    return msgs, meta


def jobs(tier, seed):
    """[(family, shape name or None, tree, fcond, messages, meta)]"""
    out = []
    frng = random.Random(seed + 11)
    # fixed: every shape x every failing condition, every structure that can make the condition fail (bits 1 and bits 0) next to healthy ones
    for sname, tree in SHAPES.items():
        for fcond in FCONDS:
            bad, ok = candidates(fcond, tree)
            picks = ([(s, d, (1,) * NBITS) for s, d in bad] + [(s, d, (0,) * NBITS) for s, d in bad[:3]] + [(s, d, (1, 0, 0)) for s, d in bad[:3]] +
                     [(s, d, None) for s, d in ok])
            out.append(('fixed', sname, tree, fcond) + mk_population(frng, picks))
    # the same shapes as a delivery on standard input (`stdin { ... }`, mdsort -): one message that cannot be evaluated, one that can
    for sname, tree in SHAPES.items():
        for fcond in FCONDS:
            bad, ok = candidates(fcond, tree)
            for struct, date in (bad[0], ok[0]):
                msgs, meta = mk_population(frng, [(struct, date, (1, 0, 0))])
                (key, data), = msgs.items()
                meta[1].update(sub='new', name='1.host')
                out.append(('stdin', sname, tree, fcond, {('new', '1.host'): data}, meta))
    # one defective message among healthy ones (the exit status then depends on that message alone), shapes x conditions sampled
    rng = random.Random(seed + 12)
    nsingle = 40 if tier == 'quick' else 1200
    names = sorted(SHAPES)
    for _ in range(nsingle):
        sname, fcond = rng.choice(names), rng.choice(sorted(FCONDS))
        tree = SHAPES[sname]
        bad, ok = candidates(fcond, tree)
        picks = [rng.choice(bad) + (None,)] + [rng.choice(ok) + (None,) for _ in range(rng.randrange(0, 4))]
        rng.shuffle(picks)
        out.append(('single', sname, tree, fcond) + mk_population(rng, picks))
    # random trees of the same grammar
    nrand = 60 if tier == 'quick' else 3000
    for _ in range(nrand):
        for _try in range(50):
            tree = random_tree(rng, depth=rng.choice([1, 2, 2]))
            if uses_F(tree) or has_attblk(tree):
                break
        fcond = rng.choice(sorted(FCONDS))
        bad, ok = candidates(fcond, tree)
        picks = [(rng.choice(bad) if rng.random() < 0.4 else rng.choice(ok)) + (None,) for _ in range(rng.randrange(1, 7))]
        out.append(('random', None, tree, fcond) + mk_population(rng, picks))
    return out


# ------------------------------------------------------------------------------------------------------------------
# running and judging
# ------------------------------------------------------------------------------------------------------------------

def action_lines(ast, tags):
    """{(type, line): ('exec', tag) | ('label', tag) | ('move', destination)} from the tree the real parser built; the k-th exec / label /
    move node in textual order is the k-th such action written by Text."""
    toks = ast.split(' ')
    found = []
    j = 0
    while j < len(toks):
        t = toks[j]
        if t == 'exec':
            n = int(toks[j + 4])
            found.append(('exec', int(toks[j + 1]), vlib.unhex(toks[j + 4 + n]).decode('latin-1')))
            j += 5 + n
        elif t == 'label':
            n = int(toks[j + 2])
            found.append(('label', int(toks[j + 1]), vlib.unhex(toks[j + 2 + n]).decode('latin-1')))
            j += 3 + n
        elif t == 'move':
            found.append(('move', int(toks[j + 1]), vlib.unhex(toks[j + 2]).decode('latin-1').rsplit('/', 1)[1]))
            j += 3
        else:
            j += 1
    if [(k, v) for k, l, v in found] != list(tags):
        raise vlib.CheckError('c04shapes: the actions of the parsed tree %r are not the actions written %r' % (found, tags))
    table = {}
    for k, l, v in found:
        if (k, l) in table:
            raise vlib.CheckError('c04shapes: two %s actions on line %d of the parsed tree' % (k, l))
        table[(k, l)] = (k, v)
    return table


def parse_spec(ans):
    """`S evalatt` answer -> dict(res, crosses, leaks, dom, actions [(type, line, part)]) or None"""
    e = ans.split(' ')
    if len(e) != 5 or e[0] not in ('MATCH', 'NOMATCH', 'ERROR'):
        return None
    acts = []
    for a in e[4][1:-1].split(','):
        if a:
            t, l, p = a.split(':')
            acts.append((t, int(l), int(p)))
    return {'res': e[0], 'crosses': e[1] == 'CROSSES', 'leaks': e[2] == 'LEAKS', 'dom': e[3] == 'DOM', 'actions': acts}


def helper_records(r):
    """{message id: [(tag, part; 0 = the whole message)]} in the order the commands ran; None: input that is no message / part of the population"""
    from props.c13 import parse_helper
    res = {}
    for line in r.helper:
        argv, stdin, fds, target = parse_helper(line)
        tag = argv[0].decode('latin-1') if argv else '?'
        m = re.search(rb'^X-Id: (\d+)$', stdin, re.M)
        p = re.search(rb'^X-Part: m(\d+)p(\d+)$', stdin, re.M)
        if m:
            res.setdefault(int(m.group(1)), []).append((tag, 0))
        elif p:
            res.setdefault(int(p.group(1)), []).append((tag, int(p.group(2))))
        else:
            res.setdefault(None, []).append((tag, stdin[:60]))
    return res


def strip_label(data):
    """(content without its X-Label line, label value or None)"""
    head, sep, body = data.partition(b'\n\n')
    lines = (head + b'\n').split(b'\n')[:-1]
    lab = [l for l in lines if l.startswith(b'X-Label:')]
    rest = [l for l in lines if not l.startswith(b'X-Label:')]
    return b'\n'.join(rest) + sep + body, (lab[0][8:].strip().decode('latin-1') if lab else None) if len(lab) <= 1 else 'SEVERAL'


def run_job(tools, W, job):
    family, sname, tree, fcond, msgs, meta = job
    tx = Text(fcond)
    is_stdin = family == 'stdin'
    conf = tx.config(tree, stdin=is_stdin)
    t = {}
    t.update(proc.maildir_tree('dst', {}))
    t.update(proc.maildir_tree('dst2', {}))
    if is_stdin:
        spec = ws.Spec('rule-shape-stdin', conf, tx.pats, tree=t, stdin=msgs[('new', '1.host')], args=['-'], kind='stdin')
    else:
        t.update(proc.maildir_tree('src', msgs))
        spec = ws.Spec('rule-shape', conf, tx.pats, tree=t)
    scen = spec.build(tools)
    try:
        blocks = W.blocks(scen, tx.pats)
        if not blocks:
            raise vlib.CheckError('c04shapes: the configuration of a rule shape is rejected by the parser:\n%s' % conf)
        btoks = blocks[0].split(' ')
        ast = ' '.join(btoks[2 + int(btoks[1]):])
        table = action_lines(ast, tx.tags)
        ids = sorted(meta)
        reqs = []
        for i in ids:
            m = meta[i]
            # (a delivery is evaluated in the spool maildir mdsort makes below TMPDIR: <tmp>/<made by mkdtemp>/new/<generated name>)
            path = ('%s/tmp/spool/new/%s' % (scen.root, m['name'])) if is_stdin else '%s/src/%s/%s' % (scen.root, m['sub'], m['name'])
            reqs.append('S evalatt ' + ' '.join(vlib.hexs(x) for x in (ast.encode('latin-1'), msgs[(m['sub'], m['name'])], path.encode('latin-1'), b'0',
                                                                          str(NOW).encode())))
        r = scen.run()
        rq, _, _ = W.request(scen, tx.pats, r, stdin=is_stdin)
        return {'family': family, 'shape': sname, 'fcond': fcond, 'config': scen.config.replace(scen.root, R).replace(tools.helper, H), 'meta': meta, 'ids': ids,
                'msgs': msgs, 'table': table, 'spec_reqs': reqs, 'conform_req': rq, 'scen': scen, 'r': r}
    except Exception:
        scen.cleanup()
        raise


def judge_stdin(x, sp):
    """A delivery (mdsort -): documented ERROR => exit status 75 (EX_TEMPFAIL: the MTA keeps the message), nothing delivered, no command;
    documented MATCH with a move => exit status 0, the message exactly once in <destination>/new, commands as planned; always: nothing
    left in TMPDIR."""
    r, table = x['r'], x['table']
    orig = x['msgs'][('new', '1.host')]
    m = x['meta'][1]
    desc = 'the message on standard input (%s, Date %s)' % (m['structure'], m['date'])
    probs = []
    if sp is None:
        raise vlib.CheckError('c04shapes: the specification side gave no verdict')
    files = ws.maildir_files(r.final)
    stored = sorted(rel for rel, d in files.items() if not rel.startswith('tmp/'))
    got = helper_records(r).get(1, [])
    if ws.tmp_entries(r.final):
        probs.append('spool left in TMPDIR: %s' % ws.tmp_entries(r.final))
    if sp['crosses'] or sp['leaks']:
        return probs, {1: 'crosses' if sp['crosses'] else 'leaks'}
    if sp['res'] == 'ERROR':
        if r.status != 75:
            probs.append('%s cannot be evaluated (documented result: error) but the exit status is %r, not 75' % (desc, r.status))
        if stored:
            probs.append('%s cannot be evaluated but was delivered to %s' % (desc, stored))
        if got:
            probs.append('%s cannot be evaluated but commands were run for it: %s' % (desc, got))
    elif sp['res'] == 'MATCH':
        plan = [table.get((t, l), (t, '?')) + (p,) for t, l, p in sp['actions']]
        moves = [v for k, v, p in plan if k == 'move']
        want_exec = [(v, p) for k, v, p in plan if k == 'exec']
        if got != want_exec:
            probs.append('%s: commands ran as %s, documented plan %s (tag, part; 0 = whole message)' % (desc, got, want_exec))
        if moves:
            if r.status != 0:
                probs.append('%s can be evaluated and delivered but the exit status is %r: %s' % (desc, r.status, r.err[-300:].decode('latin-1')))
            if len(stored) != 1 or not stored[0].startswith(moves[-1] + '/new/'):
                probs.append('%s is at %s, documented place %s/new' % (desc, stored, moves[-1]))
            else:
                body, lab = strip_label(files[stored[0]])
                if body != orig or (lab or '') != ' '.join(v for k, v, p in plan if k == 'label'):
                    probs.append('%s: delivered content / X-Label %r differ from the documented ones' % (desc, lab))
    else:
        if stored or got:
            probs.append('%s matches no rule but was delivered to %s / commands %s' % (desc, stored, got))
    if r.status not in (0, 75):
        probs.append('exit status %r (a delivery ends with 0, 75 or - after reject - 1)' % (r.status,))
    return probs, {1: sp['res']}


def judge(x, specs):
    """-> (problems, per-message classification)"""
    if x['family'] == 'stdin':
        return judge_stdin(x, specs[0])
    r, meta, msgs, table = x['r'], x['meta'], x['msgs'], x['table']
    probs, cls = [], {}
    files = ws.maildir_files(r.final)
    where = {}
    for rel, data in files.items():
        where.setdefault(ws.msg_id(data), []).append(rel)
    recs = helper_records(r)
    nerr, unjudged = 0, 0
    for i, sp in zip(x['ids'], specs):
        m = meta[i]
        rel0 = 'src/%s/%s' % (m['sub'], m['name'])
        orig = msgs[(m['sub'], m['name'])]
        desc = 'message %d (%s, Date %s, bits %s)' % (i, m['structure'], m['date'], m['bits'])
        if sp is None:
            raise vlib.CheckError('c04shapes: the specification side gave no verdict')
        if sp['crosses'] or sp['leaks']:
            cls[i] = 'crosses' if sp['crosses'] else 'leaks'
            unjudged += 1
            # still: a message never disappears
            if not where.get(i):
                probs.append('%s is gone' % desc)
            continue
        cls[i] = sp['res']
        got = recs.get(i, [])
        if sp['res'] in ('ERROR', 'NOMATCH'):
            if sp['res'] == 'ERROR':
                nerr += 1
            why = ('its evaluation hits a condition that cannot be evaluated (documented result: error)' if sp['res'] == 'ERROR'
                   else 'no rule matches it (documented result: no match)')
            if files.get(rel0) != orig:
                probs.append('%s: %s, but it was changed or moved (now at %s)' % (desc, why, where.get(i, ['nowhere'])))
            if got:
                probs.append('%s: %s, but commands were run for it: %s (tag, part; 0 = whole message)' % (desc, why, got))
            continue
        # MATCH: the documented plan
        plan = [table.get((t, l), (t, '?')) + (p,) for t, l, p in sp['actions']]
        want_exec = [(v, p) for k, v, p in plan if k == 'exec']
        want_lab = ' '.join(v for k, v, p in plan if k == 'label')
        moves = [v for k, v, p in plan if k == 'move']
        want_dir = ('%s/%s' % (moves[-1], m['sub'])) if moves else 'src/%s' % m['sub']
        if got != want_exec:
            probs.append('%s: commands ran as %s, documented plan %s (tag, part; 0 = whole message)' % (desc, got, want_exec))
        at = where.get(i, [])
        if len(at) != 1:
            probs.append('%s exists %d times after the run: %s' % (desc, len(at), at))
            continue
        if at[0].rsplit('/', 1)[0] != want_dir:
            probs.append('%s is in %s, documented place %s' % (desc, at[0].rsplit('/', 1)[0], want_dir))
        body, lab = strip_label(files[at[0]])
        if body != orig:
            probs.append('%s: content changed beyond X-Label' % desc)
        if (lab or '') != want_lab:
            probs.append('%s: X-Label is %r, documented %r' % (desc, lab, want_lab))
        if not moves and not want_lab and at[0] != rel0:
            probs.append('%s was renamed to %s although no action moves or rewrites it' % (desc, at[0]))
    if None in recs:
        probs.append('a command ran with an input that is no message or part of the population: %r' % recs[None][:2])
    for i in where:
        if i not in meta:
            probs.append('stray file(s) %s' % where[i])
    if nerr and r.status == 0:
        probs.insert(0, 'exit status 0 although %d message(s) could not be evaluated' % nerr)
    if not nerr and not unjudged and r.status != 0:
        probs.insert(0, 'exit status %r although every message can be evaluated and every action carried out: %s'
                     % (r.status, r.err[-300:].decode('latin-1')))
    if r.status not in (0, 1):
        probs.append('exit status %r' % (r.status,))
    return probs, cls


def stage(rep, tools, W):
    js = jobs(rep.tier, rep.seed)
    with cf.ThreadPoolExecutor(vlib.NCPU) as ex:
        xs = list(ex.map(lambda j: run_job(tools, W, j), js))
    try:
        sreqs = [q for x in xs for q in x['spec_reqs']]
        sans = [parse_spec(a) for a in vlib.run_batch([vlib.driver_path()], sreqs)]
        verdicts = W.verdict([x['conform_req'] for x in xs])
        pos = 0
        stats = {'configurations': len(xs), 'messages': len(sreqs), 'by_family': {}, 'documented': {}, 'outside_InDomainA': 0,
                 'failing': 0, 'nonconforming': 0, 'error_messages_by_shape': {}, 'crossing_by_shape': {}}
        corr, nrep = [], 0
        for x, v in zip(xs, verdicts):
            specs = sans[pos:pos + len(x['ids'])]
            pos += len(x['ids'])
            probs, cls = judge(x, specs)
            stats['by_family'][x['family']] = stats['by_family'].get(x['family'], 0) + 1
            for i, c in cls.items():
                stats['documented'][c] = stats['documented'].get(c, 0) + 1
                key = x['shape'] or 'random'
                if c == 'ERROR':
                    stats['error_messages_by_shape'][key] = stats['error_messages_by_shape'].get(key, 0) + 1
                if c in ('crosses', 'leaks'):
                    stats['crossing_by_shape'][key] = stats['crossing_by_shape'].get(key, 0) + 1
            stats['outside_InDomainA'] += sum(1 for s in specs if s and not s['dom'])
            desc = {'harness': 'process (real binary under the shim)', 'family': 'rule-shape', 'population': x['family'], 'shape': x['shape'],
                    'failing_condition': x['fcond'], 'config': x['config'], 'exit_status': x['r'].status,
                    'stderr': x['r'].err[-400:].decode('latin-1').replace(x['scen'].root, R),
                    'documented': {str(i): cls[i] for i in cls},
                    'messages': {('stdin' if x['family'] == 'stdin' else 'src/%s/%s' % k): v.decode('latin-1') for k, v in x['msgs'].items()}}
            if probs:
                stats['failing'] += 1
                if nrep < 6:
                    nrep += 1
                    rep.finding('unlisted', dict(desc, what=probs[:8], replay_cmd='python3 tools/check.py C04 --replay <this file>'))
                continue
            kind, detail = world.compare(x['scen'], x['r'], v)
            if kind != 'ok':
                stats['nonconforming'] += 1
                corr.append(dict(desc, messages=None, conform=kind, detail=detail[:400]))
        # the fixed shapes are meant to be judged: a defective message that crosses anywhere else than in the shapes built to cross
        # would silently weaken the family
        for sname, n in stats['crossing_by_shape'].items():
            if sname not in CROSSING_SHAPES and sname != 'random':
                rep.violation({'obligation': 'C04 rule-shape family: shape %s is meant to lie outside the deviation classes F11/F24 but %d of its '
                                             'evaluations are recorded as crossing / leaking by Spec.evalBlockA' % (sname, n)}, False)
        if corr and not rep.violations:
            rep.violation({'obligation': 'correspondence: the real run over a rule-shape population does not follow Model.mainP / ends in a different '
                                         'state; the documented semantics evaluated on the real tree found nothing wrong',
                           'disagreements': len(corr), 'examples': corr[:6]}, False)
        stats['rule'] = ('%d shapes (failing condition after a pass / in nested blocks after a pass / after a break-ed block / second operand of '
                         'and, or, under ! / attachment conditions and attachment blocks around a pass) x 3 failing conditions (body on undecodable '
                         'base64 or a malformed multipart/alternative; date on an unparsable Date; attachment on a multipart that is too deep, '
                         'unterminated, has an invalid boundary parameter or one undecodable part before the part that matches), every defective '
                         'structure next to healthy ones; populations with ONE defective message; random trees of the same grammar.  Real binary '
                         'under the shim; per message the documented result and plan from Spec.evalBlockA (driver `S evalatt`, tree of the real '
                         'parser): error => status non-zero, message untouched, no command; no match => untouched; match => the documented '
                         'commands in order on the documented parts, last move, labels; status 0 iff no documented error; evaluations recorded '
                         'as crossing (F11) / leaking (F24) are not judged by the documented verdict (as in C03); every run followed through '
                         'Model.mainP' % len(SHAPES))
        return stats
    finally:
        for x in xs:
            x['scen'].cleanup()


def replay(rep, tools, W, j):
    """Re-run a recorded rule-shape finding: the configuration and the messages are in the replay file."""
    msgs, stdin = {}, None
    for rel, data in (j.get('messages') or {}).items():
        if rel == 'stdin':
            stdin = data.encode('latin-1')
            continue
        _, sub, name = rel.split('/', 2)
        msgs[(sub, name)] = data.encode('latin-1')
    t = {}
    t.update(proc.maildir_tree('dst', {}))
    t.update(proc.maildir_tree('dst2', {}))
    if stdin is not None:
        scen = ws.Spec('rule-shape-stdin', j['config'], [], tree=t, stdin=stdin, args=['-'], kind='stdin').build(tools)
    else:
        t.update(proc.maildir_tree('src', msgs))
        scen = ws.Spec('rule-shape', j['config'], [], tree=t).build(tools)
    try:
        r = scen.run()
        print('config:\n%s' % j['config'])
        print('documented results: %s' % j.get('documented'))
        print('exit status %r, stderr %r' % (r.status, r.err[-400:].decode('latin-1').replace(scen.root, R)))
        print('commands: %s' % helper_records(r))
        print('final tree: %s' % sorted(ws.maildir_files(r.final)))
        for p in j.get('what', []):
            print('RECORDED PROBLEM %s' % p)
    finally:
        scen.cleanup()
