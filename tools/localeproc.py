"""Process-level locale family (C06, C10): the real binary, real run and -d, under LC_ALL=C and LC_ALL=C.utf8, on single-rule
configurations whose patterns are sensitive to how the regex engine reads multibyte text, and messages that carry such text
raw (8-bit UTF-8, Latin-1) and in RFC 2047 encoded words.

mdsort selects the character type locale of its environment (`setlocale(LC_CTYPE, "")` first thing in main): what a pattern
means - what `.` and a bracket expression count as one character, which letters the `i` flag identifies - is what the platform's
regexec gives under that locale on the DECODED value.  The reference is the Lean driver (documented header condition
`Spec.headerCands`/`firstNonNomatch`, decoded body of the model) with the same regex library through the FFI, run under the
same LC_ALL.

Oracles (evaluated by the checks): (i) the messages a real run moves are the messages -d lists, in the same locale;
(ii) a message is moved / listed iff the reference matches; (iii, C06) the marker lines -d prints under LC_ALL=C.utf8 and C.
"""
import base64
import re
import vlib
import worldscen as ws
import mbtext

E = lambda s: s.encode('utf-8')

# decoded texts the messages carry (Subject value and a body line of their own)
VALUES = [E('\u00e9'), E('\u00c9'), E('caf\u00e9'), E('CAF\u00c9'), b'cafe', b'caf', E('caf\u00e8'), E('\u00e9\u00e9'), b'a', b'ab', b'abc',
          E('\u4e2d'), E('\u4e2d\u6587'), E('\u4e2d\u6587\u5b57'), E('\u00df'), b'SS', E('\u0436\u0430\u0440'), E('\u0416\u0410\u0420'),
          E('e\u0301'), b'caf\xe9', E('\U0001f600'), E('x\U0001f600'), E('na\u00efve caf\u00e9 \u4e2d\u6587'), E('\u03a9mega'), E('\u03c9MEGA'),
          b'\xe9', E('\u00e9t\u00e9'), E('\u20ac5'), b'x y']

# (pattern, flags): `.` counting characters, intervals, bracket expressions and classes with non-ASCII members, the i flag on
# non-ASCII letters, repetition of a multibyte character, alternation, capture groups around multibyte text, a stray 8-bit byte
PATTERNS = [(E(p_), f_) for p_, f_ in [
    ('^.$', ''), ('^..$', ''), ('^...$', ''), ('^.{1}$', ''), ('^.{2}$', ''), ('^.{3,4}$', ''), ('^.{5}$', ''), ('^caf.$', ''), ('caf.$', ''),
    ('^.af', ''), ('^(.)(.)$', ''), ('(.)$', ''), ('^(.).*(.)$', ''),
    ('^caf[\u00e9\u00e8]$', ''), ('[\u00e9]', ''), ('^[^a]$', ''), ('^[^\u00e9]+$', ''), ('^[\u00e0-\u00fc]+$', ''), ('^[[:alpha:]]+$', ''),
    ('[[:upper:]]', ''), ('^[[:lower:]]+$', ''), ('^[[:alnum:][:space:]]+$', ''), ('[[:punct:]]', ''), ('^[a\u00e9\u4e2d]$', ''),
    ('\u00e9', 'i'), ('^CAF\u00c9$', 'i'), ('^caf\u00e9$', 'i'), ('\u00df', 'i'), ('\u0436\u0430\u0440', 'i'), ('^[\u00e9]$', 'i'), ('\u03c9mega', 'i'),
    ('^[[:upper:]]+$', 'i'), ('caf.', 'i'),
    ('\u4e2d\u6587', ''), ('\u4e2d.', ''), ('^.\u6587$', ''), ('^\u00e9+$', ''), ('^(\u00e9|\u00e8)*$', ''), ('\u00e9{2}', ''), ('caf\u00e9?$', ''), ('^e.$', ''),
    ('\U0001f600$', ''), ('^x.$', ''), ('(\u00e9).*(\u4e2d)', ''), ('n(a.)ve', ''), ('\u20ac[0-9]', ''),
]] + [(b'^.\xe9', ''), (b'caf[\xe9]', '')]


# a header name and a configuration directory with characters of several bytes / two columns: the head `conf:lno: name: ` of an
# explanation must be accounted for in columns
HNAME_MB = E('S\u00e9')
CONFDIR_MB = E('d\u00e9\u4e2d')


def qword(b, charset=b'utf-8', upper=False):
    w = b''.join((b'=%02X' % c) if (c >= 127 or c < 33 or c in b'=?_') else bytes([c]) for c in b)
    return b'=?' + charset + (b'?Q?' if upper else b'?q?') + w + b'?='


def bword(b, charset=b'UTF-8'):
    return b'=?' + charset + b'?B?' + base64.b64encode(b) + b'?='


def subject_forms(rng, v):
    """The header value `v` as a mail program may have written it (all decode to the bytes of `v`, or are `v` raw)."""
    forms = [v]
    if v and b' ' not in v:
        forms += [qword(v), bword(v), qword(v, upper=True)]
        if len(v) >= 2:
            k = rng.randrange(1, len(v))          # two adjacent words, joined by the decoder - the cut may fall inside a character
            forms.append(bword(v[:k]) + b' ' + qword(v[k:]))
            forms.append(qword(v[:k]) + b'\n ' + bword(v[k:]))       # ... on a continuation line
    else:
        forms.append(qword(v))
    try:
        l1 = v.decode('utf-8').encode('latin-1')
        if l1 != v:
            forms.append(qword(l1, b'iso-8859-1'))     # no charset conversion: the Latin-1 bytes are what the pattern sees
    except (UnicodeDecodeError, UnicodeEncodeError):
        pass
    return forms


def population(rng, nvalues):
    """[(id, message bytes)]: every chosen value in every form; the value is also a body line of its own."""
    msgs, k = [], 1
    vals = list(VALUES)
    rng.shuffle(vals)
    for v in vals[:nvalues]:
        for f in subject_forms(rng, v):
            if rng.random() < 0.5 or f is v:
                body = b'first line\n' + v + b'\nlast ' + v + b' line\n'
                msgs.append((k, b'To: user%d@example.com\nX-Id: %d\nSubject: ' % (k, k) + f + b'\n' + HNAME_MB + b': ' + f +
                             b'\nMIME-Version: 1.0\n\n' + body))
                k += 1
    return msgs


class Family:
    """One configuration (a single rule) over the population, to be run in every locale."""

    def __init__(self, kind, pat, flags, msgs, hname=b'Subject', confdir=None):
        self.kind, self.patb, self.flags, self.msgs = kind, pat, flags, msgs   # kind: 'header' | 'body'; pat: bytes, flags: ''|'i'
        self.hname, self.confdir = hname, confdir      # header looked at; directory (relative to the sandbox) of a second copy of the configuration given with -f
        self.result = {}

    def config(self):
        cond = ('header "%s"' % self.hname.decode('latin-1')) if self.kind == 'header' else 'body'
        return 'maildir "@R@/src" {\n\tmatch %s /%s/%s move "@R@/dst"\n}\n' % (cond, self.patb.decode('latin-1'), self.flags)

    def readable(self):
        r = {'rule': 'match %s /%s/%s move "dst"' % (('header "%s"' % self.hname.decode('utf-8')) if self.kind == 'header' else 'body',
                                                     self.patb.decode('utf-8', 'backslashreplace'), self.flags),
             'pattern_bytes': repr(self.patb)}
        if self.confdir:
            r['configuration'] = '-f %s/conf' % self.confdir.decode('utf-8')
        return r


def families(rng, tier):
    msgs = population(rng, 12 if tier == 'quick' else len(VALUES))
    pats = list(PATTERNS)
    rng.shuffle(pats)
    if tier == 'quick':
        pats = pats[:26]
    fams = []
    for i, (p, f) in enumerate(pats):
        fams.append(Family('header', p, f, msgs, hname=HNAME_MB if i % 4 == 1 else b'Subject', confdir=CONFDIR_MB if i % 5 == 2 else None))
        if i % 3 == 0:
            fams.append(Family('body', p, f, msgs, confdir=CONFDIR_MB if i % 2 else None))
    return fams


ARROW = re.compile(rb'^(\S.*?) -> (.*)$')


def parse_dry(out, root):
    """{path: {'dest': [..], 'expl': [(quoted, marker)...]}} from the text -d printed."""
    res, cur = {}, None
    lines = out.split(b'\n')
    i = 0
    while i < len(lines):
        m = ARROW.match(lines[i])
        if m and m.group(1).startswith(root.encode('latin-1')):
            cur = res.setdefault(m.group(1).decode('latin-1'), {'dest': [], 'expl': []})
            cur['dest'].append(m.group(2).decode('latin-1'))
            i += 1
        elif cur is not None and i + 1 < len(lines):
            cur['expl'].append((lines[i], lines[i + 1]))
            i += 2
        else:
            i += 1
    return res


def run_family(tools, fam, locales=mbtext.LOCALES):
    """Runs the configuration with -d and for real in every locale; fills fam.result[locale] =
    {'dry': {id: explanations}, 'moved': set(ids), 'status': (dry, real), 'root': sandbox root}."""
    tree = {}
    tree.update({'src/new': None, 'src/cur': None, 'src/tmp': None, 'dst/new': None, 'dst/cur': None, 'dst/tmp': None})
    for k, m in fam.msgs:
        tree['src/new/%d.host' % k] = m
    for locale in locales:
        spec = ws.Spec('locale-%s' % locale, fam.config(), tree=tree, env={'LC_ALL': locale})
        scen = spec.build(tools)
        try:
            fopt, conf = [], (scen.root + '/conf').encode()
            if fam.confdir:
                # the same configuration once more under a directory with a non-ASCII name, named relative to the working directory
                import os
                import proc
                for base in (scen.root, scen._saved):
                    dd = os.path.join(proc.fsb(base), fam.confdir)
                    os.makedirs(dd, exist_ok=True)
                    with open(os.path.join(dd, b'conf'), 'wb') as fh:
                        fh.write(scen.config.encode('latin-1'))
                scen.initial = proc.snapshot(scen.root, skip=('conf',))
                conf = fam.confdir + b'/conf'
                fopt = ['-f', conf]
            scen.args = ['-d'] + fopt
            d = scen.run(trace=False)
            unchanged = d.final == scen.initial
            scen.reset()
            scen.args = list(fopt)
            r = scen.run(trace=False)
            listed = {}
            for path, e in parse_dry(d.out, scen.root).items():
                mm = re.search(r'/src/new/(\d+)\.host$', path)
                if mm:
                    listed[int(mm.group(1))] = e
            moved = set()
            for rel, data in ws.maildir_files(r.final).items():
                if rel.startswith('dst/'):
                    i = ws.msg_id(data)
                    if i is not None:
                        moved.add(i)
            fam.result[locale] = {'dry': listed, 'moved': moved, 'status': (d.status, r.status), 'root': scen.root, 'conf': conf,
                                  'dry_changed_tree': not unchanged, 'stderr': (d.err + r.err)[-300:].decode('latin-1')}
        finally:
            scen.cleanup()
    return fam


def reference(fams, locale):
    """{(family index, message id): None (outside the specification's domain) | (matched: bool, value bytes, [(so, eo) | None])}
    from the Lean driver run under LC_ALL=locale."""
    import os
    denv = dict(os.environ, LC_ALL=locale)
    info = vlib.run_batch([vlib.driver_path()], ['M locale 00'], denv)[0]
    if info != ('1 1' if locale == 'C' else '1 6'):
        raise vlib.CheckError('the driver does not run in locale %s (setlocale/MB_CUR_MAX: %r)' % (locale, info))
    res = {}
    # decoded bodies once per message
    msgs = fams[0].msgs if fams else []
    bodies = {}
    if any(f.kind == 'body' for f in fams):
        out = vlib.run_batch([vlib.driver_path()], ['M body ' + vlib.hexs(m) for _, m in msgs], denv)
        for (k, _), o in zip(msgs, out):
            bodies[k] = vlib.unhex(o[1:]) if o.startswith('B') else None
    reqs, keys = [], []
    for fi, f in enumerate(fams):
        fl = vlib.hexs(f.flags.encode() or b'-')
        for k, m in f.msgs:
            if f.kind == 'header':
                reqs.append('S hcond %s %s %s %s' % (vlib.hexs(f.hname), vlib.hexs(f.patb), fl, vlib.hexs(m)))
            else:
                if bodies.get(k) is None:
                    res[(fi, k)] = None
                    continue
                reqs.append('M regex %s %s %s' % (vlib.hexs(f.patb), fl, vlib.hexs(bodies[k])))
            keys.append((fi, k))
    out = vlib.run_batch([vlib.driver_path()], reqs, denv)
    for key, o in zip(keys, out):
        t = o.split(' ')
        if t[0] == 'NOMATCH':
            res[key] = (False, None, [])
        elif t[0] == 'MATCH':
            groups = [None if g == 'x/x' else tuple(int(x) for x in g.split('/')) for g in t[-1].split('+')]
            val = vlib.unhex(t[2]) if len(t) == 4 else bodies[key[1]]
            res[key] = (True, val, groups)
        else:
            res[key] = None          # NOTWF / ERROR / BADPATTERN: no verdict
    return res
