"""C15: the text of the Date header - `strptime` and the layouts of time.c against the executable model (Model/Strptime.lean)
and against the RFC 5322 date-time grammar (Spec/Rfc5322Date.lean).

Four request families, all through harness/unit/h_expr.c (implementation) and the Lean driver (M = model, S = specification):

* `strp <format> <string>`: the platform's `strptime` on a zeroed `struct tm` (implementation side: called in the harness process;
  S side: called through the driver's FFI) against `Model.strptimeC`, for the layouts of `formats[]` and for formats made of the
  same directives;
* `timeparse <string>`: `timeparse()` of time.c (the loop over `formats[]` writing into one `struct tm`) against `Model.timeparseC`;
* `tparsec <date> <now> <TZ>`: `time_parse()` against `Model.timeParse Model.timeparseC` (model of `strptime`, `timegm`, `tzoff`;
  only the zone-NAME lookup is the platform's);
* `rfcdate <fields> <layout choices>` (S only): `Spec.renderDate`, `Spec.instant`, `Spec.WellFormed`; the text is compared with an
  independent rendering below, the instant with `calendar.timegm`, and `time_parse()` of the text with the instant for every
  date-time inside `Covered` (Props/C15.lean); outside it the model's answer is the expectation (`C15_rfc5322_uncovered`).
"""
import calendar
import os
import re
import vlib

DAYS = ['Sunday', 'Monday', 'Tuesday', 'Wednesday', 'Thursday', 'Friday', 'Saturday']
MONTHS = ['January', 'February', 'March', 'April', 'May', 'June', 'July', 'August', 'September', 'October', 'November', 'December']
RFC_DAYS = ['Mon', 'Tue', 'Wed', 'Thu', 'Fri', 'Sat', 'Sun']
RFC_MONTHS = [m[:3] for m in MONTHS]
KNOWN_DIRECTIVES = 'adbYHMS'
# formats made of the directives of the table: each directive alone, glued, with literals and white space
EXTRA_FORMATS = ['%a', '%b', '%d', '%Y', '%H', '%M', '%S', '%a%b', ' %a %b', '%b%d', '%d%d', '%Y%Y', '%H%M%S', '%H:%M:%S', '%Y-%d', 'x%dy',
                 '%d %b %Y', '%b %d, %Y', '%a,%d%b%Y%H:%M:%S', '%S %M %H', '  %d', '%d  ', '%Y %H']


def A(s):
    return s.encode('latin-1') if isinstance(s, str) else s


def table_formats(src):
    tc = open(os.path.join(src, 'time.c'), encoding='latin-1').read()
    m = re.search(r'formats\[\]\s*=\s*\{(.*?)NULL', tc, re.S)
    return re.findall(r'"([^"]*)"', m.group(1)) if m else []


def known_format(f):
    """Every conversion of the format is one the interpreter knows (others are outside the model by construction)."""
    i = 0
    while i < len(f):
        if f[i] == '%':
            if i + 1 >= len(f) or f[i + 1] not in KNOWN_DIRECTIVES:
                return False
            i += 2
        else:
            i += 1
    return True


class Gen:
    def __init__(self, rng):
        self.rng = rng

    def case(self, s):
        r = self.rng.random()
        if r < 0.45:
            return s
        if r < 0.6:
            return s.upper()
        if r < 0.75:
            return s.lower()
        return ''.join(c.upper() if self.rng.random() < 0.5 else c.lower() for c in s)

    def name(self, full, odd=False):
        """A day or month name: abbreviated or full in any letter case; odd: a proper prefix / an extension (not a name)."""
        n = self.rng.choice(full)
        if not odd:
            return self.case(n[:3] if self.rng.random() < 0.65 else n)
        r = self.rng.random()
        if r < 0.4:
            s = n[:self.rng.choice([1, 2, 4, 5])]
        elif r < 0.8:
            s = n[:3] + self.rng.choice(['.', 's', 'x', n[3:4].upper(), '1'])
        else:
            s = n + self.rng.choice(['s', 'x', '.'])
        return self.case(s)

    def ws(self, odd=False):
        if not odd:
            return ' ' if self.rng.random() < 0.7 else self.rng.choice(['  ', '\t', ' \t ', '   '])
        return self.rng.choice(['', '', '\n', '\r\n ', '\x0b', '\x0c', ' \n\t', '\xa0', '_'])

    def num(self, lo, hi, width, odd=False):
        """A field: in range with one or `width` digits; odd: at and beyond the limits, more digits, leading space, sign."""
        rng = self.rng
        if not odd:
            v = rng.randrange(lo, hi + 1) if rng.random() < 0.8 else rng.choice([lo, hi, min(hi, 9), min(hi, 10), min(hi, 30), min(hi, 60)])
            return (('%%0%dd' % width) if rng.random() < 0.75 else '%d') % v
        r = rng.random()
        if r < 0.6:
            v = rng.choice([lo, hi, hi + 1, max(0, lo - 1), hi + 2, 0, 9, 10, 29, 30, 31, 32, 39, 40, 59, 60, 61, 62, 69, 99])
        else:
            v = rng.choice([100, 123, 999, 1000, 1899, 1900, 1970, 2026, 9999, 10000, 12345, 99999])
        return rng.choice(['%d', '%%0%dd' % width, '%%0%dd' % (width + 1), '%%%dd' % width, '+%d', '-%d', ' %d']) % v

    def year(self, odd=False):
        rng = self.rng
        if not odd:
            return '%04d' % (rng.randrange(1970, 2038) if rng.random() < 0.8 else rng.choice([1, 1000, 1899, 1900, 1969, 1970, 2037, 2038, 9999]))
        r = rng.random()
        if r < 0.4:
            return rng.choice(['%02d', '%03d', '%05d', '%d']) % rng.choice([0, 1, 26, 69, 70, 99, 100, 999, 1000, 1899, 1900, 1969, 1970, 2026, 9999])
        if r < 0.7:
            return str(rng.choice([10000, 12026, 12345, 20260, 99999, 123456]))
        return rng.choice(['+2026', '-2026', ' 2026', '2026.', '20 26', '2O26', ''])

    def date(self):
        """A date text in the shape of one of the layouts; zero, one, two or many parts taken from the odd families."""
        rng = self.rng
        k = rng.choice([0, 0, 0, 0, 1, 1, 1, 1, 2, 2, 14])
        odd = set(rng.sample(range(14), min(k, 14)))
        o = lambda i: i in odd    # noqa: E731
        p = []
        if rng.random() < 0.7:
            p += [self.ws(True) if o(0) else '', self.name(DAYS, o(1)), rng.choice([' ,', '', ';', ', ,']) if o(2) else ',']
        p += [self.ws(o(3)), self.num(1, 31, 2, o(4)), self.ws(o(5)), self.name(MONTHS, o(6)), self.ws(o(7)), self.year(o(8)), self.ws(o(9)),
              self.num(0, 23, 2, o(10)), rng.choice([' :', ': ', '', '.', '::']) if o(11) else ':', self.num(0, 59, 2, o(12))]
        if rng.random() < 0.7:
            p += [rng.choice([' :', ': ', '', '.']) if o(11) and rng.random() < 0.5 else ':', self.num(0, 61, 2, o(13))]
        return ''.join(p)

    def zone(self):
        rng = self.rng
        r = rng.random()
        if r < 0.6:
            off = rng.choice([0, 0, 3600, -12600, 86340, -86340, 49500, 19800, -16200, rng.randrange(-1439, 1440) * 60])
            z = '%s%02d%02d' % ('+' if off >= 0 else '-', abs(off) // 3600, abs(off) % 3600 // 60)
        elif r < 0.8:
            z = rng.choice(['GMT', 'UT', 'UTC', '-0000', 'Z'])
        else:
            z = rng.choice(['+2400', '+0060', '+9959', 'EST', 'PDT', '', '+01', '+01:00', '0100', '+010'])
        return rng.choice([' ', ' ', '  ', '\t', '']) + z + rng.choice(['', '', '', ' (CET)', ' (a (nested) comment)', '(x)', ' x', '0'])

    def mutate(self, s):
        rng = self.rng
        b = bytearray(A(s))
        for _ in range(rng.randrange(1, 3)):
            if not b:
                break
            k = rng.randrange(len(b))
            r = rng.random()
            if r < 0.3:
                del b[k]
            elif r < 0.6:
                b[k] = rng.choice(b' :,0123456789aJTt\t+-\xe9\xa0\x85')
            elif r < 0.8:
                b.insert(k, rng.choice(b' :,09aJ\t\xa0\n'))
            else:
                b[k:k] = b[k:k + rng.randrange(1, 6)]
        return bytes(b).replace(b'\x00', b'')

    # ---- RFC 5322 date-times -------------------------------------------------------------------------------------------------

    def fws(self, optional):
        r = self.rng.random()
        if r < 0.6:
            return ' '
        if r < 0.72 and optional:
            return ''
        return self.rng.choice(['  ', '\t', ' \t', '\t ', '   ', ' \t \t'])

    def mask(self):
        r = self.rng.random()
        if r < 0.5:
            return ''
        return ''.join(self.rng.choice('01') for _ in range(self.rng.choice([1, 2, 3, 3, 4])))

    def rfc(self):
        """(fields, layout): mostly well-formed; some with one rule of the grammar or one clause of `Covered` broken."""
        rng = self.rng
        t = rng.randrange(0, 2145916800) if rng.random() < 0.8 else rng.choice([-1, 0, 86399, -2208988800, 253402300799, 951782400, 1709251199])
        tm = calendar.timegm  # noqa: F841
        import time as _t
        g = _t.gmtime(t)
        f = {'dow': (g.tm_wday if rng.random() < 0.7 else None), 'day': g.tm_mday, 'mon': g.tm_mon, 'year': g.tm_year, 'hour': g.tm_hour,
             'min': g.tm_min, 'sec': (g.tm_sec if rng.random() < 0.7 else None), 'plus': rng.random() < 0.5,
             'zh': rng.choice([0, 0, 1, 2, 5, 9, 11, 12, 13, 14, 23]), 'zm': rng.choice([0, 0, 0, 30, 45, 15, 59, 1])}
        r = rng.random()
        if r < 0.04:
            f['sec'] = 60
        elif r < 0.07:
            f['zh'] = rng.choice([24, 25, 99])
        elif r < 0.10:
            f['year'] = rng.choice([10000, 12026, 99999])
            if f['dow'] is not None:
                f['dow'] = (calendar.weekday(f['year'], f['mon'], min(f['day'], 28)) if f['year'] <= 9999 else
                            weekday_big(f['year'], f['mon'], min(f['day'], 28)))
                f['day'] = min(f['day'], 28)
        elif r < 0.13 and f['dow'] is not None:
            f['dow'] = (f['dow'] + rng.randrange(1, 7)) % 7           # not the day implied by the date
        elif r < 0.16:
            f['day'] = rng.choice([0, 29, 30, 31, 32])
        elif r < 0.18:
            f['hour'], f['min'] = rng.choice([(24, 0), (23, 60), (25, 61)])
        elif r < 0.20:
            f['zm'] = rng.choice([60, 99])
        elif r < 0.22:
            f['sec'] = rng.choice([61, 62, 99])
        elif r < 0.24:
            f['year'] = rng.choice([1, 100, 999, 1000, 1899])
        lay = {'w0': (self.fws(True) if rng.random() < 0.06 else ''), 'dc': self.mask(), 'w1': self.fws(True), 'one': rng.random() < 0.5,
               'w2': self.fws(False), 'mc': self.mask(), 'w3': self.fws(False), 'w4': self.fws(False), 'w5': self.fws(False),
               'tr': rng.choice(['', '', '', ' ', ' (CET)', ' (Central (European) Time)', '\t(a\\)b)', ' ( )', '(x) (y)', ' x', '(', ' (a))'])}
        if rng.random() < 0.04:
            lay[rng.choice(['w2', 'w3', 'w4', 'w5'])] = ''               # a mandatory FWS missing
        return f, lay


def weekday_big(y, m, d):
    """Monday = 0, for years above 9999 (the calendar repeats every 400 years)."""
    return calendar.weekday(2000 + (y - 2000) % 400, m, d)


def flip(c):
    return c.lower() if c.isupper() else c.upper() if c.islower() else c


def recase(mask, s):
    return ''.join(flip(c) if i < len(mask) and mask[i] == '1' else c for i, c in enumerate(s))


def render(f, lay):
    """Independent of Spec.renderDate: the text of the fields with the layout choices."""
    s = ''
    if f['dow'] is not None:
        s += lay['w0'] + recase(lay['dc'], RFC_DAYS[f['dow']]) + ','
    s += lay['w1'] + (('%d' if lay['one'] and f['day'] < 10 else '%02d') % f['day']) + lay['w2']
    s += recase(lay['mc'], RFC_MONTHS[f['mon'] - 1]) + lay['w3'] + '%04d' % f['year'] + lay['w4']
    s += '%02d:%02d' % (f['hour'], f['min'])
    if f['sec'] is not None:
        s += ':%02d' % f['sec']
    s += lay['w5'] + ('+' if f['plus'] else '-') + '%02d%02d' % (f['zh'], f['zm']) + lay['tr']
    return s


def days_in_month(y, m):
    return calendar.monthrange(2000 + (y - 2000) % 400, m)[1]


def cfws_ok(s):
    d, i = 0, 0
    while i < len(s):
        c = s[i]
        if d == 0:
            if c in ' \t':
                pass
            elif c == '(':
                d = 1
            else:
                return False
        else:
            if c == '(':
                d += 1
            elif c == ')':
                d -= 1
            elif c == '\\':
                i += 1
                if i >= len(s) or not (33 <= ord(s[i]) <= 126 or s[i] in ' \t'):
                    return False
            elif not (33 <= ord(c) <= 126 or c in ' \t'):
                return False
        i += 1
    return d == 0


def well_formed(f, lay):
    """RFC 5322 3.3, grammar and semantic rules (independent of Spec.WellFormed)."""
    blank = lambda w: all(c in ' \t' for c in w)   # noqa: E731
    if not (blank(lay['w0']) and blank(lay['w1']) and all(lay[k] and blank(lay[k]) for k in ('w2', 'w3', 'w4', 'w5')) and cfws_ok(lay['tr'])):
        return False
    if not (f['year'] >= 1900 and 1 <= f['mon'] <= 12 and f['zh'] <= 99 and f['zm'] <= 59 and f['hour'] <= 23 and f['min'] <= 59):
        return False
    if f['sec'] is not None and f['sec'] > 60:
        return False
    if not 1 <= f['day'] <= days_in_month(f['year'], f['mon']):
        return False
    if f['dow'] is not None and f['dow'] != weekday_big(f['year'], f['mon'], f['day']):
        return False
    return True


def civil(f):
    y = f['year']
    base = calendar.timegm((2000 + (y - 2000) % 400, f['mon'], 1, 0, 0, 0)) + (y - (2000 + (y - 2000) % 400)) // 400 * 146097 * 86400
    return base + (f['day'] - 1) * 86400 + f['hour'] * 3600 + f['min'] * 60 + (f['sec'] or 0)


def instant(f):
    return civil(f) - (1 if f['plus'] else -1) * (3600 * f['zh'] + 60 * f['zm'])


def covered(f, lay):
    return ((f['dow'] is not None or f['sec'] is not None) and f['year'] <= 9999 and f['zh'] <= 23 and
            (f['dow'] is None or lay['w0'] == '') and civil(f) != -1)


def rfc_request(f, lay):
    n = lambda v: A('' if v is None else str(v))   # noqa: E731
    return ('rfcdate', n(f['dow']), n(f['day']), n(f['mon']), n(f['year']), n(f['hour']), n(f['min']), n(f['sec']), A('+' if f['plus'] else '-'),
            n(f['zh']), n(f['zm']), A(lay['w0']), A(lay['dc']), A(lay['w1']), A('1' if lay['one'] else '0'), A(lay['w2']), A(lay['mc']),
            A(lay['w3']), A(lay['w4']), A(lay['w5']), A(lay['tr']))


def stage(rep, rng, h, env, sc, n, tzs):
    """Returns a dict of counts for the coverage record."""
    g = Gen(rng)
    fmts = table_formats(sc.src)
    if not fmts:
        raise vlib.CheckError('formats[] of time.c not found')
    usable = [f for f in fmts if known_format(f)]
    reqs = []
    texts = []
    for _ in range(n):
        s = g.date()
        r = rng.random()
        if r < 0.25:
            s = g.mutate(s)
        texts.append(A(s))
    # the layouts of the table on the structured texts; the extra formats on the texts and on single tokens
    for s in texts:
        for f in (usable if rng.random() < 0.5 else [rng.choice(usable)] if usable else []):
            reqs.append(('strp', A(f), s))
        reqs.append(('timeparse', s))
        now = rng.randrange(0, 2145916800)
        reqs.append(('tparsec', s + A(g.zone()), A(str(now)), A(rng.choice(tzs))))
    for _ in range(n // 2):
        f = rng.choice(EXTRA_FORMATS)
        od = rng.random() < 0.35
        tok = rng.choice([g.name(DAYS, od), g.name(MONTHS, od), g.num(1, 31, 2, od), g.year(od), g.num(0, 23, 2, od), g.num(0, 61, 2, od),
                          g.num(0, 23, 2) + ':' + g.num(0, 59, 2, od) + ':' + g.num(0, 61, 2), g.name(DAYS) + g.name(MONTHS, od),
                          g.num(1, 31, 2) + g.ws() + g.name(MONTHS) + g.ws(od) + g.year(), g.date()])
        tok = rng.choice(['', '', '', ' ', '\t ']) + tok + rng.choice(['', '', ' ', 'x', '9'])
        reqs.append(('strp', A(f), A(tok).replace(b'\x00', b'')))
    d = vlib.Differential(rep, [h], env=env, spec_ops={'strp', 'timeparse', 'tparsec'}, name='h_expr')
    impl, model, spec = d.run(reqs, shrink=False)
    # mdsort runs with the LC_CTYPE of its environment (isspace / tolower inside strptime follow it): a third of the requests once more with the
    # harness under the UTF-8 locale of this image, against the same model (no specification side: the driver's FFI stays in the C locale)
    d8 = vlib.Differential(rep, [h], env=dict(env, LC_ALL='C.utf8'), spec_ops=set(), name='h_expr under LC_ALL=C.utf8')
    d8.run([r for k, r in enumerate(reqs) if k % 3 == 0], shrink=False)
    d8.conclude('strptime / timeparse / time_parse under LC_ALL=C.utf8 <-> Model/Strptime.lean')
    stat = {'strptime_requests': len(reqs), 'strptime_requests_utf8_locale': d8.evals, 'strptime_accepted': sum(1 for r, i in zip(reqs, impl) if r[0] == 'strp' and i.startswith('OK')),
            'timeparse_accepted': sum(1 for r, i in zip(reqs, impl) if r[0] == 'timeparse' and i.startswith('OK')),
            'tparsec_accepted': sum(1 for r, i in zip(reqs, impl) if r[0] == 'tparsec' and i.startswith('OK')),
            'layouts': fmts, 'layouts_outside_the_interpreter': [f for f in fmts if not known_format(f)]}

    # RFC 5322 date-times: Spec.renderDate / Spec.instant / Spec.WellFormed against the independent rendering above, then time_parse
    cases = [g.rfc() for _ in range(n)]
    sres = vlib.run_batch([vlib.driver_path()], ['S ' + d.line(rfc_request(f, lay)) for f, lay in cases])
    treqs, keep = [], []
    spec_bad = []
    for (f, lay), s in zip(cases, sres):
        text, wf, ins = render(f, lay), well_formed(f, lay), instant(f)
        want = '%s %s %d' % ('W' if wf else 'N', vlib.hexs(A(text)), ins)
        if s != want:
            spec_bad.append({'fields': f, 'layout': lay, 'Spec': s, 'reference': want})
            continue
        now = rng.randrange(0, 2145916800)
        treqs.append(('tparsec', A(text), A(str(now)), A(rng.choice(tzs))))
        keep.append((f, lay, text, wf, ins))
    if spec_bad:
        rep.violation({'obligation': 'Spec/Rfc5322Date.lean (renderDate, instant, WellFormed) against the reference rendering of tools/c15date.py',
                       'disagreements': len(spec_bad), 'examples': spec_bad[:5]}, False)
    impl2, model2, _spec2 = d.run(treqs, shrink=False)
    ncov = nunc = nout = 0
    for (f, lay, text, wf, ins), r, i, m in zip(keep, treqs, impl2, model2):
        if wf and covered(f, lay):
            ncov += 1
            if i != 'OK %d' % ins:
                rep.finding('unlisted', {'harness': 'h_expr', 'request': d.line(r), 'date': text, 'fields': f, 'implementation': i, 'model': m,
                                         'specification': 'OK %d' % ins,
                                         'what': 'a date-time of RFC 5322 3.3 inside Covered (theorem C15_rfc5322_end_to_end) is not parsed to the instant the RFC defines'})
        elif wf and f['dow'] is None and f['sec'] is None and f['year'] <= 9999:
            nunc += 1
            if i != 'NONE' and m == 'NONE':
                pass        # reported as a correspondence mismatch by d.run
        else:
            nout += 1
    stat.update({'rfc_datetimes': len(cases), 'rfc_wellformed_covered': ncov, 'rfc_wellformed_no_dow_no_seconds_rejected': nunc,
                 'rfc_outside_grammar_or_covered': nout})
    return d, stat
