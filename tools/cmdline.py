"""Command-line and environment families: `main` of mdsort.c before `config_parse` on the real binary.

An argument vector is generated from the option alphabet of mdsort(1) - single options, clusters (`-dn`, `-nfFILE`), `-f FILE` /
`-fFILE`, repeated `-f`, every shape of `-D` (`a=b`, `a=`, `=b`, `a`, `a=b=c`, a keyword as name, `path`, the same name twice), `--`,
the operand `-`, other and extra operands, options after operands, unknown options alone / clustered / long, missing option
arguments, the empty string, `-v` zero to three times - and run on a small maildir scenario under the shim.  Three parties answer:

* the REAL binary: exit status, stderr, the traced calls, the final tree;
* a REFERENCE written from the manual page with Python's own `getopt` module (`gnu_getopt`: GNU permutation, what glibc does;
  `getopt`: POSIX order, what glibc does under POSIXLY_CORRECT) - independent of the Lean model;
* the MODEL: `M args` (Model.parseArgs) and `M conformargs` (Model.mainArgs = parseArgs, readenv, defaultconf, mainText followed along
  the observed trace; exit status and final tree compared).

Documented behaviour, judged without the model: a refused command line (usage, `-D` errors) exits 1 with the matching message,
issues NO traced call (the configuration file is not opened) and changes nothing; `-n` opens nothing but the configuration file and
changes nothing; `-d` (without `-`) changes nothing; `-v` never changes the exit status or the final tree.

The environment family runs the same machinery with HOME unset / empty (password entry), TMPDIR unset / empty (`_PATH_TMP`; the
stdin spool is then created under /tmp and must be gone afterwards), TZ unset / empty / a zone / garbage / over-long, POSIXLY_CORRECT.
"""
import concurrent.futures as cf
import getopt
import os
import pwd
import random
import re

import proc
import vlib
import world
import worldscen as ws

R = '@R@'
OPTSTRING = 'D:df:nv'          # mdsort(1): mdsort [-dnv] [-D macro=value] [-f file] [-]

CONF = ('maildir "%s/src" {\n\tmatch header "X-Id" /^1$/ move "%s/dst"\n\tmatch all flag !new\n}\n'
        'stdin {\n\tmatch all move "%s/dst2"\n}\n' % (R, R, R))
CONFM = 'maildir "%s/src" {\n\tmatch all move "%s/${a}"\n}\nstdin {\n\tmatch all move "%s/${a}"\n}\n' % (R, R, R)
CONFK = 'maildir "%s/src" {\n\tmatch all move "%s/${match}"\n}\n' % (R, R)
CONFREL = 'maildir "src" {\n\tmatch all move "dst"\n}\n'
ABSENT = '.mdsort-verif-absent-home'
CONFTILDE = 'maildir "~/%s/md" {\n\tmatch all move "%s/dst"\n}\n' % (ABSENT, R)


def tree():
    t = ws.base_tree()
    t['confm'] = CONFM.encode()
    t['confk'] = CONFK.encode()
    t['confrel'] = CONFREL.encode()
    t['conftilde'] = CONFTILDE.encode()
    t['home/.mdsort.conf'] = CONF.encode()
    return t


def path_tmp():
    try:
        m = re.search(r'#define\s+_PATH_TMP\s+"([^"]*)"', open('/usr/include/paths.h').read())
        if m:
            return m.group(1).encode()
    except OSError:
        pass
    return b'/tmp/'


# ------------------------------------------------------------------ the reference (manual page + Python's getopt)

def _py_getopt(argv, posix):
    saved = os.environ.pop('POSIXLY_CORRECT', None)
    try:
        return (getopt.getopt if posix else getopt.gnu_getopt)(list(argv), OPTSTRING)
    finally:
        if saved is not None:
            os.environ['POSIXLY_CORRECT'] = saved


def reference(argv, posix):
    """argv: list of latin-1 str.  -> ('usage',) | ('macrosep', arg) | ('macroinv', name) |
    ('ok', dict(d, n, s, f, v, D=[(name, value)]))"""
    failed = False
    try:
        opts, operands = _py_getopt(argv, posix)
    except getopt.GetoptError:
        failed = True
        # the options `main` has already handled when getopt reports the error: those of the longest prefix that parses
        opts = []
        for j in range(len(argv) - 1, -1, -1):
            try:
                opts, _ = _py_getopt(argv[:j], posix)
                break
            except getopt.GetoptError:
                continue
        operands = []
    o = dict(d=False, n=False, s=False, f=None, v=0, D=[])
    for k, a in opts:
        if k == '-D':
            if '=' not in a:
                return ('macrosep', a)
            name, value = a.split('=', 1)
            if name == 'path' or name in [x for x, _ in o['D']]:
                return ('macroinv', name)
            o['D'].append((name, value))
        elif k == '-d':
            o['d'] = True
        elif k == '-n':
            o['n'] = True
        elif k == '-f':
            o['f'] = a
        elif k == '-v':
            o['v'] += 1
    if failed:
        return ('usage',)
    if operands:
        if operands[0] != '-' or len(operands) > 1:
            return ('usage',)
        o['s'] = True
    if o['d'] and o['v'] < 1:
        o['v'] = 1
    return ('ok', o)


def parse_model(ans):
    if ans == 'USAGE':
        return ('usage',)
    m = re.match(r'^(MACROSEP|MACROINV) (\S+)$', ans)
    if m:
        return ('macrosep' if m.group(1) == 'MACROSEP' else 'macroinv', vlib.unhex(m.group(2)).decode('latin-1'))
    m = re.match(r'^OK d=(\d) n=(\d) s=(\d) f=(\S+) v=(\d+) D(.*)$', ans)
    if not m:
        return ('bad', ans[:200])
    defs = []
    for w in m.group(6).split():
        k, v = w.split('=')
        defs.append((vlib.unhex(k).decode('latin-1'), vlib.unhex(v).decode('latin-1')))
    f = None if m.group(4) == '~' else vlib.unhex(m.group(4)).decode('latin-1')
    return ('ok', dict(d=m.group(1) == '1', n=m.group(2) == '1', s=m.group(3) == '1', f=f, v=int(m.group(5)), D=defs))


def classify_real(status, err):
    e = err.decode('latin-1')
    if 'usage: mdsort' in e:
        return ('usage',)
    m = re.search(r'missing macro separator: (.*)$', e, re.M)
    if m:
        return ('macrosep', m.group(1))
    m = re.search(r'invalid macro: (.*)$', e, re.M)
    if m:
        return ('macroinv', m.group(1))
    return ('ok', None)


# ------------------------------------------------------------------ generators

FLAGS = [['-d'], ['-n'], ['-v'], ['-vv'], ['-dn'], ['-nd'], ['-vd'], ['-dnv'], ['-vvv'], ['-nn']]
CONFS = [['-f', R + '/conf'], ['-f' + R + '/conf'], ['-f', 'conf'], ['-fconf'], ['-nf', R + '/conf'], ['-dfconf'], ['-f', R + '/missing'], ['-f', ''],
         ['-f', R + '/confm'], ['-f', R + '/confk'], ['-f', 'confrel'], ['-f', './conf'], ['-f', '--'], ['-f', '-']]
DEFS = [['-D', 'a=dst'], ['-Da=dst'], ['-D', 'a='], ['-D', '=b'], ['-D', 'a'], ['-Da'], ['-D', 'a=b=c'], ['-D', 'match=dst'], ['-D', 'path=x'],
        ['-dDa=dst2'], ['-D', 'b=unused'], ['-D', ''], ['-D', 'a=dst2'], ['-D', '--'], ['-D', '='], ['-nD', 'a=dst'], ['-D', 'a b=c'],
        ['-D', 'maildir=x']]
SPECIAL = [['--'], ['-'], ['x'], [''], ['-x'], ['-dx'], ['-d-'], ['--foo'], ['-:'], ['-f'], ['-D'], ['-h'], ['-V'], ['--help'], ['--', '-n'], ['-nf'],
           ['--', '-'], ['-', '-'], ['-', 'x'], ['-;'], ['-?'], ['-W', 'x'], ['-dD'], ['-1']]


def systematic():
    out = []
    base = ['-f', R + '/conf']
    for g in (FLAGS, DEFS, SPECIAL):
        for t in g:
            out.append(t)                  # alone: the default configuration ($HOME/.mdsort.conf)
            out.append(base + t)
            out.append(t + base)
    for t in CONFS:
        out.append(t)
        out.append(['-n'] + t)
        out.append(t + ['-d'])
        out.append(t + ['-'])
    mb = ['-f', R + '/confm']
    for t in DEFS:
        out.append(mb + t)
        out.append(t + mb + ['-'])
        out.append(t + ['-D', 'a=dst'] + mb)
        out.append(['-D', 'a=dst'] + t + mb)
    kb = ['-f', R + '/confk']
    out.append(kb + ['-D', 'match=dst'])
    out.append(kb + ['-Dmatch=dst2', '-v'])
    # options after operands, `--`, extra operands
    for ops in (['-'], ['x'], ['-', '-'], ['-', 'x'], ['']):
        for t in (['-n'], ['-d'], ['-v'], ['-x'], ['-D', 'a'], ['-f', R + '/conf']):
            out.append(base + ops + t)
            out.append(ops + base + t)
            out.append(base + ['--'] + ops + t)
    # -v x 0..3 on runs that do something
    for k in range(4):
        for tail in ([], ['-'], ['-d'], ['-n']):
            out.append(base + ['-v'] * k + tail)
            out.append((['-' + 'v' * k] if k else []) + base + tail)
    # repeated -f: the last one counts
    out.append(['-f', R + '/missing', '-f', R + '/conf'])
    out.append(['-f', R + '/conf', '-f', R + '/missing'])
    out.append(['-f', R + '/conf', '-f', R + '/confm', '-D', 'a=dst2'])
    return out


def random_argv(rng):
    n = rng.choice([1, 2, 2, 3, 3, 4, 5, 6])
    out = []
    for _ in range(n):
        g = rng.choice([FLAGS, FLAGS, CONFS, CONFS, DEFS, DEFS, SPECIAL])
        out += rng.choice(g)
    if rng.random() < 0.5:
        out = ['-f', R + rng.choice(['/conf', '/confm'])] + out
    return out


PWDIR = '@PW@'                     # the home directory of the password entry of the user running the check

ENVCASES = [
    # (name, argv, environment changes (None = unset), documented expectations)
    #   opendir: this directory is the first one opened; fopen: this file is the first one opened; early: exit 1 before any call with this
    #   word on stderr; delivered: the message on standard input ends in dst2/new; spool: mkdtemp below this directory; same: exit 0 and the
    #   same final tree as the run with the plain environment
    ('home-unset-tilde', ['-f', R + '/conftilde'], {'HOME': None}, {'opendir': PWDIR + '/' + ABSENT + '/md/new', 'status': 1}),
    ('home-unset-tilde-dry', ['-d', '-f', R + '/conftilde'], {'HOME': None}, {'opendir': PWDIR + '/' + ABSENT + '/md/new', 'status': 1}),
    ('home-empty-tilde', ['-f', R + '/conftilde'], {'HOME': ''}, {'opendir': PWDIR + '/' + ABSENT + '/md/new', 'status': 1}),
    ('home-unset-default-conf', ['-n'], {'HOME': None}, {'fopen': PWDIR + '/.mdsort.conf', 'status': 1}),
    ('home-empty-default-conf', ['-n'], {'HOME': ''}, {'fopen': PWDIR + '/.mdsort.conf', 'status': 1}),
    ('home-unset-f', ['-f', R + '/conf'], {'HOME': None}, {'same': True}),
    # a user without password entry: HOME is the only source (the run is started under a numeric uid that has no entry; root only)
    ('home-unset-no-passwd-entry', ['-n', '-f', R + '/conf'], {'HOME': None}, {'nopw': True, 'early': 'cannot find home directory'}),
    ('home-empty-no-passwd-entry', ['-f', R + '/conf', '-'], {'HOME': ''}, {'nopw': True, 'early': 'cannot find home directory'}),
    ('home-set-no-passwd-entry', ['-n', '-f', R + '/conf'], {}, {'nopw': True, 'status': 0}),
    # readenv cuts the host name at its first dot: generated names are the same as with the short name
    ('hostname-with-domain', ['-f', R + '/conf'], {'VSHIM_HOST': 'host.example.org'}, {'same': True}),
    ('hostname-with-domain-stdin', ['-f', R + '/conf', '-'], {'VSHIM_HOST': 'host.example.org'}, {'delivered': True, 'status': 0, 'names': r'^1790000000\.4242_\d+\.host(:2,[A-Za-z]*)?$'}),
    ('tmpdir-unset-stdin', ['-f', R + '/conf', '-'], {'TMPDIR': None, 'VSHIM_TMPNAMES': '0'}, {'spool': '@TMP@', 'delivered': True, 'status': 0}),
    ('tmpdir-empty-stdin', ['-f', R + '/conf', '-'], {'TMPDIR': '', 'VSHIM_TMPNAMES': '0'}, {'spool': '@TMP@', 'delivered': True, 'status': 0}),
    ('tmpdir-unset-stdin-dry', ['-d', '-f', R + '/conf', '-'], {'TMPDIR': None, 'VSHIM_TMPNAMES': '0'}, {'spool': '@TMP@', 'status': 0}),
    ('tmpdir-unset-stdin-syntax', ['-n', '-f', R + '/conf', '-'], {'TMPDIR': None, 'VSHIM_TMPNAMES': '0'}, {'status': 0}),
    ('tmpdir-unset-maildir', ['-f', R + '/conf'], {'TMPDIR': None}, {'same': True}),
    ('tz-unset', ['-f', R + '/conf'], {'TZ': None}, {'same': True}),
    ('tz-empty', ['-f', R + '/conf'], {'TZ': ''}, {'same': True}),
    ('tz-utc', ['-f', R + '/conf'], {'TZ': 'UTC'}, {'same': True}),
    ('tz-zone', ['-f', R + '/conf'], {'TZ': 'Europe/Stockholm'}, {'same': True}),
    ('tz-posix', ['-f', R + '/conf'], {'TZ': 'EST5EDT'}, {'same': True}),
    ('tz-garbage', ['-f', R + '/conf'], {'TZ': ':no/such zone'}, {'same': True}),
    ('tz-255', ['-f', R + '/conf'], {'TZ': 'A' * 255}, {'same': True}),
    ('tz-256', ['-f', R + '/conf'], {'TZ': 'A' * 256}, {'early': 'TZ'}),
    ('tz-256-stdin', ['-f', R + '/conf', '-'], {'TZ': 'A' * 256}, {'early': 'TZ'}),
    ('tz-256-usage-first', ['-f', R + '/conf', '-x'], {'TZ': 'A' * 256}, {'early': 'usage'}),
    ('posix-operand-then-option', ['-f', R + '/conf', '-', '-n'], {'POSIXLY_CORRECT': '1'}, {'early': 'usage'}),
    ('posix-option-then-operand', ['-n', '-f', R + '/conf', '-'], {'POSIXLY_CORRECT': '1'}, {'status': 0}),
    ('posix-empty-value', ['-f', R + '/conf', '-', '-n'], {'POSIXLY_CORRECT': ''}, {'early': 'usage'}),
    ('posix-dashdash', ['-f', R + '/conf', '--', '-'], {'POSIXLY_CORRECT': '1'}, {'delivered': True, 'status': 0}),
]


def check_expect(exp, r, calls, root, PW, PTMP, plain):
    """The documented expectations of an environment case -> list of complaints."""
    out = []
    sub = lambda t: t.replace(PWDIR, PW or '?').replace('@TMP@', PTMP.decode().rstrip('/'))
    first = lambda n: ([proc.unescape(c['args'].get('path', c['args'].get('template', ''))).decode('latin-1') for c in calls if c['name'] == n] + [None])[0]
    if 'status' in exp and r.status != exp['status']:
        out.append('exit status %r, expected %r' % (r.status, exp['status']))
    if 'opendir' in exp and first('opendir') != sub(exp['opendir']):
        out.append('first directory opened is %r, expected %r (~ is the home directory of the password entry)' % (first('opendir'), sub(exp['opendir'])))
    if 'fopen' in exp and first('fopen') != sub(exp['fopen']):
        out.append('configuration file opened is %r, expected %r' % (first('fopen'), sub(exp['fopen'])))
    if 'early' in exp and (r.status != 1 or calls or exp['early'].encode() not in r.err):
        out.append('expected exit 1 before any call with %r on stderr: exit %r, %d calls, stderr %r' % (exp['early'], r.status, len(calls), r.err[-120:]))
    if 'spool' in exp:
        t = first('mkdtemp')
        if t is None or os.path.dirname(os.path.normpath(t)) != os.path.normpath(sub(exp['spool'])):
            out.append('spool template %r, expected one below %r' % (t, sub(exp['spool'])))
    if exp.get('delivered'):
        got = [k for k, v in r.final.items() if k.startswith('dst2/new/') and v[0] == 'file' and ws.msg_id(v[1]) == 5]
        if len(got) != 1:
            out.append('the message on standard input is not in dst2/new: %r' % sorted(k for k in r.final if k.startswith('dst'))[:6])
    if 'names' in exp:
        bad = [k for k in r.final if k.startswith('dst2/new/') and not re.match(exp['names'], k.rsplit('/', 1)[1])]
        if bad:
            out.append('generated names %r do not have the form %s' % (bad[:3], exp['names']))
    if exp.get('same') and plain is not None and (r.status != plain[0] or tree_sig(r.final) != plain[1]):
        out.append('exit status / final tree differ from the run with the plain environment (exit %r / %r)' % (r.status, plain[0]))
    return out


# ------------------------------------------------------------------ one case

def _strip_v(argv):
    """The same command line without its `v` letters (clusters keep their other letters); None when that cannot be done word by word."""
    out = []
    skip = False
    for a in argv:
        if skip:
            out.append(a)
            skip = False
            continue
        if a == '--':
            return None
        m = re.match(r'^-([dnv]+)$', a)
        if m:
            rest = m.group(1).replace('v', '')
            if rest:
                out.append('-' + rest)
            continue
        if a in ('-f', '-D'):
            skip = True
        out.append(a)
    return out


def tree_sig(final):
    return {k: (v[0], v[1]) for k, v in final.items()}


def one_case(tools, W, name, argv, envx, PW, PTMP, expect=None):
    """-> dict(name, argv, problems=[(kind, text)], model, real, ref, ncalls...)"""
    scen = proc.Scenario(tools, CONF, tree(), stdin=ws.msg(5), env=envx, subst_tree=True)
    try:
        root = scen.root
        rargv = [a.replace(R, root) for a in argv]
        posix = 'POSIXLY_CORRECT' in envx and envx['POSIXLY_CORRECT'] is not None
        before = tree_sig(scen.initial)
        uid = None
        if expect and expect.get('nopw'):
            uid = 54321
            while True:
                try:
                    pwd.getpwuid(uid)
                    uid += 1
                except KeyError:
                    break
            PW = None
        # (looking up a uid that has no entry makes the C library itself search files and sockets: those calls are not mdsort's, so that run is not traced)
        r = scen.run(argv=rargv, uid=uid, trace=uid is None or bool(envx.get('HOME', 'set')))
        if vlib.COV_OUT:
            # measurement runs of tools/cov.py only: the shim stops tracing at exit from its first traced call on; a run that ends before
            # any call leaves the exit-time file traffic of the coverage runtime in its trace
            for i_, t_ in enumerate(r.trace):
                if t_['kind'] == 'call' and t_['name'] == 'open' and t_['args'].get('path', '').endswith('.gcda'):
                    r.trace = r.trace[:i_]
                    break
        problems = []
        ref = reference(rargv, posix)
        real = classify_real(r.status, r.err)
        calls = r.calls()
        changed = sorted(k for k in set(before) | set(tree_sig(r.final)) if before.get(k) != tree_sig(r.final).get(k))
        # ---- documented behaviour against the reference
        if ref[0] != 'ok':
            if real != ref:
                problems.append(('spec', 'the manual page reading (Python getopt) says %r, mdsort reported %r (exit %r, stderr %r)' %
                                 (ref, real, r.status, r.err[-200:])))
            if r.status != 1:
                problems.append(('spec', 'a refused command line must exit with status 1, got %r' % (r.status,)))
            if calls:
                problems.append(('spec', 'a refused command line issued calls: %s' % [c['raw'][:80] for c in calls[:4]]))
            if changed or r.helper:
                problems.append(('spec', 'a refused command line changed %s' % changed[:4]))
        else:
            o = ref[1]
            if real[0] != 'ok':
                problems.append(('spec', 'a documented command line is refused: %r (exit %r)' % (real, r.status)))
            if o['n'] and real[0] == 'ok':
                other = [c for c in calls if c['name'] not in ('fopen', 'fclose')]
                if other or changed or r.helper:
                    problems.append(('spec', '-n: calls besides the configuration file %s, changed %s' % ([c['raw'][:80] for c in other[:3]], changed[:3])))
            if o['d'] and not o['s'] and (changed or r.helper):
                problems.append(('spec', '-d: the run changed %s' % changed[:4]))
            if real[0] == 'ok':
                # which configuration file: the last -f, else $HOME/.mdsort.conf (of the password entry when HOME is unset or empty)
                home = envx.get('HOME', os.path.join(root, 'home')) if 'HOME' in envx else os.path.join(root, 'home')
                if not home:
                    home = PW
                want = o['f'] if o['f'] is not None else (home + '/.mdsort.conf' if home is not None else None)
                fo = [proc.unescape(c['args'].get('path', '')).decode('latin-1') for c in calls if c['name'] == 'fopen']
                if want is not None and fo[:1] != [want] and not re.search(rb'readenv: |defaultconf', r.err):
                    problems.append(('spec', 'configuration file: expected fopen of %r first, traced %r' % (want, fo[:2])))
        if expect:
            plain = None
            if expect.get('same'):
                scen.reset()
                saved, scen.env_extra = scen.env_extra, {}
                rp = scen.run(argv=rargv, trace=False)
                scen.env_extra = saved
                plain = (rp.status, tree_sig(rp.final))
            for c_ in check_expect(expect, r, calls, root, PW, PTMP, plain):
                problems.append(('spec', c_))
        # ---- the model
        m_ans = vlib.run_batch(W.driver, ['M args %s %s' % ('30' if posix else '31', ' '.join(world.hx(a.encode('latin-1')) for a in rargv))])[0]
        model = parse_model(m_ans)
        if model != ref:
            problems.append(('model-vs-reference', 'Model.parseArgs says %r, the reference %r' % (model, ref)))
        if (model[0] == 'ok') != (real[0] == 'ok') or (model[0] != 'ok' and model != real):
            problems.append(('model-vs-real', 'Model.parseArgs says %r, mdsort reported %r' % (model, real)))
        # conformance of the whole run with Model.mainArgs
        conftext = b''
        if model[0] == 'ok':
            home = envx['HOME'] if 'HOME' in envx else os.path.join(root, 'home')
            hh = home if home else PW
            cp = model[1]['f'] if model[1]['f'] is not None else ((hh or '') + '/.mdsort.conf')
            full = cp if os.path.isabs(cp) else os.path.join(root, cp)
            try:
                if os.path.isfile(full) and (full.startswith(root + '/') or cp.startswith(root)):
                    conftext = open(full, 'rb').read()
            except OSError:
                pass
        E = lambda k, d: (envx[k].encode('latin-1') if envx[k] is not None else None) if k in envx else d
        raw = (E('HOME', os.path.join(root, 'home').encode()), PW.encode() if PW is not None else None,
               E('TMPDIR', os.path.join(root, 'tmp').encode()), E('TZ', None), PTMP)
        relative = bool(conftext) and root.encode() not in conftext and b'~' not in conftext
        req, tr, notes = W.request_args(scen, r, [a.encode('latin-1') for a in rargv], raw, conftext, permute=not posix, relative=relative)
        ans = W.verdict([req])[0]
        kind, detail = world.compare(scen, r, ans)
        if kind != 'ok':
            problems.append(('conform', '%s: %s' % (kind, detail[:300].replace(root, R))))
        # ---- nothing of the run remains outside the sandbox (spool under _PATH_TMP)
        for c in calls:
            if c['name'] == 'mkdtemp' and not c['errno']:
                p = proc.unescape(c['result'])
                if not p.startswith(root.encode()) and os.path.lexists(p):
                    problems.append(('spec', 'the spool directory %r is still there after the run' % p))
                    import shutil
                    shutil.rmtree(p, ignore_errors=True)
        # ---- -v changes nothing but stderr
        vinfo = None
        sv = _strip_v(rargv) if ref[0] == 'ok' else None
        if sv is not None and sv != rargv and reference(sv, posix)[0] == 'ok':
            scen.reset()
            r2 = scen.run(argv=sv, trace=False)
            if r2.status != r.status or tree_sig(r2.final) != tree_sig(r.final):
                problems.append(('spec', '-v changes the run: without it exit %r, with it %r; final trees equal: %s' %
                                 (r2.status, r.status, tree_sig(r2.final) == tree_sig(r.final))))
            vinfo = len(rargv) - len(sv)
        return {'name': name, 'argv': [a.replace(root, R) for a in rargv], 'env': {k: (v if v is None or len(v) < 40 else v[:20] + '...') for k, v in envx.items()},
                'status': r.status, 'stderr': r.err[-200:].decode('latin-1').replace(root, R), 'reference': ref, 'model': model, 'real': real,
                'ncalls': len(calls), 'changed': len(changed), 'conform': kind, 'vcompared': vinfo is not None,
                'problems': [(k, t.replace(root, R)) for k, t in problems]}
    finally:
        scen.cleanup()


def stage(rep, sc, tools, W=None, rng=None, accepted_only=False):
    """Run the families; report failing inputs (the documented behaviour is violated) and broken correspondences.  Returns a summary.
    accepted_only: only the command lines the reference accepts (which mode a run is in: the C05 share of the family)."""
    rng = rng or random.Random(rep.seed * 7919 + 13)
    W = W or world.WorldCheck(sc, tools)
    try:
        PW = pwd.getpwuid(os.getuid()).pw_dir
    except KeyError:
        PW = None
    PTMP = path_tmp()
    cases = [('sys-%d' % i, a, {}, None) for i, a in enumerate(systematic())]
    nrand = 150 if rep.tier == 'quick' else 6000
    for i in range(nrand):
        envx = {}
        if rng.random() < 0.15:
            envx['POSIXLY_CORRECT'] = '1'
        cases.append(('rnd-%d' % i, random_argv(rng), envx, None))
    for name, argv, envx, expect in ENVCASES:
        if 'default-conf' in name and PW is not None and os.path.exists(PW + '/.mdsort.conf'):
            continue                       # never run somebody's real configuration
        if 'tilde' in name and PW is not None and os.path.exists(os.path.join(PW, ABSENT)):
            continue
        if expect.get('nopw') and os.getuid() != 0:
            continue
        cases.append(('env-' + name, argv, envx, expect))
    if accepted_only:
        cases = [c for c in cases if reference([a.replace(R, '/r') for a in c[1]], c[2].get('POSIXLY_CORRECT') is not None)[0] == 'ok']
    with cf.ThreadPoolExecutor(vlib.NCPU) as ex:
        res = list(ex.map(lambda c: one_case(tools, W, c[0], c[1], c[2], PW, PTMP, c[3]), cases))
    nspec = ncorr = 0
    for r_ in res:
        spec = [t for k, t in r_['problems'] if k == 'spec']
        corr = [t for k, t in r_['problems'] if k != 'spec']
        if spec:
            nspec += 1
            rep.finding('unlisted', {'kind': 'command line / environment', 'argv': r_['argv'], 'env': r_['env'], 'status': r_['status'],
                                     'stderr': r_['stderr'], 'what': spec[:4]})
        elif corr:
            ncorr += 1
    bad = [r_ for r_ in res if any(k != 'spec' for k, _ in r_['problems'])]
    if bad and not rep.violations:
        rep.violation({'obligation': 'correspondence main() of mdsort.c (getopt loop, operands, readenv, defaultconf) <-> Model/Opts.lean '
                                     'parseArgs / mainArgs', 'disagreements': len(bad),
                       'examples': [{k: b[k] for k in ('name', 'argv', 'env', 'status', 'stderr', 'reference', 'model', 'real', 'problems')} for b in bad[:6]]}, False)
    kinds = {}
    for r_ in res:
        k = r_['reference'][0] if r_['reference'][0] != 'ok' else 'ok' + ''.join(x for x in 'dns' if r_['reference'][1][x])
        kinds[k] = kinds.get(k, 0) + 1
    return {
        'cases': len(res), 'systematic': len([c for c in cases if c[0].startswith('sys-')]), 'random': len([c for c in cases if c[0].startswith('rnd-')]),
        'environment': len([c for c in cases if c[0].startswith('env-')]),
        'by_reference_outcome': kinds, 'refused': len([r_ for r_ in res if r_['reference'][0] != 'ok']),
        'refused_without_any_call': len([r_ for r_ in res if r_['reference'][0] != 'ok' and r_['ncalls'] == 0]),
        'posix_order': len([r_ for r_ in res if 'POSIXLY_CORRECT' in r_['env']]),
        'v_pairs_compared': len([r_ for r_ in res if r_['vcompared']]),
        'conforming': len([r_ for r_ in res if r_['conform'] == 'ok']), 'failing_inputs': nspec, 'correspondence_only': ncorr,
        'rule': 'argument vectors over the option alphabet (clusters, joined / separate arguments, repeated -f, every -D shape, --, -, other and '
                'extra operands, options after operands, unknown / long options, missing arguments, empty strings, -v x 0..3) and environments '
                '(HOME / TMPDIR / TZ unset, empty, over-long; POSIXLY_CORRECT) on the real binary; outcome class and options compared between '
                'mdsort (stderr, exit status), a reference from the manual page over Python getopt, and Model.parseArgs; the traced run '
                'followed by Model.mainArgs (exit status, final tree); refused => exit 1, no call, nothing changed; -n => only the '
                'configuration file; -d => nothing changed; -v => same exit status and final tree',
        'samples': [{k: r_[k] for k in ('argv', 'status', 'reference', 'ncalls')} for r_ in res[:3]],
    }
