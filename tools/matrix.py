#!/usr/bin/env python3
"""Run every seeded change (seeded/<id>/patch.diff) against the check of its property.

Each change is applied to a scratch git worktree of /repo's HEAD under /tmp (never to /repo), the
check is pointed at it with VERIF_REPO and its evidence at a scratch directory with VERIF_EVID, and the
worktree is removed afterwards.  Writes seeded/MATRIX.json and seeded/MATRIX.md.

  matrix.py [--tier quick] [--only C07-m1,...] [--jobs 2] [--props C01,C02]   (extra props: also run these checks on every mutant)

seeded/<id>/meta.json may carry an optional list `also` of further properties whose checks are expected to catch the change too
(e.g. C02-r6: `"also": ["C14", "C08"]`): those checks are run on that mutant as well and get their own lines in MATRIX.md and an
`also caught by` column; the primary column (the check of `property`) and the list of misses are computed as before.
"""
import argparse, json, os, re, shutil, subprocess, sys, tempfile, time
import concurrent.futures as cf
ROOT = os.path.dirname(os.path.dirname(os.path.abspath(__file__)))
SEEDED = os.path.join(ROOT, 'seeded')

def run_one(name, tier, extra):
    d = os.path.join(SEEDED, name)
    meta = json.load(open(os.path.join(d, 'meta.json')))
    prop = meta['property']
    wt = tempfile.mkdtemp(prefix='mw-%s-' % name, dir='/tmp')
    os.rmdir(wt)
    res = {'name': name, 'property': prop, 'checks': {}}
    try:
        subprocess.run(['git', '-C', '/repo', 'worktree', 'add', '-q', '--detach', wt, 'HEAD'], check=True, capture_output=True)
        for f in ('config.h', 'config.mk'):
            if os.path.exists('/repo/' + f):
                shutil.copy('/repo/' + f, wt)
        r = subprocess.run(['git', '-C', wt, 'apply', os.path.join(d, 'patch.diff')], capture_output=True, text=True)
        if r.returncode != 0:
            res['error'] = 'patch does not apply: ' + r.stderr[-300:]
            return res
        also = [x for x in meta.get('also', []) if x != prop]
        res['also'] = also
        for p in [prop] + [x for x in also + extra if x != prop]:
            if p in res['checks']:
                continue            # named both in `also` and in --props
            ev = tempfile.mkdtemp(prefix='mev-', dir='/tmp')
            env = dict(os.environ, VERIF_REPO=wt, VERIF_EVID=ev)
            t0 = time.time()
            r = subprocess.run([sys.executable, os.path.join(ROOT, 'tools', 'check.py'), p, '--tier', tier],
                               cwd=ROOT, env=env, capture_output=True, text=True)
            viol = [l for l in r.stdout.split('\n') if l.startswith('VIOLATION')]
            what = ''
            m = re.search(r'replay=(\S+)', viol[0]) if viol else None
            if m and os.path.exists(m.group(1)):
                try:
                    j = json.load(open(m.group(1)))
                    w = j.get('what')
                    if isinstance(w, list):
                        w = str(w[0]) if w else ''
                    cls = j.get('finding_class')
                    # an unlisted finding: say what was wrong with the input rather than just "unlisted"
                    what = str(j.get('obligation') or (w if cls in (None, 'unlisted') and w else cls) or w or '')[:160].replace('\n', ' ')
                except Exception:
                    pass
            res['checks'][p] = {'rc': r.returncode, 'violations': len(viol),
                                'with_input': sum(1 for l in viol if 'no-failing-input-found' not in l),
                                'first': viol[0] if viol else '', 'what': what, 'wall_s': round(time.time() - t0, 1)}
            shutil.rmtree(ev, ignore_errors=True)
    finally:
        subprocess.run(['git', '-C', '/repo', 'worktree', 'remove', '--force', wt], capture_output=True)
        shutil.rmtree(wt, ignore_errors=True)
    return res

def main():
    ap = argparse.ArgumentParser()
    ap.add_argument('--tier', default='quick')
    ap.add_argument('--only', default='')
    ap.add_argument('--props', default='')
    ap.add_argument('--jobs', type=int, default=2)
    a = ap.parse_args()
    names = sorted(n for n in os.listdir(SEEDED) if os.path.exists(os.path.join(SEEDED, n, 'patch.diff')))
    if a.only:
        names = [n for n in names if n in a.only.split(',')]
    extra = [x for x in a.props.split(',') if x]
    out = {}
    path = os.path.join(SEEDED, 'MATRIX.json')
    if os.path.exists(path) and a.only:
        out = json.load(open(path))
    with cf.ThreadPoolExecutor(a.jobs) as ex:
        for res in ex.map(lambda n: run_one(n, a.tier, extra), names):
            key = res['name']
            if a.tier != 'quick':
                key += '@' + a.tier
            out[key] = res
            c = res['checks'].get(res['property'], {})
            print('%-22s %s rc=%s viol=%s with_input=%s %ss %s' % (res['name'], res['property'], c.get('rc'), c.get('violations'),
                                                                c.get('with_input'), c.get('wall_s'), res.get('error', '')), flush=True)
    json.dump(out, open(path, 'w'), indent=1, sort_keys=True)
    with open(os.path.join(SEEDED, 'MATRIX.md'), 'w') as fh:
        fh.write('| seeded change | property | check | caught | with failing input | first line | also caught by |\n|---|---|---|---|---|---|---|\n')
        for k in sorted(out):
            r = out[k]
            # the other checks that catch the change (those named in meta.json `also` and any run with --props), with / without a failing input
            others = ['%s (%s)' % (p, 'failing input' if c['with_input'] else 'correspondence only')
                      for p, c in r['checks'].items() if p != r['property'] and c['rc']]
            for p, c in r['checks'].items():
                fh.write('| %s | %s | %s | %s | %s | %s | %s |\n' % (k, r['property'], p, 'yes' if c['rc'] else 'NO', c['with_input'], c['what'].replace('|', '/'),
                                                                  ', '.join(others) if p == r['property'] else ''))
    missed = [k for k, r in out.items() if not r['checks'].get(r['property'], {}).get('rc')]
    print('missed:', missed)

if __name__ == '__main__':
    main()
