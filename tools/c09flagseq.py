"""C09 - flag transitions followed by a later action of the same rule (process level, real binary).

Property text (C09): "A message taken from new to cur gains the S flag and one taken from cur to new loses it; every other flag is
preserved, flags are ... written back sorted without duplicates.  move keeps the message's new/cur subdirectory and flag keeps its maildir".

Every action that moves or rewrites the message generates a new file name from the flag set mdsort keeps for the message IN MEMORY.  A
transition that is right in the name it produces, but not in that flag set, shows only when a LATER action of the same rule names the
file again.  So: action lists of length 2 and 3 over

    flag new | flag !new | move (same device) | move (other device) | flags "F" | flags "Sa" | label | add-header

in which a transition stands before the last action, on messages in new (no flags / S / FRa) and in cur (no flags / S / RS / FSTab),
one run for the messages of new and one for those of cur (rules restricted to that subdirectory, cf. F21), a message no rule matches
beside them.

Oracle (the property text + Spec.dest / Spec.destOK through the driver's `S dest`; label / add-header are entries that carry no
destination, as in the C03 stage):
  * exit status 0, every message exactly once, the one no rule matches untouched;
  * place = (maildir of the last move, else its own) / (subdirectory of the last flag, else its own);
  * flags of the final name: every letter other than S = the letters it had + the letters of the flags actions; S by the documented
    transition rule.  The text can be read action by action (flag new, then flag !new: lost, then gained) or on the net change of the
    rule (new/cur before and after); where the two readings agree - in particular for every list with ONE change of subdirectory - S is
    exactly that; where they differ either is accepted and the case is counted (`readings_differ`);
  * the name is a freshly generated one, its letters sorted (upper case, then lower case) without duplicates;
  * content = the original plus exactly the configured headers; modification time kept unless the message was rewritten.
Lists outside Spec.destOK (known finding F12): those without label / add-header are run and classified exactly as the action-sequence
sweep of tools/props/c09.py does (class `dest-unmerged-entry` iff the place is the one the transcription computes - driver `M dest`);
those with label / add-header are not generated (counted).  Every run is also followed call by call through Model.mainP.
"""
import concurrent.futures as cf
import itertools
import os
import re
import vlib
import proc
import world
import worldscen as ws

R = '@R@'
ACTS = {
    # key: (configuration text, code for `S dest` / None = carries no destination, letters added, subdirectory set, rewrites)
    'fn': ('flag new', b'fnew'),
    'fc': ('flag !new', b'fcur'),
    'mA': ('move "%s/dstA"' % R, None),
    'mB': ('move "%s/dstB"' % R, None),
    'FF': ('flags "F"', b'FF'),
    'FS': ('flags "Sa"', b'FSa'),
    'lb': ('label "x"', None),
    'hd': ('add-header "X-H" "v"', None),
}
LETTERS = {'FF': 'F', 'FS': 'Sa'}
HEADER = {'lb': b'X-Label: x\n', 'hd': b'X-H: v\n'}
NEUTRAL = b'F'
MSGS = {
    'new': [('1.host', 1), ('2.host:2,S', 2), ('3.host:2,FRa', 3)],
    'cur': [('4.host:2,', 4), ('5.host:2,S', 5), ('6.host:2,RS', 6), ('7.host:2,FSTab', 7)],
}
BYSTANDER = {'new': ('cur', '9.host:2,S'), 'cur': ('new', '9.host')}
GEN = re.compile(r'^1790000000\.4242_(\d+)\.host(:2,[A-Za-z]*)?$')


def letters(name):
    return set(name.rsplit(':2,', 1)[1]) if ':2,' in name else set()


def canon_suffix(fl):
    return ':2,' + ''.join(sorted(c for c in fl if c.isupper())) + ''.join(sorted(c for c in fl if c.islower()))


def sequences(tier, rng):
    keys = list(ACTS)
    seqs = []
    for n in (2, 3):
        for s in itertools.product(keys, repeat=n):
            if all(a in ('lb', 'hd') for a in s[:-1]):
                continue        # no transition before the last action
            seqs.append(s)
    if tier != 'quick':
        four = [s for s in itertools.product(keys, repeat=4) if not all(a in ('lb', 'hd') for a in s[:-1])]
        seqs += rng.sample(four, 1500)
    return seqs


def code(a, root):
    if a in ('mA', 'mB'):
        return b'm' + ('%s/dst%s' % (root, a[1])).encode('latin-1')
    return ACTS[a][1] or NEUTRAL


def dest_args(sub, seq, root):
    codes = [code(a, root) for a in seq]
    while codes and codes[-1] == NEUTRAL:
        codes.pop()
    return ' '.join([vlib.hexs(('%s/src' % root).encode('latin-1')), vlib.hexs(sub.encode()), vlib.hexs(b'1.host')] + [vlib.hexs(c) for c in codes])


def expected_S(sub, had_S, seq):
    """(action by action, net change of the rule) for the final subdirectory `fsub` the documentation gives."""
    cur, s = sub, had_S
    for a in seq:
        if a == 'FS':
            s = True
        elif a in ('fn', 'fc'):
            to = 'new' if a == 'fn' else 'cur'
            if to != cur:
                s = (to == 'cur')
            cur = to
    net = had_S or ('FS' in seq)
    if cur != sub:
        net = (cur == 'cur')
    return s, net, cur


def config(sub, seq):
    cond = 'new' if sub == 'new' else '! new'
    return 'maildir "%s/src" {\n\tmatch %s %s\n}\n' % (R, cond, ' '.join(ACTS[a][0] for a in seq))


def build(tools, sub, seq):
    tree = {}
    for d in ('src', 'dstA', 'dstB'):
        tree.update(proc.maildir_tree(d, {}))
    for name, i in MSGS[sub]:
        tree['src/%s/%s' % (sub, name)] = ws.msg(i)
    tree['src/%s/%s' % BYSTANDER[sub]] = ws.msg(9)
    return ws.Spec('flagseq', config(sub, seq), [], tree=tree, devmap=('%s/dstB' % R,)).build(tools)


def with_headers(data, lines):
    head, body = data.split(b'\n\n', 1)
    return head + b'\n' + b''.join(lines) + b'\n' + body


def judge(sub, seq, want_dir, scen, r, stats):
    probs = []
    files = {rel: v for rel, v in r.final.items() if v[0] == 'file' and re.search(r'(^|/)(new|cur)/[^/]+$', rel)}
    if r.status != 0:
        probs.append('exit status %r: %s' % (r.status, r.err[-200:].decode('latin-1').replace(scen.root, R)))
    # label adds its label to the (one) X-Label header, add-header adds or replaces the header
    nl = len([a for a in seq if a == 'lb'])
    rewrite = ([b'X-Label: ' + b' '.join([b'x'] * nl) + b'\n'] if nl else []) + ([HEADER['hd']] if 'hd' in seq else [])
    added = set(''.join(LETTERS.get(a, '') for a in seq))
    for name, i in MSGS[sub]:
        rel0 = 'src/%s/%s' % (sub, name)
        orig = scen.initial[rel0]
        where = [rel for rel, v in files.items() if ws.msg_id(v[1]) == i]
        if len(where) != 1:
            probs.append('message %d (%s) exists %d times after the run: %s' % (i, rel0, len(where), where))
            continue
        rel = where[0]
        fdir, fname = rel.rsplit('/', 1)
        if fdir != want_dir:
            probs.append('message %d (%s) is in %s, documented place %s' % (i, rel0, fdir, want_dir))
            continue
        had = letters(name)
        got = letters(fname)
        s_step, s_net, fsub = expected_S(sub, 'S' in had, seq)
        assert fsub == want_dir.rsplit('/', 1)[1], (fsub, want_dir)
        want_other = (had | added) - {'S'}
        if got - {'S'} != want_other:
            probs.append('message %d (%s -> %s): flags other than S are %r, expected %r' % (i, rel0, rel, ''.join(sorted(got - {'S'})), ''.join(sorted(want_other))))
        if s_step == s_net:
            if ('S' in got) != s_step:
                probs.append('message %d (%s -> %s after %s): S is %s in the final name %r, the transition rule says %s'
                             % (i, rel0, fdir, ' / '.join(ACTS[a][0].replace(R + '/', '') for a in seq), 'set' if 'S' in got else 'not set', fname,
                                'set' if s_step else 'not set'))
        else:
            stats['readings_differ'] += 1
            stats['follows_action_by_action' if ('S' in got) == s_step else 'follows_net_change'] += 1
        if not GEN.match(fname):
            probs.append('message %d: final name %r is not a freshly generated name' % (i, fname))
        suffix = fname[fname.index(':2,'):] if ':2,' in fname else ''
        if suffix != canon_suffix(got):
            probs.append('message %d: flags written as %r (not sorted upper case then lower case, or duplicates)' % (i, suffix))
        wants = [with_headers(orig[1], p) for p in set(itertools.permutations(rewrite))] if rewrite else [orig[1]]
        if files[rel][1] not in wants:
            probs.append('message %d: content is %r, expected %r' % (i, files[rel][1][:160], wants[0][:160]))
        if not rewrite and files[rel][2] != orig[2]:
            probs.append('message %d: modification time %s, was %s (the message was not rewritten)' % (i, files[rel][2], orig[2]))
    brel = 'src/%s/%s' % BYSTANDER[sub]
    if r.final.get(brel) != scen.initial[brel]:
        probs.append('the message no rule matches (%s) was changed' % brel)
    for rel, v in files.items():
        if ws.msg_id(v[1]) not in [i for _, i in MSGS[sub]] + [9]:
            probs.append('stray file %s' % rel)
    return probs


def stage(rep, tools, W, rng):
    seqs = sequences(rep.tier, rng)
    jobs = [(sub, s) for s in seqs for sub in ('new', 'cur')]
    ROOT = '/x'      # any root: destOK does not depend on names
    spec = vlib.run_batch([vlib.driver_path()], ['S dest ' + dest_args(sub, s, ROOT) for sub, s in jobs])
    todo, skipped = [], 0
    for (sub, s), a in zip(jobs, spec):
        ok, path = a.split(' ')
        pure = not any(x in ('lb', 'hd') for x in s)
        if ok != '1' and not pure:
            skipped += 1
            continue
        todo.append((sub, s, ok == '1', vlib.unhex(path).decode('latin-1').replace(ROOT + '/', '')))
    stats = {'action_lists': len(seqs), 'runs': len(todo), 'messages_judged': 0, 'outside_destOK_with_rewrite_not_generated': skipped,
             'known_F12': 0, 'failing': 0, 'nonconforming': 0, 'readings_differ': 0, 'follows_action_by_action': 0, 'follows_net_change': 0}

    def one(item):
        sub, s, ok, want_dir = item
        scen = build(tools, sub, s)
        try:
            r = scen.run()
            st = {'readings_differ': 0, 'follows_action_by_action': 0, 'follows_net_change': 0}
            res = {'sub': sub, 'seq': s, 'ok': ok, 'want': want_dir, 'status': r.status, 'config': scen.config.replace(scen.root, R), 'st': st,
                   'root': scen.root}
            if ok:
                res['problems'] = judge(sub, s, want_dir, scen, r, st)
            else:
                # F12 territory: only where the messages are, compared with the transcription of the pinned code (as props/c09.py does)
                files = {rel: v for rel, v in r.final.items() if v[0] == 'file' and re.search(r'(^|/)(new|cur)/[^/]+$', rel)}
                res['where'] = {i: [rel.rsplit('/', 1)[0] for rel, v in files.items() if ws.msg_id(v[1]) == i] for _, i in MSGS[sub]}
                res['mreq'] = 'M dest ' + dest_args(sub, s, scen.root)
            res['req'] = W.request(scen, [], r)[0]
            res['scen'], res['r'] = scen, r
            return res
        finally:
            scen.cleanup()

    with cf.ThreadPoolExecutor(vlib.NCPU) as ex:
        results = list(ex.map(one, todo))
    verdicts = W.verdict([x['req'] for x in results])
    pinned = iter(vlib.run_batch([vlib.driver_path()], [x['mreq'] for x in results if not x['ok']]))
    corr, nrep = [], 0
    for x, v in zip(results, verdicts):
        desc = {'harness': 'process (real binary under the shim)', 'family': 'flag-transition-then-action', 'source_subdir': x['sub'],
                'actions': [ACTS[a][0].replace(R + '/', '') for a in x['seq']], 'messages': [n for n, _ in MSGS[x['sub']]], 'config': x['config'],
                'documented_place': x['want'], 'exit_status': x['status']}
        for k in x['st']:
            stats[k] += x['st'][k]
        if x['ok']:
            stats['messages_judged'] += len(MSGS[x['sub']])
            if x['problems']:
                stats['failing'] += 1
                nrep += 1
                if nrep <= 6:
                    rep.finding('unlisted', dict(desc, what=x['problems'][:6]))
                continue
        else:
            mo = next(pinned)
            pin = vlib.unhex(mo[3:]).decode('latin-1').replace(x['root'] + '/', '') if mo.startswith('OK ') else None
            bad = [i for i, w in x['where'].items() if len(w) != 1]
            wrong = sorted(set(w[0] for w in x['where'].values() if len(w) == 1 and w[0] != x['want']))
            if bad or x['status'] != 0:
                stats['failing'] += 1
                rep.finding('unlisted', dict(desc, what='a message does not exist exactly once after the run, or the run failed', found=x['where']))
                continue
            if wrong:
                if wrong == [pin]:
                    stats['known_F12'] += 1
                    rep.finding('dest-unmerged-entry', dict(desc, found_in=wrong, what='destination computed from the original path by an unmerged flag/flags/move entry'))
                else:
                    stats['failing'] += 1
                    rep.finding('unlisted', dict(desc, found_in=wrong, model_of_pinned_code=pin,
                                                 what='wrong destination, and not the one the pinned code computes for this list (a different defect than F12)'))
                    continue
        kind, detail = world.compare(x['scen'], x['r'], v)
        if kind != 'ok':
            stats['nonconforming'] += 1
            corr.append(dict(desc, conform=kind, detail=detail[:400]))
    if corr and not rep.violations:
        rep.violation({'obligation': 'correspondence: the real run of an action list does not follow Model.mainP / ends in a different state (names '
                                     'carry the flags); the documented rule evaluated on the real tree found nothing wrong',
                       'disagreements': len(corr), 'examples': corr[:6]}, False)
    stats['rule'] = ('action lists of length 2-3 (thorough: + 1500 of length 4) over flag new / flag !new / move on one device / move across devices / '
                     'flags "F" / flags "Sa" / label / add-header with a transition before the last action; 3 messages in new (no flags, S, FRa) '
                     'resp. 4 in cur (no flags, S, RS, FSTab) per run; see tools/c09flagseq.py for the oracle')
    return stats
