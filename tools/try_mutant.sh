#!/bin/sh
# usage: try_mutant.sh <patch.diff> <Cxx> [tier]   -- apply to /repo, run the check, always restore
set -u
patch=$(readlink -f "$1"); prop=$2; tier=${3:-quick}
cd /repo || exit 2
if ! git apply --check "$patch" 2>/dev/null; then echo "PATCH-DOES-NOT-APPLY $patch"; exit 3; fi
git apply "$patch"
cd /verif
python3 tools/check.py "$prop" --tier "$tier" > /tmp/try_mutant.out 2>/tmp/try_mutant.err
rc=$?
git -C /repo checkout -- .
echo "mutant=$patch prop=$prop rc=$rc"
grep -E "^VIOLATION" /tmp/try_mutant.out | head -4; echo "known-finding lines: $(grep -c "^KNOWN-FINDING" /tmp/try_mutant.out)"
exit 0
