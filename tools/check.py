#!/usr/bin/env python3
"""Entry point of every check registered in MANIFEST.json.

  check.py --setup                      build the Lean library and the driver
  check.py Cxx [--tier quick|thorough]  decide property Cxx on /repo's working tree
  check.py Cxx --replay FILE            re-run the case recorded in a replay file
"""
import argparse
import importlib
import os
import sys
import traceback

# one ambient locale for every harness, driver and binary a check starts (stages that study locale-dependent behaviour set LC_ALL
# themselves, for both sides of a comparison): what a check finds must not depend on the caller's environment.  Done BEFORE vlib is
# imported, because vlib builds its harness environments (ASAN_ENV) from os.environ at import time.
for _k in [k for k in os.environ if k.startswith('LC_') or k in ('LANG', 'LANGUAGE')]:
    del os.environ[_k]
os.environ['LC_ALL'] = 'C'

sys.path.insert(0, os.path.dirname(os.path.abspath(__file__)))
import vlib  # noqa: E402


def main():
    ap = argparse.ArgumentParser()
    ap.add_argument('prop', nargs='?')
    ap.add_argument('--tier', default=os.environ.get('VERIF_TIER', 'quick'), choices=['quick', 'thorough'])
    ap.add_argument('--setup', action='store_true')
    ap.add_argument('--replay')
    a = ap.parse_args()
    if a.setup:
        return vlib.lean_setup()
    if not a.prop:
        ap.error('property id required')
    prop = a.prop.upper()
    mod = importlib.import_module('props.' + prop.lower())
    seed = vlib.seed_from_env()
    rep = vlib.Report(prop, a.tier, seed, keep_replays=bool(a.replay))
    try:
        if a.replay:
            mod.replay(rep, a.replay)
        else:
            mod.run(rep)
    except vlib.CheckError as e:
        rep.violation({'obligation': 'check infrastructure / build of the working tree', 'error': str(e)}, False)
        rep.coverage.setdefault('obligations', 1)
        rep.coverage.setdefault('discharged', 0)
        rep.coverage.setdefault('checker_cmd', 'tools/check.py ' + prop)
        rep.coverage.setdefault('trusted_base', vlib.BASE_TRUSTED)
    except Exception:
        tb = traceback.format_exc()
        sys.stderr.write(tb)
        rep.violation({'obligation': 'check crashed', 'error': tb[-3000:]}, False)
        rep.coverage.setdefault('obligations', 1)
        rep.coverage.setdefault('discharged', 0)
        rep.coverage.setdefault('checker_cmd', 'tools/check.py ' + prop)
        rep.coverage.setdefault('trusted_base', vlib.BASE_TRUSTED)
    return rep.finish(getattr(mod, 'LEVEL', 'proof'))


if __name__ == '__main__':
    sys.exit(main())
