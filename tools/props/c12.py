"""C12 - interpolation is exact and single-pass: message content is data, never template."""
import random
import vlib
import gen_rules
import evalcommon as ec
import lbuf


def ast_strings(ast):
    """(type, lno) -> list of string-lists, in order of appearance, for exec/label/addheader/command nodes."""
    toks = ast.split(' ')
    res = {}
    i = 0
    while i < len(toks):
        t = toks[i]
        if t in ('label', 'command') and i + 2 < len(toks) and toks[i + 1].isdigit():
            n = int(toks[i + 2])
            res.setdefault((t, toks[i + 1]), []).append([vlib.unhex(x) for x in toks[i + 3:i + 3 + n]])
            i += 3 + n
        elif t == 'exec' and toks[i + 1].isdigit():
            n = int(toks[i + 4])
            res.setdefault((t, toks[i + 1]), []).append([vlib.unhex(x) for x in toks[i + 5:i + 5 + n]])
            i += 5 + n
        elif t == 'addheader' and toks[i + 1].isdigit():
            res.setdefault(('add_header', toks[i + 1]), []).append([vlib.unhex(toks[i + 2]), vlib.unhex(toks[i + 3])])
            i += 4
        else:
            i += 1
    return res


def caps_for(ml, i):
    """Capture lists of the interpolating patterns of the rule entry i belongs to (spec-level reading)."""
    start = None
    for j in range(i - 1, -1, -1):
        if ml[j][0] == 'match':
            start = j
            break
    if start is None:
        return None
    caps = []
    for f in ml[start + 1:i]:
        if f[0] in ('header', 'body'):
            caps.append([vlib.unhex(s.split('/')[0]) for s in f[6].split('+')] if f[6] else [])
    return caps


def interp_req(template, path, caps):
    args = [vlib.hexs(template), vlib.hexs(path)]
    for gs in (caps or []):
        args += [vlib.hexs(g) for g in gs] + ['7c']
    return 'S interp ' + ' '.join(args)


def table_value(dump, key):
    for ent in dump.split('|')[0].split(','):
        if not ent:
            continue
        f = ent.split(':')
        if vlib.unhex(f[1]).lower() == key.lower():
            return vlib.unhex(f[2])
    return None


def boundary_templates():
    """Templates whose back-reference numbers sit on the boundaries of every integer type involved in reading them (int, unsigned
    int, long, unsigned long): both positions of \\M.N, the \\N form, the \\N\\. form, leading zeros; and - for the correspondence
    of the model's strtoul with the platform's - the sign and blank forms strtoul accepts after the dot (negative numbers wrap, an
    overflow gives ULONG_MAX whatever the sign).  Numbers whose low 32 (31, 63) bits are a small index are what a truncating
    conversion would turn into a VALID reference."""
    nums = set()
    for b in (2**31, 2**32, 2**33, 3 * 2**32, 2**63, 2**64, 2**64 + 2**32, 2**64 + 2**33):
        for k in range(-3, 4):
            nums.add(b + k)
    nums |= {10**19, 10**20 - 1, 10**20, 10**30 + 1, 10 * 2**64 + 1, 10 * 2**31, 2**31 * 2**32 + 1, 2**96 + 2}
    strs = [str(n) for n in sorted(nums)] + ['0' * 22 + '1', '0' * 30 + '2', '0' * 12 + str(2**32 + 1), '0' * 5 + str(2**31 - 1)]
    out = []
    for s in strs:
        out += ['\\%s' % s, 'a\\%s\\.b' % s, '\\%s.1' % s, '\\1.%s' % s, '\\0.%s' % s, '\\%s.%s' % (s, s), 'x\\%s.2\\.' % s, '\\1.%s\\.y' % s]
    neg = set([0, 1, 2, 3, 2**31 - 1, 2**31, 2**31 + 1, 2**32 - 1, 2**32, 2**32 + 1, 2**63 - 1, 2**63, 2**63 + 1, 2**65, 10**20])
    for b in (2**64 - 2**31, 2**64 - 2**32, 2**64):
        for k in range(-3, 4):
            neg.add(b + k)
    for n in sorted(neg):
        for sign in ('-', '+', ' ', '\t', ' -', '\t+', '  ', '-0', '+00'):
            out.append('\\1.%s%d' % (sign, n))
    out += ['\\1.-', '\\1.+', '\\1. ', '\\1.- 1', '\\1.--1', '\\1.+-1', '\\1.-x', '\\2.-1\\.', '\\1.\\-1']
    return out
def exact_cases(src, tdir):
    """Exact-size family: interpolated strings whose result, or one of whose substituted pieces, ends exactly on, one below and one
    above every capacity of the buffers they are built in (interpolate(): 64 bytes doubling; the X-Label value: 128 doubling; sizes
    read from the buffer_alloc() calls of the source being checked, tools/lbuf.py).  Captures of those lengths alone, after and before
    literal text, two captures in a row, labels appended to an existing X-Label value, ${path} of those lengths (through the length of
    the message's file name); in label, exec, add-header and move.  -> [(Case, meta)], meta = what the X-Label must be, if any."""
    lens = lbuf.exact_lengths(src, 60, 1100)
    one = ('^([a-z]+)@', '')
    two = ('^([a-z]+)\\.([a-z]+)@', '')
    letters = lambda n, k=0: bytes(97 + (i + k) % 26 for i in range(n))
    out = []

    def add(cond, pats, action, to, xlabel=None, name='1.host', expect_label=None):
        conf = 'maildir "~/md" {\n\tmatch %s %s\n}\n' % (cond, action)
        msg = b'To: ' + to + b'@example.com\n' + (b'X-Label: ' + xlabel + b'\n' if xlabel is not None else b'') + b'Subject: exact sizes\n\nbody\n'
        out.append((ec.Case(conf, pats, msg, 'new', name, '0'), {'xlabel': expect_label}))

    c1 = 'header "To" /^([a-z]+)@/'
    c2 = 'header "To" /^([a-z]+)\\.([a-z]+)@/'
    for n in lens:
        cap = letters(n)
        # the capture alone: ends at n in interpolate()'s buffer, and (label) in the X-Label buffer
        add(c1, [one], 'label "\\1"', cap, expect_label=cap)
        add(c1, [one], 'exec { "echo" "\\1" }', cap)
        add(c1, [one], 'add-header "X-Out" "\\1"', cap)
        add(c1, [one], 'move "\\1"', cap)
        # literal text before: the capture starts at 1 / 7 and ends at n
        add(c1, [one], 'label "x\\1"', letters(n - 1), expect_label=b'x' + letters(n - 1))
        add(c1, [one], 'add-header "X-Out" "prefix-\\1"', letters(n - 7))
        add(c1, [one], 'exec { "echo" "p\\1" "\\1s" }', letters(n - 1))
        # literal text after: the capture ends at n, the string does not
        add(c1, [one], 'label "\\1-tail"', cap, expect_label=cap + b'-tail')
        add(c1, [one], 'add-header "X-Out" "\\1 and more"', cap)
        # two configured labels: "ab" + " " + capture ends at n in the X-Label buffer
        add(c1, [one], 'label { "ab" "\\1" }', letters(n - 3), expect_label=b'ab ' + letters(n - 3))
        # an existing X-Label value of n bytes, and one that the new label completes to n bytes
        if n <= 520:
            old = b' '.join([b'list'] * 200)[:n - 1] + b'x'
            add('all', [], 'label "new"', b'user', xlabel=old, expect_label=old + b' new')
            add(c1, [one], 'label "\\1"', letters(27), xlabel=old[:n - 28], expect_label=old[:n - 28] + b' ' + letters(27))
        # two captures in a row: the first ends at 64 (or n - 64), the second at n
        if n >= 66:
            for a in sorted({64, n - 64, n // 2} - {0, n}):
                if 0 < a < n:
                    add(c2, [two], 'label "\\1\\2"', letters(a) + b'.' + letters(n - a, 3), expect_label=letters(a) + letters(n - a, 3))
                    add(c2, [two], 'exec { "echo" "\\2\\1" "\\1-\\2" }', letters(a) + b'.' + letters(n - a, 3))
        # ${path} of n bytes (the length of the file name decides), alone and after literal text
        base = len(tdir) + len('/md/new/')
        for k in (n, n - 1):
            if 3 <= k - base <= 255:
                nm = '1.' + 'h' * (k - base - 2)
                add('all', [], 'exec { "echo" "${path}" "x${path}" }', b'user', name=nm)
                add('all', [], 'add-header "X-Path" "${path}"', b'user', name=nm)
    return out


# --------------------------------------------------------------------------
# C12_macros: parse-time expansion of the real parser against Spec.mexpand (Spec/Macro.lean)
# --------------------------------------------------------------------------

# (position, action context?, test block with %s for the string, field of the dumped tree holding the result)
MACRO_POSITIONS = [
    ('move', True, 'maildir "t" { match all move "%s" }', lambda t: t[t.index('move') + 2]),
    ('label', True, 'maildir "t" { match all label "%s" }', lambda t: t[t.index('label') + 3]),
    ('exec', True, 'maildir "t" { match all exec "%s" }', lambda t: t[t.index('exec') + 5]),
    ('add-header value', True, 'maildir "t" { match all add-header "k" "%s" }', lambda t: t[t.index('addheader') + 3]),
    ('add-header name', False, 'maildir "t" { match all add-header "%s" "v" }', lambda t: t[t.index('addheader') + 2]),
    ('flags', False, 'maildir "t" { match all flags "%s" }', lambda t: t[t.index('flags') + 2]),
    ('header name', False, 'maildir "t" { match header "%s" /x/ break }', lambda t: t[t.index('header') + 3]),
    ('isdirectory', False, 'maildir "t" { match isdirectory "%s" break }', lambda t: t[t.index('stat') + 2]),
    ('command', False, 'maildir "t" { match command "%s" break }', lambda t: t[t.index('command') + 3]),
    ('maildir path', False, 'maildir "%s" { match all break }', lambda t: t[t.index('B') + 2]),
    ('macro value', False, 'z = "%s"\nmaildir "${z}" { match all break }', lambda t: t[t.index('B') + 2]),
]
MACRO_PIECES = ['$', '{', '}', 'a', 'b', 'path', 'x', '/', ' ', '${a}', '${b}', '${c}', '${d}', '${e}', '${path}', '${nosuch}', '${', '$$', '${a', '$}',
                '${c}${d}', '${a}${a}', '${}', '${ a}']
# the macros of the file (each used once in the first block so that none is "unused") and one given with -D
MACRO_FILE = 'a = "x"\nb = "${a}y"\nc = "$"\nd = "{a}"\nmaildir "${a}${b}${c}${d}${e}" { match all break }\n'
MACRO_TABLE = [(b'a', b'x'), (b'b', b'xy'), (b'c', b'$'), (b'd', b'{a}'), (b'e', b'E${a}')]


def macro_stage(rep, rng, sc, n):
    """The strings the REAL parser leaves in its trees (harness h_parse: config_parse with the -D table entered as mdsort.c does)
    against the documented single pass `Spec.mexpand`, in every string position of the grammar."""
    h = sc.unit_harness('h_parse', ['parse.c'])
    henv = dict(vlib.ASAN_ENV, HARNESS_TMP=sc.dir)
    cases = []
    fixed = ['${a}', '${b}', '${c}${d}', '${e}', '${path}', 'x${path}y', '${nosuch}', '${a', 'plain', '$', '$a', '${a}${path}${b}', '${d}${c}']
    for pos in MACRO_POSITIONS:
        for s in fixed:
            cases.append((pos, s))
    for _ in range(n):
        cases.append((rng.choice(MACRO_POSITIONS), ''.join(rng.choice(MACRO_PIECES) for _ in range(rng.randrange(1, 6)))))
    evalue = {}
    # exact sizes: a macro value (given with -D) that ends exactly on / one below / one above every capacity of the buffer expandmacros()
    # builds the string in (64 bytes, doubling; tools/lbuf.py), alone, after literal text, before literal text and after another macro
    xpos = [p for p in MACRO_POSITIONS if p[0] in ('move', 'label', 'add-header value', 'command', 'maildir path')]
    for ln in lbuf.exact_lengths(sc.src, 60, 1100):
        for k, (s, vlen) in enumerate((('${e}', ln), ('x${e}', ln - 1), ('${e}y', ln), ('${a}${e}${a}', ln - 1))):
            pos = xpos[(k + ln) % len(xpos)]
            evalue[len(cases)] = bytes(65 + i % 26 for i in range(vlen))
            cases.append((pos, s))
    stat_exact = len(evalue)
    sticky = [rng.random() < 0.3 for _ in cases]          # -D b=B: the definition of b in the file is dropped
    reqs, sreqs = [], []
    for ci, ((pos, s), st) in enumerate(zip(cases, sticky)):
        conf = MACRO_FILE + pos[2] % s + '\n'
        ev = evalue.get(ci, b'E${a}')
        defs = [(b'e', ev)] + ([(b'b', b'B')] if st else [])
        table = [(k, (b'B' if (st and k == b'b') else ev if k == b'e' else v)) for k, v in MACRO_TABLE]
        reqs.append('conf %s %s %s' % (vlib.hexs(conf.encode()), vlib.hexs(b'/home/u'), ' '.join('%s %s' % (vlib.hexs(k), vlib.hexs(v)) for k, v in defs)))
        sreqs.append('S mexpand %s %s %s' % (vlib.hexs(b'1' if pos[1] else b'0'), vlib.hexs(s.encode()),
                                            ' '.join('%s %s' % (vlib.hexs(k), vlib.hexs(v)) for k, v in table)))
    impl = vlib.run_batch([h], reqs, henv)
    spec = vlib.run_batch([vlib.driver_path()], sreqs)
    bad, stat = [], {'cases': len(cases), 'exact_size_values': stat_exact, 'expanded': 0, 'errors': 0, 'with_reference': 0, 'sticky': sum(sticky)}
    for ci, ((pos, s), st, im, sp) in enumerate(zip(cases, sticky, impl, spec)):
        if '${' in s:
            stat['with_reference'] += 1
        what = None
        if sp == 'NONE':
            stat['errors'] += 1
            if not im.startswith('ERR'):
                what = 'the specification says error, the parser answered %s' % im[:200]
        elif sp.startswith('OK '):
            if not im.startswith('OK'):
                what = 'the specification says %r, the parser answered %s' % (vlib.unhex(sp[3:]), im[:200])
            else:
                blocks = [b.strip().split(' ') for b in im[2:].split(' ;')]
                try:
                    got = vlib.unhex(pos[3](blocks[1]))
                except (ValueError, IndexError):
                    got = None
                stat['expanded'] += 1
                if got != vlib.unhex(sp[3:]):
                    what = 'string in the tree %r, specification %r' % (got, vlib.unhex(sp[3:]))
        else:
            what = 'driver answered %s' % sp[:100]
        if what:
            bad.append({'position': pos[0], 'action_context': pos[1], 'string': s, 'D_b': st, 'what': what[:600],
                        'D_e': ('%d bytes: ' % len(evalue[ci]) + evalue[ci].decode()) if ci in evalue else 'E${a}'})
    for b in bad[:5]:
        rep.finding('unlisted', dict(b, kind='parse-time macro expansion'))
    return stat, bad


def run(rep):
    rng = random.Random(rep.seed)
    sc = vlib.Scratch()
    h, env = ec.harness(sc)
    vlib.lean_gate(rep, 'C12', sc, [
        'regexec (captures) is the platform library; strtoul is modelled (blank skipping, sign, overflow)',
        'the specification is evaluated on the captures the real evaluator recorded (its own match-list dump)',
    ])
    n = 1500 if rep.tier == 'quick' else 60000
    cases = []
    for _ in range(n):
        g = gen_rules.Gen(rng, depth=rng.choice([0, 0, 1]), rules_max=2, attachments=False, errors=False, dates=False)
        g.interp = True
        conf = g.config()
        pats = list(g.patterns)
        for _ in range(2):
            truth = [rng.random() < 0.7 for _ in range(gen_rules.ATOMS)]
            cases.append(ec.Case(conf, pats, gen_rules.message(rng, truth), rng.choice(['new', 'cur']), '1.host', '0'))
    # rules whose patterns are known to match, so that most references are valid
    TEXTS = [b'user@example.com', b'uSER@Example.COM', b'u\\1@${path}', b'u@x.y', b'ua@b']
    for _ in range(n):
        npat = rng.randrange(1, 4)
        conds, pats = [], []
        for k in range(npat):
            fl = rng.choice(['', '', 'i', 'l', 'u', 'iu'])
            w = rng.randrange(3)
            if w == 0:
                conds.append('header "To" /(u[^@]*)@(.*)/' + fl); pats.append(('(u[^@]*)@(.*)', fl))
            elif w == 1:
                conds.append('header { "Cc" "Subject" } /(.)(x)?(.*)/' + fl); pats.append(('(.)(x)?(.*)', fl))
            else:
                conds.append('body /(b[a-z]*) (l[^ ]*)$/' + fl); pats.append(('(b[a-z]*) (l[^ ]*)$', fl))
        def tmpl():
            out = ''
            for _ in range(rng.randrange(1, 4)):
                out += rng.choice(['\\%d' % rng.randrange(4), '\\%d.%d' % (rng.randrange(npat + 1), rng.randrange(4)),
                                   '\\%d\\.' % rng.randrange(3), '${path}', 'x', '-', '.', '$', '\\\\', '/'])
            return out
        acts = []
        for _ in range(rng.randrange(1, 4)):
            w = rng.randrange(4)
            if w == 0:
                acts.append('move "~/dst/%s"' % tmpl())
            elif w == 1:
                acts.append('label { "%s" "%s" }' % (tmpl(), tmpl()))
            elif w == 2:
                acts.append('exec { "echo" "%s" "%s" }' % (tmpl(), tmpl()))
            else:
                acts.append('add-header "X-Out" "%s"' % tmpl())
        conf = 'maildir "~/md" {\n\tmatch %s %s\n}\n' % (' and '.join(conds), ' '.join(acts))
        to = rng.choice(TEXTS)
        msg = b'To: ' + to + b'\nSubject: ' + rng.choice([b'hx tail', b'h', b'\\2 ${path}']) + b'\nX-Label: ' + rng.choice([b'old', b'\\9', b'${path} \\1']) + \
            b'\n\n' + rng.choice([b'bird line1\n', b'b l\\1\n', b'first\nbig last\n'])
        cases.append(ec.Case(conf, pats, msg, 'new', '1.host', '0'))
    # numeric boundaries of the reference numbers: every template in two of the four interpolated arguments; both patterns match, so a
    # number that a narrower integer type would turn into 0..3 resolves to a capture if it is (wrongly) accepted
    ACTS = ['move "~/dst/%s"', 'label { "l" "%s" }', 'exec { "echo" "%s" }', 'add-header "X-Out" "%s"']
    btemplates = boundary_templates()
    bcases = {}
    for k, t in enumerate(btemplates):
        for a in (k % 4, (k // 4 + k + 1) % 4):
            conf = 'maildir "~/md" {\n\tmatch header "To" /(u[^@]*)@(.*)/ and header "Subject" /(.)(x)?(.*)/ %s\n}\n' % (ACTS[a] % t)
            c = ec.Case(conf, [('(u[^@]*)@(.*)', ''), ('(.)(x)?(.*)', '')], b'To: user@example.com\nSubject: hx tail\n\nbody\n', 'new', '1.host', '0')
            cases.append(c)
            bcases[id(c)] = t
    # exact sizes: results and substituted pieces that end exactly on / one below / one above every capacity of the buffers they are built in
    xmeta = {}
    for c, meta in exact_cases(sc.src, sc.dir + '/heXXXXXX'):
        cases.append(c)
        xmeta[id(c)] = meta
    # look-alike paths: file names, maildir directories and header texts that spell references and macros, so that the value of ${path} and the
    # captured texts look like template syntax (tools/c12paths.py; the same family at process level further down)
    import c12paths
    pcases = {}
    for c in c12paths.unit_cases(rng, 1500 if rep.tier == 'quick' else 60000):
        cases.append(c)
        pcases[id(c)] = c
    ec.run_cases(h, env, cases, want_spec=False)
    corr_bad, checks, faults = [], [], []
    for c in cases:
        if c.note == 'fault':
            faults.append(c)
            continue
        if c.model is None:
            continue
        if ec.impl_core(c) != ec.model_core(c):
            corr_bad.append(c)
        e = c.impl.split(' ')
        if e[0] != 'MATCH':
            continue
        pre = ec.parse_ml(e[1])
        strs = ast_strings(c.ast)
        seen = {}
        items = []   # (kind, index in list, template, caps)
        ok = True
        for i, f in enumerate(pre):
            ty, lno = f[0], f[1]
            caps = caps_for(pre, i)
            if ty == 'move':
                items.append(('path', i, vlib.unhex(f[3]), caps))
            elif ty in ('exec', 'label', 'add_header'):
                k = seen.get((ty, lno), 0)
                seen[(ty, lno)] = k + 1
                ss = strs.get((ty, lno))
                if ss is None or k >= len(ss):
                    ok = False
                    break
                if ty == 'add_header':
                    items.append(('hdr:' + ss[k][0].decode('latin-1'), i, ss[k][1], caps))
                else:
                    for a, s in enumerate(ss[k]):
                        items.append(('%s:%d' % (ty, a), i, s, caps))
        if ok and items:
            checks.append((c, e, pre, items))
    reqs = []
    for c, e, pre, items in checks:
        for kind, i, tmpl, caps in items:
            reqs.append(interp_req(tmpl, vlib.unhex(c.path), caps))
    outs = vlib.run_batch([vlib.driver_path()], reqs)
    pos = 0
    spec_bad = []
    stat = {'templates': 0, 'undefined': 0, 'errors': 0, 'substituted': 0, 'cases': 0}
    bstat = {'templates': len(btemplates), 'cases': len(bcases), 'judged': 0, 'outside_spec_model_only': 0, 'spec_error': 0, 'impl_error': 0,
             'model_mismatches': sum(1 for c in corr_bad if id(c) in bcases),
             'not_evaluated': sum(1 for c in cases if id(c) in bcases and (c.model is None or not (c.impl or '').startswith('MATCH')))}
    import re as _re
    lookalike = lambda c: bool(_re.search(rb'\\[0-9]|\$\{', vlib.unhex(c.path)[len(sc.dir):])) if c.path else False
    pstat = {'cases': len(pcases), 'judged': 0, 'judged_with_reference_or_macro_in_path': 0, 'values_compared': 0,
             'not_evaluated': sum(1 for c in pcases.values() if c.model is None or not (c.impl or '').startswith('MATCH')),
             'model_mismatches': sum(1 for c in corr_bad if id(c) in pcases)}
    xstat = {'cases': len(xmeta), 'judged': 0, 'lengths': lbuf.exact_lengths(sc.src, 60, 1100),
             'not_evaluated': sum(1 for c in cases if id(c) in xmeta and (c.model is None or not (c.impl or '').startswith('MATCH'))),
             'model_mismatches': sum(1 for c in corr_bad if id(c) in xmeta)}
    for c, e, pre, items in checks:
        res = outs[pos:pos + len(items)]
        pos += len(items)
        stat['cases'] += 1
        stat['templates'] += len(items)
        if id(c) in bcases:
            bstat['judged' if not any(r == 'UNDEFINED' for r in res) else 'outside_spec_model_only'] += 1
            bstat['spec_error'] += any(r == 'ERROR' for r in res)
            bstat['impl_error'] += len(e) >= 4 and e[3] == 'INTERR'
        if any(r == 'UNDEFINED' for r in res):
            stat['undefined'] += 1
            continue
        xstat['judged'] += id(c) in xmeta
        if id(c) in pcases:
            pstat['judged'] += 1
            pstat['judged_with_reference_or_macro_in_path'] += lookalike(c)
        exp_err = any(r == 'ERROR' for r in res)
        impl_err = len(e) >= 4 and e[3] == 'INTERR'
        if exp_err or impl_err:
            stat['errors'] += 1
            if exp_err != impl_err:
                spec_bad.append((c, 'error status: specification %s, implementation %s' % (exp_err, impl_err), res))
            continue
        post = ec.parse_ml(e[3])
        labels = {}
        pstat['values_compared'] += id(c) in pcases
        for (kind, i, tmpl, caps), r in zip(items, res):
            want = vlib.unhex(r[3:]) if r.startswith('OK ') else b''
            if b'\\' in tmpl or b'${' in tmpl:
                stat['substituted'] += 1
            if kind == 'path':
                got = vlib.unhex(post[i][3])
                if got != want:
                    spec_bad.append((c, 'move destination %r, specification %r' % (got, want), res))
            elif kind.startswith('exec:'):
                a = int(kind.split(':')[1])
                argv = post[i][7].split('+') if post[i][7] else []
                got = vlib.unhex(argv[a]) if a < len(argv) else None
                if got != want:
                    spec_bad.append((c, 'exec argument %d is %r, specification %r' % (a, got, want), res))
            elif kind.startswith('label:'):
                labels.setdefault(i, []).append(want)
            elif kind.startswith('hdr:'):
                # several settings of one name: only the last is visible (checked through the model correspondence); a name set once
                # by add-header (and not the label header) must carry exactly the interpolated value
                key = kind[4:].lower()
                if key != 'x-label' and sum(1 for (k2, i2, t2, c2) in items if k2.lower() == kind.lower()) == 1:
                    got = table_value(e[4], key.encode('latin-1'))
                    if got != want:
                        spec_bad.append((c, 'header %s is %r, specification %r' % (kind[4:], None if got is None else got[:80] + b'...' * (len(got) > 80),
                                                                                   want[:80] + b'...' * (len(want) > 80)), res))
        if labels:
            # the final X-Label ends with the interpolated configured strings of the last label action
            last = max(labels)
            val = table_value(e[4], b'X-Label')
            want = b' '.join(labels[last])
            later_hdr = any(k.lower() == 'hdr:x-label' and i > last for (k, i, t, cp) in items)
            if not later_hdr and (val is None or not val.endswith(want)):
                spec_bad.append((c, 'X-Label is %r, must end with %r' % (val, want), res))
        full = xmeta.get(id(c), {}).get('xlabel')
        if full is not None:
            # exact-size family: the whole value is known (existing labels, then the interpolated configured ones)
            val = table_value(e[4], b'X-Label')
            if val != full:
                spec_bad.append((c, 'X-Label has %s bytes %r, must be the %d bytes %r' % (
                    'no' if val is None else len(val), None if val is None else val[:40] + b'...' + val[-20:] if len(val) > 70 else val, len(full),
                    full[:40] + b'...' + full[-20:] if len(full) > 70 else full), res))
    for c, what, res in spec_bad[:5]:
        rep.finding('unlisted', dict(c.readable(), what=what, implementation=c.impl[:1500], specification=res))
    for c in faults[:5]:
        rep.finding('sanitizer-fault', dict(c.readable(), implementation=c.impl))
    if corr_bad and not rep.violations:
        rep.violation({'obligation': 'correspondence match.c (interpolate, match_interpolate) <-> Model/Eval.lean',
                       'disagreements': len(corr_bad),
                       'examples': [dict(c.readable(), implementation=ec.impl_core(c), model=c.model) for c in corr_bad[:5]]}, False)
    mstat, mbad = macro_stage(rep, rng, sc, 400 if rep.tier == 'quick' else 20000)
    # the buffer all of these strings are built in, against its index-level model and the append statement (tools/lbuf.py; C07 runs the long form)
    bstage = lbuf.stage(rep, sc, random.Random(rep.seed * 7919 + 12), 700 if rep.tier == 'quick' else 6000, big=False)
    # an interpolated move destination combined with flag actions of the same rule, on the real binary (tools/c12merge.py; F26)
    import proc
    import c12merge
    ptools = proc.Tools(sc)
    mgstat = c12merge.stage(rep, ptools)
    # message paths and captured texts that look like template syntax, on the real binary (tools/c12paths.py)
    ppstat = c12paths.stage(rep, ptools)
    vlib.lean_conclude(rep)
    rep.coverage.update({
        'move_flag_merge': mgstat,
        'lookalike_paths_process': ppstat,
        'lookalike_paths_unit': dict(pstat, rule='rules with two capturing patterns (flags l/u/i) on messages whose file name, maildir directory (a third of the '
                                                 'cases), Subject, To, X-Label and body are drawn from the alphabet `\\ \\\\ . $ { } path x ${path} ${x} ${ \\0 \\1 \\2 \\9 '
                                                 '\\057 \\072 \\1.2 \\0.1 digits`: the value of ${path} and the captured texts spell references and macros; templates mix '
                                                 '\\N, \\M.N, \\N\\., ${path} and literals of the same alphabet in move / label / exec / add-header; judged like the '
                                                 'generated rules (exact model comparison; every interpolated argument against Spec.interp)'),
        'macro_expansion': mstat,
        'macro_spec_failures': len(mbad),
        'macro_rule': 'C12_macros: strings over `$ { } ${name} ${path} ${nosuch} ${` in each of the 11 string positions of the grammar (move, label, '
                      'exec, add-header value = action context; add-header name, flags, header name, isdirectory, command, maildir path, macro '
                      'value = default context), with macros defined in the file (one built from another, two whose values concatenate to a '
                      'reference) and with -D (also overriding a definition of the file): the string the REAL parser leaves in its tree, or its '
                      'rejection, against Spec.mexpand (one pass, values verbatim, ${path} deferred in action contexts only)',
        'evaluations': len(cases),
        'distinct_nontrivial': len(set((c.conf, c.msg) for c, e, pre, items in checks if any(b'\\' in t or b'${' in t for (k, i, t, cp) in items))),
        'rule': '%d generated rules x 2 messages with 1-3 capturing header/body patterns (flags i/l/u) and argument templates mixing literals, '
                '\\N, \\M.N, escaped dots, ${path}, out-of-range numbers, over message texts that look like templates; the real evaluator '
                'and matches_interpolate are compared with the Lean model (exact) and every interpolated argument (move destination, exec '
                'argv, label) with Spec.interp evaluated on the captures the implementation recorded; non-trivial = case with at least one '
                'template containing a back-reference or macro' % n,
        'samples': [dict(c.readable(), implementation=c.impl[:300]) for c in rng.sample([x[0] for x in checks] or cases, 3)],
        'distribution': stat,
        'numeric_boundaries': dict(bstat, rule='back-reference numbers at 2^31, 2^32, 2^33, 3*2^32, 2^63, 2^64, 2^64+2^32, 2^64+2^33 (each -3..+3), 10^19, '
                                                '10^20, longer, leading zeros; in \\N, \\N\\., \\N.g, \\p.N, \\N.N; each in two of move/label/exec/add-header with two '
                                                'matching patterns; judged by Spec.interp (a number above INT_MAX is an error: message untouched); after the dot also the '
                                                'sign/blank forms strtoul accepts with |n| around 2^31, 2^32, 2^63, 2^64-2^32, 2^64-2^31, 2^64 (outside the '
                                                'specification: Model.strtoul against glibc strtoul through the exact model comparison)'),
        'exact_sizes': dict(xstat, rule='captures, ${path} values and existing / configured labels of exactly the capacities of the buffers the strings are '
                                        'built in (read from the buffer_alloc() calls of the source: interpolate 64, X-Label 128, doubling), one less and one more: '
                                        'alone, after and before literal text, two in a row, appended to an existing X-Label; in label / exec / add-header / move; '
                                        'judged by Spec.interp per template, the whole X-Label value and the value of a header added once'),
        'libks_buffer': bstage,
        'correspondence_mismatches': len(corr_bad),
        'spec_failures': len(spec_bad),
        'sanitizer_faults': len(faults),
    })
    rep.assumptions += ['templates where `\\N.` is not followed by a digit are outside the specification (strtoul quirk, recorded in DESIGN.md)']


def replay(rep, path):
    import json
    j = json.load(open(path))
    sc = vlib.Scratch()
    h, env = ec.harness(sc)
    vlib.lean_gate(rep, 'C12', sc, [])
    if j.get('stage') == 'c12paths':
        import proc
        import c12paths
        c12paths.replay(rep, proc.Tools(sc), j)
        rep.coverage.update({'evaluations': 1, 'distinct_nontrivial': 1})
        return
    if str(j.get('stage', '')).startswith('libks buffer'):
        lbuf.replay(rep, sc, j)
        rep.coverage.update({'evaluations': 1, 'distinct_nontrivial': 1})
        return
    js = j.get('examples', [j])
    for e in js:
        out = vlib.run_batch([h], [e['request']], env)
        print('request        %s' % e['request'][:200])
        print('implementation %s' % out[0][:2000])
    rep.coverage.update({'evaluations': len(js), 'distinct_nontrivial': len(js)})
