"""C09 - maildir names, flags, subdirectories and timestamps (flag algebra; destinations/timestamps: process level)."""
import random
import vlib
import evalcommon as ec

NAMES = ['1.h', '2.h:2,', '3.h:2,S', '4.h:2,FRS', '5.h:2,sa', '6.h:1,S', '7:2,:2,T', '8.h:2', '9.h:', 'a:b:2,X', 'b.h:2,S1', 'c.h:2,ZAz',
         'd.h:2,SS', 'e.h:2,s', 'f:2,S:', ':2,', 'g.h:2,SRFPTD', 'h.h:2,abcxyzABCXYZ']


def A(s):
    return s.encode('latin-1') if isinstance(s, str) else s


def run(rep):
    rng = random.Random(rep.seed)
    sc = vlib.Scratch()
    h, env = ec.harness(sc)
    vlib.lean_gate(rep, 'C09', sc, [
        'isupper/islower are ASCII (C / C.utf8 locale)',
        'destination of move/flag/flags sequences, fresh names and timestamps are decided by the process-level part of this check',
    ])
    n = 20000 if rep.tier == 'quick' else 1000000
    reqs = []
    letters = 'ABCDEFGHIJKLMNOPQRSTUVWXYZabcdefghijklmnopqrstuvwxyz'
    for name in NAMES:
        reqs.append(('flagsp', A(name)))
    for _ in range(n):
        k = rng.random()
        if k < 0.3:
            fl = ''.join(rng.choice(letters + '12,:') if rng.random() < 0.1 else rng.choice(letters) for _ in range(rng.randrange(0, 8)))
            base = rng.choice(['1.host', 'a:b', '', 'x:2,S', '1790000000.4242_8.host'])
            reqs.append(('flagsp', A(base + rng.choice([':2,', ':2,', ':2,', ':1,', ':', '']) + fl)))
        elif k < 0.6:
            u = rng.getrandbits(26) if rng.random() < 0.8 else rng.choice([0, 1 << 18, (1 << 26) - 1])
            lo = rng.getrandbits(26) if rng.random() < 0.5 else 0
            reqs.append(('flagss', A(str(u)), A(str(lo)), A(str(rng.choice([64, 64, 64, 64, 4, 3, 10, 30, 56, 57])))))
        else:
            u = rng.getrandbits(26) if rng.random() < 0.7 else rng.choice([0, 1 << 18])
            lo = rng.getrandbits(26) if rng.random() < 0.3 else 0
            reqs.append(('msgflags', A(rng.choice('nc')), A(rng.choice('nc')), A(str(u)), A(str(lo))))
    d = vlib.Differential(rep, [h], env=env, spec_ops={'flagsp', 'flagss', 'msgflags'}, name='h_expr')
    impl, model, spec = d.run(reqs, shrink=False)
    d.conclude('message.c/maildir.c flag functions <-> Model/Flags.lean')
    # flags come from the file NAME only: maildirs whose path contains ':' (through the real message_parse + evaluator)
    cases = []
    conf = 'maildir "~/md" {\n\tmatch old move "~/dst/o"\n\tmatch new move "~/dst/n"\n\tmatch all flags "T"\n}\n'
    for sub in ('md/new', 'md/cur', 'a:b/new', 'a:b/cur'):
        for name in ('1.host', '2.host:2,S', '3.host:2,FR', '4.host:2,', '5.host:1,S', '6:2,x:2,T'):
            cases.append(ec.Case(conf, [], b'To: a\n\nb\n', sub, name, '0'))
    ec.run_cases(h, env, cases, want_spec=False)
    bad = [c for c in cases if c.note != 'noeval' and c.model is not None and ec.impl_core(c) != c.model]
    for c in cases:
        if c.note == 'fault':
            rep.finding('sanitizer-fault', dict(c.readable(), implementation=c.impl))
            continue
        # property oracle: a name without ':' or with a well-formed ':2,' suffix must be accepted whatever the directory is called
        wellformed = c.name in ('1.host', '2.host:2,S', '3.host:2,FR', '4.host:2,', '6:2,x:2,T')
        got_err = (c.impl or '').endswith('PARSEERR') or (c.impl or '') == 'PARSEERR'
        if wellformed and got_err:
            rep.finding('unlisted', dict(c.readable(), implementation=c.impl, what='flags taken from outside the file name: message rejected because of its directory'))
        if not wellformed and not got_err:
            rep.finding('unlisted', dict(c.readable(), implementation=c.impl[:200], what='invalid flag suffix accepted'))
    if bad and not rep.violations:
        rep.violation({'obligation': 'correspondence message_parse flags / new / old <-> Model', 'disagreements': len(bad),
                       'examples': [dict(c.readable(), implementation=ec.impl_core(c), model=c.model) for c in bad[:5]]}, False)
    vlib.lean_conclude(rep)
    rep.coverage.update({
        'evaluations': d.evals,
        'distinct_nontrivial': len(set(r for r, i in zip(reqs, impl) if i.startswith('OK') and i != 'OK 0 0')),
        'rule': '%d requests: file names with/without :2, suffix (upper/lower case, duplicates, unsorted, invalid), random 52-bit flag sets '
                'through message_flags_str with several buffer sizes, msgflags for the four subdirectory pairs; implementation vs model vs '
                'specification; non-trivial = accepted with a non-empty result' % len(reqs),
        'samples': [{'request': d.line(reqs[i]), 'implementation': impl[i], 'specification': spec[i]} for i in rng.sample(range(len(reqs)), 4)],
        'correspondence_mismatches': len(d.corr_mismatch),
        'spec_failures': len(d.spec_fail),
    })


def replay(rep, path):
    import msgcommon as mc
    mc.generic_replay(rep, path, 'C09', {'flagsp', 'flagss', 'msgflags'}, {}, included=ec.INCLUDED, hname='h_expr')
