"""C09 - maildir names, flags, subdirectories and timestamps (flag algebra; destinations/timestamps: process level)."""
import concurrent.futures as cf
import os
import random
import re
import vlib
import evalcommon as ec
import proc
import world
import worldscen as ws

NAMES = ['1.h', '2.h:2,', '3.h:2,S', '4.h:2,FRS', '5.h:2,sa', '6.h:1,S', '7:2,:2,T', '8.h:2', '9.h:', 'a:b:2,X', 'b.h:2,S1', 'c.h:2,ZAz',
         'd.h:2,SS', 'e.h:2,s', 'f:2,S:', ':2,', 'g.h:2,SRFPTD', 'h.h:2,abcxyzABCXYZ']


def A(s):
    return s.encode('latin-1') if isinstance(s, str) else s


R = '@R@'
GEN = re.compile(r'^1790000000\.4242_(\d+)\.host(:2,[A-Za-z]*)?$')


def letters(name):
    return set(name.rsplit(':2,', 1)[1]) if ':2,' in name else set()


def canon_suffix(fl):
    return ':2,' + ''.join(sorted(c for c in fl if c.isupper())) + ''.join(sorted(c for c in fl if c.islower()))


class PScen:
    """A process-level scenario: configuration, initial messages {(md, sub, name): id}, decoys, device map and what the documented
    behaviour makes of each message: expect(md, sub, name) -> (maildir, subdir, extra flag letters)."""

    def __init__(self, name, conf, msgs, expect, decoys=(), devmap=(), dirs=('src', 'dstA', 'dstB')):
        self.name, self.conf, self.msgs, self.expect, self.decoys, self.devmap, self.dirs = name, conf, msgs, expect, list(decoys), devmap, dirs

    def tree(self):
        t = {}
        for d in self.dirs:
            t.update(proc.maildir_tree(d, {}))
        for (md, sub, name), i in self.msgs.items():
            t['%s/%s/%s' % (md, sub, name)] = ws.msg(i)
        for rel in self.decoys:
            t[rel] = b'X-Decoy: ' + rel.encode() + b'\n\ndecoy\n'
        return t


PNAMES = [('new', '1.host'), ('new', '2.host:2,FR'), ('new', '5.host:2,sa'), ('cur', '3.host:2,S'), ('cur', '4.host:2,RS'), ('cur', '6.host:2,F')]


def pscenarios(tier):
    base = {('src', sub, name): i + 1 for i, (sub, name) in enumerate(PNAMES)}
    S = []
    S.append(PScen('move', 'maildir "%s/src" {\n\tmatch all move "%s/dstA"\n}\n' % (R, R), base, lambda md, sub, n: ('dstA', sub, '')))
    S.append(PScen('move-exdev', 'maildir "%s/src" {\n\tmatch all move "%s/dstA"\n}\n' % (R, R), base, lambda md, sub, n: ('dstA', sub, ''),
                   devmap=('%s/dstA' % R,)))
    S.append(PScen('flag-cur', 'maildir "%s/src" {\n\tmatch new flag !new\n}\n' % R, base, lambda md, sub, n: ('src', 'cur', '')))
    # only new/ is configured so that the walk does not meet the messages it has just put into new/ a second time
    S.append(PScen('flag-new', 'maildir "%s/src" {\n\tmatch header "X-Id" /^[456]$/ flag new\n}\n' % R, base,
                   lambda md, sub, n: ('src', 'new' if n[0] in '346' else sub, '')))
    S.append(PScen('flags', 'maildir "%s/src" {\n\tmatch all flags "Tb"\n}\n' % R, base, lambda md, sub, n: ('src', sub, 'Tb')))
    S.append(PScen('move-flag', 'maildir "%s/src" {\n\tmatch new move "%s/dstB" flag !new\n}\n' % (R, R), base,
                   lambda md, sub, n: ('dstB', 'cur', '') if sub == 'new' else ('src', sub, '')))
    S.append(PScen('move-flag-exdev', 'maildir "%s/src" {\n\tmatch new move "%s/dstB" flag !new\n}\n' % (R, R), base,
                   lambda md, sub, n: ('dstB', 'cur', '') if sub == 'new' else ('src', sub, ''), devmap=('%s/dstB' % R,)))
    # destinations pre-populated with the names the generator will try next (counter starts at VSHIM_RANDOM % 128 = 7)
    for k in ((1, 3) if tier == 'quick' else (1, 2, 3, 5)):
        decoys = []
        for c in range(8, 8 + k):
            for sub, suf in (('new', ':2,'), ('new', ':2,FR'), ('new', ':2,as'), ('cur', ':2,S'), ('cur', ':2,RS'), ('cur', ':2,FS')):
                decoys.append('dstA/%s/1790000000.4242_%d.host%s' % (sub, c, suf))
        S.append(PScen('prepop-%d' % k, 'maildir "%s/src" {\n\tmatch all move "%s/dstA"\n}\n' % (R, R), base, lambda md, sub, n: ('dstA', sub, ''),
                       decoys=decoys))
        S.append(PScen('prepop-exdev-%d' % k, 'maildir "%s/src" {\n\tmatch all move "%s/dstA"\n}\n' % (R, R), base, lambda md, sub, n: ('dstA', sub, ''),
                       decoys=decoys, devmap=('%s/dstA' % R,)))
    return S


def judge(ps, scen, r):
    """The property evaluated on the real final tree (independent of the model)."""
    probs = []
    final = {rel: v for rel, v in r.final.items() if v[0] == 'file' and re.search(r'/(new|cur)/[^/]+$', rel)}
    byid = {}
    for rel, (kind, data, mt) in final.items():
        i = ws.msg_id(data)
        if i is not None:
            byid.setdefault(i, []).append(rel)
    for (md, sub, name), i in ps.msgs.items():
        rel0 = '%s/%s/%s' % (md, sub, name)
        where = byid.get(i, [])
        if len(where) != 1:
            probs.append('message %d (%s) exists %d times: %s' % (i, rel0, len(where), where))
            continue
        rel = where[0]
        emd, esub, extra = ps.expect(md, sub, name)
        fmd, fsub, fname = rel.split('/')
        if (fmd, fsub) != (emd, esub):
            probs.append('message %d (%s) is in %s/%s, documented destination %s/%s' % (i, rel0, fmd, fsub, emd, esub))
        moved = rel != rel0
        want = set(letters(name)) | set(extra)
        if sub == 'new' and fsub == 'cur':
            want.add('S')
        if sub == 'cur' and fsub == 'new':
            want.discard('S')
        if moved:
            if not GEN.match(fname):
                probs.append('message %d: destination name %r is not a freshly generated name' % (i, fname))
            suffix = fname[fname.index(':2,'):] if ':2,' in fname else ''
            if suffix != canon_suffix(want):
                probs.append('message %d (%s): flags written as %r, expected %r' % (i, rel0, suffix, canon_suffix(want)))
            if final[rel][1] != scen.initial[rel0][1]:
                probs.append('message %d: content changed by a move' % i)
            if final[rel][2] != scen.initial[rel0][2]:
                probs.append('message %d (%s -> %s): modification time %s, was %s' % (i, rel0, rel, final[rel][2], scen.initial[rel0][2]))
        elif letters(fname) != want:
            probs.append('message %d (%s) was not touched although flags %r were to be applied' % (i, rel0, extra))
    for rel in ps.decoys:
        if r.final.get(rel) != scen.initial.get(rel):
            probs.append('pre-existing destination file %s was replaced or changed' % rel)
    return probs


ACTS = [('move "%s/dstA"' % R, 'm', '%s/dstA'), ('move "%s/dstB"' % R, 'm', '%s/dstB'), ('flag new', 'f', 'new'), ('flag !new', 'f', 'cur'),
        ('flags "F"', 'F', 'F')]


def sequence_part(rep, tools, tier):
    """Every sequence of <= 3 (thorough: 4) move/flag/flags actions, from new and from cur, on the real binary: the message must end in
    (maildir of the last move, else its own) / (subdirectory of the last flag, else its own) - Spec.dest.  The sequences on which the pinned
    code does not do that are exactly those outside Spec.destOK (proved: C09_destination_partial; exactness checked to length 6): known
    finding F12, identified by `not destOK` AND the real result being the one the transcription of the pinned code computes."""
    import itertools
    maxlen = 3 if tier == 'quick' else 4
    seqs = [s for n in range(1, maxlen + 1) for s in itertools.product(range(len(ACTS)), repeat=n)]
    jobs = [(sub, s) for sub in ('new', 'cur') for s in seqs]

    def one(job):
        sub, s = job
        cond = 'new' if sub == 'new' else '! new'
        conf = 'maildir "%s/src" {\n\tmatch %s %s\n}\n' % (R, cond, ' '.join(ACTS[i][0] for i in s))
        name = '1.host' if sub == 'new' else '1.host:2,S'
        tree = {}
        for d in ('src', 'dstA', 'dstB'):
            tree.update(proc.maildir_tree(d, {}))
        tree['src/%s/%s' % (sub, name)] = ws.msg(1)
        scen = proc.Scenario(tools, conf, tree)
        try:
            r = scen.run(trace=False)
            where = [rel for rel, v in r.final.items() if v[0] == 'file' and re.search(r'/(new|cur)/[^/]+$', rel) and ws.msg_id(v[1]) == 1]
            root = scen.root
            acts = [(ACTS[i][1] + (ACTS[i][2] % root if '%s' in ACTS[i][2] else ACTS[i][2])).encode() for i in s]
            req = ' '.join(['dest', vlib.hexs(('%s/src' % root).encode()), vlib.hexs(sub.encode()), vlib.hexs(name.encode())] + [vlib.hexs(a) for a in acts])
            return {'sub': sub, 'seq': [ACTS[i][0].replace(R + '/', '') for i in s], 'status': r.status, 'where': where, 'root': root, 'req': req,
                    'fname': where[0].rsplit('/', 1)[1] if len(where) == 1 else None, 'has_flags': any(ACTS[i][1] == 'F' for i in s)}
        finally:
            scen.cleanup()

    with cf.ThreadPoolExecutor(vlib.NCPU) as ex:
        res = list(ex.map(one, jobs))
    spec = vlib.run_batch([vlib.driver_path()], ['S ' + r['req'] for r in res])
    model = vlib.run_batch([vlib.driver_path()], ['M ' + r['req'] for r in res])
    stats = {'runs': len(res), 'documented_place': 0, 'known_F12': 0, 'violations': 0, 'corr': 0}
    corr = []
    for r, sp, mo in zip(res, spec, model):
        ok, path = sp.split(' ')
        want = vlib.unhex(path).decode('latin-1')
        got = [os.path.join(r['root'], os.path.dirname(w)) for w in r['where']]
        pinned = vlib.unhex(mo[3:]).decode('latin-1') if mo.startswith('OK ') else None
        desc = {'source_subdir': r['sub'], 'actions': r['seq'], 'exit_status': r['status'], 'found_in': [g.replace(r['root'], R) for g in got],
                'documented_destination': want.replace(r['root'], R), 'destOK': ok == '1'}
        if len(got) != 1 or r['status'] != 0:
            stats['violations'] += 1
            rep.finding('unlisted', dict(desc, what='the message does not exist exactly once after the run, or the run failed'))
            continue
        if r['has_flags'] and 'F' not in letters(r['fname']) and got[0] == want:
            stats['violations'] += 1
            rep.finding('unlisted', dict(desc, what='flags "F" was not applied (name %r)' % r['fname']))
            continue
        if got[0] == want:
            stats['documented_place'] += 1
            if ok != '1' and pinned != got[0]:
                corr.append(dict(desc, model_of_pinned_code=pinned))
            continue
        if ok == '1':
            stats['violations'] += 1
            rep.finding('unlisted', dict(desc, what='the message did not end in the documented destination'))
        elif pinned == got[0]:
            stats['known_F12'] += 1
            rep.finding('dest-unmerged-entry', dict(desc, what='destination computed from the original path by an unmerged flag/flags/move entry'))
        else:
            stats['violations'] += 1
            rep.finding('unlisted', dict(desc, model_of_pinned_code=(pinned or 'none').replace(r['root'], R),
                                         what='wrong destination, and not the one the pinned code computes for this sequence (a different defect than F12)'))
    if corr and not rep.violations:
        stats['corr'] = len(corr)
        rep.violation({'obligation': 'correspondence matches_append/matches_merge <-> Model.finalPlace on action sequences', 'examples': corr[:5]}, False)
    return stats


def process_part(rep, sc):
    tools = proc.Tools(sc)
    W = world.WorldCheck(sc, tools)
    results = []

    def one(ps):
        spec = ws.Spec(ps.name, ps.conf, [('^[456]$', '')] if 'X-Id' in ps.conf else [], tree=ps.tree(), devmap=ps.devmap)
        scen = spec.build(tools)
        try:
            r = scen.run()
            req, tr, notes = W.request(scen, spec.pats, r)
            kind, detail = world.compare(scen, r, W.verdict([req])[0])
            probs = judge(ps, scen, r)
            if r.status != 0:
                probs.append('exit status %s: %s' % (r.status, r.err[-200:].decode('latin-1')))
            ut = [t for t in r.calls() if t['name'] == 'utimensat']
            return {'scenario': ps.name, 'problems': probs, 'conform': kind, 'detail': detail[:400] if kind != 'ok' else '',
                    'utimensat_calls': len(ut), 'eexist': sum(1 for t in r.calls() if t['errno'] == 'EEXIST'), 'messages': len(ps.msgs)}
        finally:
            scen.cleanup()

    with cf.ThreadPoolExecutor(vlib.NCPU) as ex:
        results = list(ex.map(one, pscenarios(rep.tier)))
    bad = []
    for res in results:
        if res['problems']:
            rep.finding('unlisted', {'scenario': res['scenario'], 'what': res['problems'][:6], 'harness': 'process (real binary under the shim)'})
        elif res['conform'] != 'ok':
            bad.append(res)
    if bad and not rep.violations:
        rep.violation({'obligation': 'correspondence: the real run does not follow Model.mainP / ends in a different state (names, contents, '
                                     'modification times); the property oracle on the real tree found nothing wrong',
                       'disagreements': len(bad), 'examples': bad[:6]}, False)
    return results, sequence_part(rep, tools, rep.tier)


def run(rep):
    rng = random.Random(rep.seed)
    sc = vlib.Scratch()
    h, env = ec.harness(sc)
    vlib.lean_gate(rep, 'C09', sc, [
        'isupper/islower are ASCII (C / C.utf8 locale)',
        'destination of move/flag/flags sequences, fresh names and timestamps are decided by the process-level part of this check',
    ])
    n = 20000 if rep.tier == 'quick' else 1000000
    reqs = []
    letters = 'ABCDEFGHIJKLMNOPQRSTUVWXYZabcdefghijklmnopqrstuvwxyz'
    for name in NAMES:
        reqs.append(('flagsp', A(name)))
    for _ in range(n):
        k = rng.random()
        if k < 0.3:
            fl = ''.join(rng.choice(letters + '12,:') if rng.random() < 0.1 else rng.choice(letters) for _ in range(rng.randrange(0, 8)))
            base = rng.choice(['1.host', 'a:b', '', 'x:2,S', '1790000000.4242_8.host'])
            reqs.append(('flagsp', A(base + rng.choice([':2,', ':2,', ':2,', ':1,', ':', '']) + fl)))
        elif k < 0.6:
            u = rng.getrandbits(26) if rng.random() < 0.8 else rng.choice([0, 1 << 18, (1 << 26) - 1])
            lo = rng.getrandbits(26) if rng.random() < 0.5 else 0
            reqs.append(('flagss', A(str(u)), A(str(lo)), A(str(rng.choice([64, 64, 64, 64, 4, 3, 10, 30, 56, 57])))))
        else:
            u = rng.getrandbits(26) if rng.random() < 0.7 else rng.choice([0, 1 << 18])
            lo = rng.getrandbits(26) if rng.random() < 0.3 else 0
            reqs.append(('msgflags', A(rng.choice('nc')), A(rng.choice('nc')), A(str(u)), A(str(lo))))
    d = vlib.Differential(rep, [h], env=env, spec_ops={'flagsp', 'flagss', 'msgflags'}, name='h_expr')
    impl, model, spec = d.run(reqs, shrink=False)
    d.conclude('message.c/maildir.c flag functions <-> Model/Flags.lean')
    # flags come from the file NAME only: maildirs whose path contains ':' (through the real message_parse + evaluator)
    cases = []
    conf = 'maildir "~/md" {\n\tmatch old move "~/dst/o"\n\tmatch new move "~/dst/n"\n\tmatch all flags "T"\n}\n'
    for sub in ('md/new', 'md/cur', 'a:b/new', 'a:b/cur'):
        for name in ('1.host', '2.host:2,S', '3.host:2,FR', '4.host:2,', '5.host:1,S', '6:2,x:2,T'):
            cases.append(ec.Case(conf, [], b'To: a\n\nb\n', sub, name, '0'))
    ec.run_cases(h, env, cases, want_spec=False)
    bad = [c for c in cases if c.note != 'noeval' and c.model is not None and ec.impl_core(c) != ec.model_core(c)]
    for c in cases:
        if c.note == 'fault':
            rep.finding('sanitizer-fault', dict(c.readable(), implementation=c.impl))
            continue
        # property oracle: a name without ':' or with a well-formed ':2,' suffix must be accepted whatever the directory is called
        wellformed = c.name in ('1.host', '2.host:2,S', '3.host:2,FR', '4.host:2,', '6:2,x:2,T')
        got_err = (c.impl or '').endswith('PARSEERR') or (c.impl or '') == 'PARSEERR'
        if wellformed and got_err:
            rep.finding('unlisted', dict(c.readable(), implementation=c.impl, what='flags taken from outside the file name: message rejected because of its directory'))
        if not wellformed and not got_err:
            rep.finding('unlisted', dict(c.readable(), implementation=c.impl[:200], what='invalid flag suffix accepted'))
    if bad and not rep.violations:
        rep.violation({'obligation': 'correspondence message_parse flags / new / old <-> Model', 'disagreements': len(bad),
                       'examples': [dict(c.readable(), implementation=ec.impl_core(c), model=c.model) for c in bad[:5]]}, False)
    pres, seqstats = process_part(rep, sc)
    vlib.lean_conclude(rep)
    rep.coverage.update({
        'action_sequences': seqstats,
        'action_sequences_rule': 'every sequence of <= 3 (thorough 4) actions from {move A, move B, flag new, flag !new, flags "F"} from new and from '
                                 'cur on the real binary; the final place against Spec.dest; sequences outside Spec.destOK that end where the '
                                 'transcription of the pinned code says are the known finding F12, anything else wrong is a violation',
        'process_scenarios': [{k: v for k, v in r.items() if k != 'detail'} for r in pres],
        'process_rule': '%d runs of the real binary under the shim (pinned clock/pid/host/counter): move on one device and across devices, '
                        'flag in both directions, flags, move+flag, and destinations pre-populated with the next 1-5 candidate names for '
                        'every flag suffix; judged on the real tree: each message exactly once at the documented place, freshly generated '
                        'name, flags = old letters +/- S + configured ones written sorted without duplicates, content and modification '
                        'time (ns) unchanged, pre-existing destination files untouched; and every run followed call by call through '
                        'Model.mainP (fstatat value = mtime, utimensat arguments, EEXIST retries, final names/contents/mtimes)' % len(pres),
        'evaluations': d.evals + len(pres),
        'distinct_nontrivial': len(set(r for r, i in zip(reqs, impl) if i.startswith('OK') and i != 'OK 0 0')),
        'rule': '%d requests: file names with/without :2, suffix (upper/lower case, duplicates, unsorted, invalid), random 52-bit flag sets '
                'through message_flags_str with several buffer sizes, msgflags for the four subdirectory pairs; implementation vs model vs '
                'specification; non-trivial = accepted with a non-empty result' % len(reqs),
        'samples': [{'request': d.line(reqs[i]), 'implementation': impl[i], 'specification': spec[i]} for i in rng.sample(range(len(reqs)), 4)],
        'correspondence_mismatches': len(d.corr_mismatch),
        'spec_failures': len(d.spec_fail),
    })


def replay(rep, path):
    import msgcommon as mc
    mc.generic_replay(rep, path, 'C09', {'flagsp', 'flagss', 'msgflags'}, {}, included=ec.INCLUDED, hname='h_expr')
