"""C09 - maildir names, flags, subdirectories and timestamps (flag algebra; destinations/timestamps: process level)."""
import concurrent.futures as cf
import os
import random
import re
import vlib
import evalcommon as ec
import proc
import world
import worldscen as ws

NAMES = ['1.h', '2.h:2,', '3.h:2,S', '4.h:2,FRS', '5.h:2,sa', '6.h:1,S', '7:2,:2,T', '8.h:2', '9.h:', 'a:b:2,X', 'b.h:2,S1', 'c.h:2,ZAz',
         'd.h:2,SS', 'e.h:2,s', 'f:2,S:', ':2,', 'g.h:2,SRFPTD', 'h.h:2,abcxyzABCXYZ']


def A(s):
    return s.encode('latin-1') if isinstance(s, str) else s


R = '@R@'
GEN = re.compile(r'^1790000000\.4242_(\d+)\.host(:2,[A-Za-z]*)?$')


def letters(name):
    return set(name.rsplit(':2,', 1)[1]) if ':2,' in name else set()


def canon_suffix(fl):
    return ':2,' + ''.join(sorted(c for c in fl if c.isupper())) + ''.join(sorted(c for c in fl if c.islower()))


class PScen:
    """A process-level scenario: configuration, initial messages {(md, sub, name): id}, decoys, device map and what the documented
    behaviour makes of each message: expect(md, sub, name) -> (maildir, subdir, extra flag letters)."""

    def __init__(self, name, conf, msgs, expect, decoys=(), devmap=(), dirs=('src', 'dstA', 'dstB'), pats=None):
        self.name, self.conf, self.msgs, self.expect, self.decoys, self.devmap, self.dirs = name, conf, msgs, expect, list(decoys), devmap, dirs
        self.pats = pats
        self.relative = None              # (style of the walked maildir, style of the destinations): see relative_scenarios

    def tree(self):
        t = {}
        for d in self.dirs:
            t.update(proc.maildir_tree(d, {}))
        for (md, sub, name), i in self.msgs.items():
            t['%s/%s/%s' % (md, sub, name)] = ws.msg(i)
        for rel in self.decoys:
            t[rel] = b'X-Decoy: ' + rel.encode() + b'\n\ndecoy\n'
        if self.relative:
            t['sub'] = None                  # `sub/../src`
        return t


PNAMES = [('new', '1.host'), ('new', '2.host:2,FR'), ('new', '5.host:2,sa'), ('cur', '3.host:2,S'), ('cur', '4.host:2,RS'), ('cur', '6.host:2,F')]


def pscenarios(tier):
    base = {('src', sub, name): i + 1 for i, (sub, name) in enumerate(PNAMES)}
    S = []
    S.append(PScen('move', 'maildir "%s/src" {\n\tmatch all move "%s/dstA"\n}\n' % (R, R), base, lambda md, sub, n: ('dstA', sub, '')))
    S.append(PScen('move-exdev', 'maildir "%s/src" {\n\tmatch all move "%s/dstA"\n}\n' % (R, R), base, lambda md, sub, n: ('dstA', sub, ''),
                   devmap=('%s/dstA' % R,)))
    S.append(PScen('flag-cur', 'maildir "%s/src" {\n\tmatch new flag !new\n}\n' % R, base, lambda md, sub, n: ('src', 'cur', '')))
    # only new/ is configured so that the walk does not meet the messages it has just put into new/ a second time
    S.append(PScen('flag-new', 'maildir "%s/src" {\n\tmatch header "X-Id" /^[456]$/ flag new\n}\n' % R, base,
                   lambda md, sub, n: ('src', 'new' if n[0] in '346' else sub, '')))
    S.append(PScen('flags', 'maildir "%s/src" {\n\tmatch all flags "Tb"\n}\n' % R, base, lambda md, sub, n: ('src', sub, 'Tb')))
    S.append(PScen('move-flag', 'maildir "%s/src" {\n\tmatch new move "%s/dstB" flag !new\n}\n' % (R, R), base,
                   lambda md, sub, n: ('dstB', 'cur', '') if sub == 'new' else ('src', sub, '')))
    S.append(PScen('move-flag-exdev', 'maildir "%s/src" {\n\tmatch new move "%s/dstB" flag !new\n}\n' % (R, R), base,
                   lambda md, sub, n: ('dstB', 'cur', '') if sub == 'new' else ('src', sub, ''), devmap=('%s/dstB' % R,)))
    # destinations pre-populated with the names the generator will try next (counter starts at VSHIM_RANDOM % 128 = 7)
    for k in ((1, 3) if tier == 'quick' else (1, 2, 3, 5)):
        decoys = []
        for c in range(8, 8 + k):
            for sub, suf in (('new', ':2,'), ('new', ':2,FR'), ('new', ':2,as'), ('cur', ':2,S'), ('cur', ':2,RS'), ('cur', ':2,FS')):
                decoys.append('dstA/%s/1790000000.4242_%d.host%s' % (sub, c, suf))
        S.append(PScen('prepop-%d' % k, 'maildir "%s/src" {\n\tmatch all move "%s/dstA"\n}\n' % (R, R), base, lambda md, sub, n: ('dstA', sub, ''),
                       decoys=decoys))
        S.append(PScen('prepop-exdev-%d' % k, 'maildir "%s/src" {\n\tmatch all move "%s/dstA"\n}\n' % (R, R), base, lambda md, sub, n: ('dstA', sub, ''),
                       decoys=decoys, devmap=('%s/dstA' % R,)))
    return S


# Maildir names made of characters that mean something elsewhere in mdsort (back-references and macros of interpolate(), printf
# directives, the flag separator of file names, blanks / newline of the lexer, glob characters, the comment and option characters,
# 8-bit bytes, a component that is itself called new/cur/tmp), also as a PARENT component.  The documented destination of
# move / flag / flags does not depend on how the maildir is called.
SPECIAL = ['box\\0', 'm\\1x', 'a\\2', 'n\\0.1b', 'p${path}', 'q${', 'r%s%n%', 's:2,S', 't u  v', 'w\nx', 'y*?[z]', 'caf\xe9\xff\x80', 'a:b', "q'`$(x)",
           '#h', '-n', '~t', 'new', 'out\\0er/in', 'o:2,/in ner']
COND = ('header "To" /(us)(er)/', [('(us)(er)', '')])      # an interpolating condition: \0 = user, \1 = us, \2 = er


def cstr(path):
    """A literal path as the text between the quotes of a configuration string: `\\"` is the only escape of yylex1, everything else
    (backslash, newline, 8-bit) is taken as it is; `${` would start a macro, so the `$` comes out of the macro d = "$" (expansion is
    single-pass, the result is not looked at again)."""
    assert not path.endswith('\\') and '\\"' not in path
    return path.replace('"', '\\"').replace('${', '${d}{')


def mkconf(text):
    return ('d = "$"\n' if '${d}' in text else '') + text


def mdref(rel):
    """How the configuration names the maildir at `rel` of the sandbox: below home/ through ~, otherwise by its absolute path."""
    return ('~/' + cstr(rel[5:])) if rel.startswith('home/') else (R + '/' + cstr(rel))


def as_destination(name):
    """Can the name be written as a move destination that means itself?  (`\\N` and `${...}` in a destination ARE interpolated.)"""
    return not re.search(r'\\\d|\$\{', name)


def expansions(name):
    """Names an erroneous interpolation of the maildir's own name would produce: decoy maildirs make a wrong destination visible."""
    out = set()
    for whole in ('user', '4', '5', '6', ''):
        e = name.replace('\\0.1', 'us').replace('\\0', whole).replace('\\1', 'us').replace('\\2', 'er')
        if e != name and e and not e.endswith('/') and '//' not in e:
            out.add(e)
    return sorted(out)


def special_scenarios(tier):
    S = []
    for n, N in enumerate(SPECIAL):
        for via in ('', 'home/'):
            M = via + N
            msgs = {(M, sub, name): i + 1 for i, (sub, name) in enumerate(PNAMES)}
            dirs = tuple([M, 'src', 'dstA', 'dstB'] + [via + e for e in expansions(N)])
            walked = [
                ('flag-cur-cond', 'match new and %s flag !new' % COND[0], COND[1], lambda md, sub, nm, M=M: (M, 'cur' if sub == 'new' else sub, '')),
                ('flag-cur', 'match new flag !new', [], lambda md, sub, nm, M=M: (M, 'cur' if sub == 'new' else sub, '')),
                ('flag-new', 'match header "X-Id" /^[456]$/ flag new', [('^[456]$', '')], lambda md, sub, nm, M=M: (M, 'new' if nm[0] in '346' else sub, '')),
                ('flags', 'match %s flags "Tb"' % COND[0], COND[1], lambda md, sub, nm, M=M: (M, sub, 'Tb')),
                ('move-out', 'match all move "%s"' % mdref('dstA'), [], lambda md, sub, nm: ('dstA', sub, '')),
                ('move-flag-out', 'match new and %s move "%s" flag !new' % (COND[0], mdref('dstB')), COND[1],
                 lambda md, sub, nm, M=M: ('dstB', 'cur', '') if sub == 'new' else (M, sub, '')),
            ]
            if via and tier == 'quick':
                walked = walked[:1] + walked[3:4]
            for kind, rule, pats, expect in walked:
                S.append(PScen('special-%d-%s%s' % (n, kind, '-tilde' if via else ''), mkconf('maildir "%s" {\n\t%s\n}\n' % (mdref(M), rule)), msgs, expect,
                               dirs=dirs, pats=pats))
            if not as_destination(N):
                continue
            smsgs = {('src', sub, name): i + 1 for i, (sub, name) in enumerate(PNAMES)}
            into = [
                ('move-in', 'match all move "%s"' % mdref(M), [], lambda md, sub, nm, M=M: (M, sub, '')),
                ('move-flag-in', 'match new move "%s" flag !new' % mdref(M), [], lambda md, sub, nm, M=M: (M, 'cur', '') if sub == 'new' else ('src', sub, '')),
                ('flag-move-in', 'match new and %s flag !new move "%s"' % (COND[0], mdref(M)), COND[1],
                 lambda md, sub, nm, M=M: (M, 'cur', '') if sub == 'new' else ('src', sub, '')),
            ]
            if via and tier == 'quick':
                into = into[:1]
            for kind, rule, pats, expect in into:
                S.append(PScen('special-%d-%s%s' % (n, kind, '-tilde' if via else ''), mkconf('maildir "%s/src" {\n\t%s\n}\n' % (R, rule)), smsgs, expect,
                               dirs=dirs, pats=pats))
    return S

# Maildirs named RELATIVE to the working directory of the run (the sandbox root): `maildir "src"`, `move "dstA"`, `isdirectory "dstA"`,
# `-f conf`; also `./src`, `src/`, `src//`, `../<root>/src`, `sub/../src`, mixed with absolute names.  util.c pathslice() infers the maildir
# and the subdirectory of a flag / flags / move action from the message's path and treats a path without a leading slash separately
# ("compensate for missing leading slash").  The documented destination does not depend on how a maildir is written.
RELSTYLES = [('plain', lambda d: d), ('dot', lambda d: './' + d), ('slash', lambda d: d + '/'), ('slash2', lambda d: d + '//'),
             ('dotdot', lambda d: '../@B@/' + d), ('inner', lambda d: 'sub/../' + d), ('dotslash2', lambda d: './/' + d), ('abs', lambda d: R + '/' + d)]


def relative_scenarios(tier):
    S = []
    st = dict(RELSTYLES)
    names = [n for n, _ in RELSTYLES]
    if tier == 'quick':
        combos = [(a, a) for a in names if a != 'abs'] + [('plain', 'abs'), ('abs', 'plain'), ('dot', 'plain'), ('plain', 'slash'), ('dotdot', 'dot'),
                                                          ('abs', 'dotdot')]
    else:
        combos = [(a, b) for a in names for b in names if (a, b) != ('abs', 'abs')]
    msgs = {('src', sub, name): i + 1 for i, (sub, name) in enumerate(PNAMES)}
    for a, b in combos:
        src, dst, other = st[a]('src'), st[b]('dstA'), st[b]('dstB')
        rules = [
            ('flag-cur', 'match new flag !new', [], lambda md, sub, nm: ('src', 'cur', '')),
            ('flag-new', 'match header "X-Id" /^[456]$/ flag new', [('^[456]$', '')], lambda md, sub, nm: ('src', 'new' if nm[0] in '346' else sub, '')),
            ('flags', 'match all flags "Tb"', [], lambda md, sub, nm: ('src', sub, 'Tb')),
            ('move', 'match all move "%s"' % dst, [], lambda md, sub, nm: ('dstA', sub, '')),
            ('move-flag', 'match new move "%s" flag !new' % dst, [], lambda md, sub, nm: ('dstA', 'cur', '') if sub == 'new' else ('src', sub, '')),
            ('flag-move', 'match new flag !new move "%s"' % dst, [], lambda md, sub, nm: ('dstA', 'cur', '') if sub == 'new' else ('src', sub, '')),
            ('isdirectory', 'match isdirectory "%s" and ! isdirectory "%s" move "%s"' % (dst, st[b]('nowhere'), other), [],
             lambda md, sub, nm: ('dstB', sub, '')),
            ('isdirectory-else', 'match isdirectory "%s" move "%s"\n\tmatch all move "%s"' % (st[b]('nowhere'), dst, other), [],
             lambda md, sub, nm: ('dstB', sub, '')),
        ]
        for kind, rule, pats, expect in rules:
            ps = PScen('relative-%s-%s-%s' % (a, b, kind), 'maildir "%s" {\n\t%s\n}\n' % (src, rule), msgs, expect, dirs=('src', 'dstA', 'dstB'), pats=pats)
            ps.relative = (a, b)
            S.append(ps)
    return S


def judge(ps, scen, r):
    """The property evaluated on the real final tree (independent of the model)."""
    probs = []
    final = {rel: v for rel, v in r.final.items() if v[0] == 'file' and re.search(r'/(new|cur)/[^/]+$', rel)}
    byid = {}
    for rel, (kind, data, mt) in final.items():
        i = ws.msg_id(data)
        if i is not None:
            byid.setdefault(i, []).append(rel)
    for (md, sub, name), i in ps.msgs.items():
        rel0 = '%s/%s/%s' % (md, sub, name)
        where = byid.get(i, [])
        if len(where) != 1:
            probs.append('message %d (%s) exists %d times: %s' % (i, rel0, len(where), where))
            continue
        rel = where[0]
        emd, esub, extra = ps.expect(md, sub, name)
        fmd, fsub, fname = rel.rsplit('/', 2)
        if (fmd, fsub) != (emd, esub):
            probs.append('message %d (%r) is in %r/%s, documented destination %r/%s' % (i, rel0, fmd, fsub, emd, esub))
        moved = rel != rel0
        want = set(letters(name)) | set(extra)
        if sub == 'new' and fsub == 'cur':
            want.add('S')
        if sub == 'cur' and fsub == 'new':
            want.discard('S')
        if moved:
            if not GEN.match(fname):
                probs.append('message %d: destination name %r is not a freshly generated name' % (i, fname))
            suffix = fname[fname.index(':2,'):] if ':2,' in fname else ''
            if suffix != canon_suffix(want):
                probs.append('message %d (%s): flags written as %r, expected %r' % (i, rel0, suffix, canon_suffix(want)))
            if final[rel][1] != scen.initial[rel0][1]:
                probs.append('message %d: content changed by a move' % i)
            if final[rel][2] != scen.initial[rel0][2]:
                probs.append('message %d (%s -> %s): modification time %s, was %s' % (i, rel0, rel, final[rel][2], scen.initial[rel0][2]))
        elif letters(fname) != want:
            probs.append('message %d (%s) was not touched although flags %r were to be applied' % (i, rel0, extra))
    for rel in ps.decoys:
        if r.final.get(rel) != scen.initial.get(rel):
            probs.append('pre-existing destination file %s was replaced or changed' % rel)
    return probs


ACTS = [('move "%s/dstA"' % R, 'm', '%s/dstA'), ('move "%s/dstB"' % R, 'm', '%s/dstB'), ('flag new', 'f', 'new'), ('flag !new', 'f', 'cur'),
        ('flags "F"', 'F', 'F')]


def sequence_part(rep, tools, tier):
    """Every sequence of <= 3 (thorough: 4) move/flag/flags actions, from new and from cur, on the real binary: the message must end in
    (maildir of the last move, else its own) / (subdirectory of the last flag, else its own) - Spec.dest.  The sequences on which the pinned
    code does not do that are exactly those outside Spec.destOK (proved: C09_destination_partial; exactness checked to length 6): known
    finding F12, identified by `not destOK` AND the real result being the one the transcription of the pinned code computes."""
    import itertools
    maxlen = 3 if tier == 'quick' else 4
    seqs = [s for n in range(1, maxlen + 1) for s in itertools.product(range(len(ACTS)), repeat=n)]
    plain = ('src', 'dstA', 'dstB')
    jobs = [(sub, s, plain, False) for sub in ('new', 'cur') for s in seqs]
    # the same sequences (one action shorter) with the walked maildir and the two destinations called by SPECIAL names, under a rule with
    # an interpolating condition: the place the message ends in does not depend on what the maildirs are called
    dests = [n for n in SPECIAL if as_destination(n)]
    for k, src in enumerate(SPECIAL):
        names = (src, dests[k % len(dests)], dests[(k + 5) % len(dests)])
        if len(set(names)) == 3 and (tier != 'quick' or k % 2 == 0 or not as_destination(src)):
            jobs += [(sub, s, names, True) for sub in ('new', 'cur') for s in seqs if len(s) < maxlen]

    def one(job):
        sub, s, (msrc, mA, mB), special = job
        cond = 'new' if sub == 'new' else '! new'
        if special:
            cond = COND[0] + ' and ' + cond
        pathof = {'%s/dstA': mA, '%s/dstB': mB}
        text = lambda i: ('move "%s"' % mdref(pathof[ACTS[i][2]])) if ACTS[i][1] == 'm' else ACTS[i][0]
        conf = mkconf('maildir "%s" {\n\tmatch %s %s\n}\n' % (mdref(msrc), cond, ' '.join(text(i) for i in s)))
        name = '1.host' if sub == 'new' else '1.host:2,S'
        tree = {}
        for d in (msrc, mA, mB) + (tuple(expansions(msrc)) if special else ()):
            tree.update(proc.maildir_tree(d, {}))
        tree['%s/%s/%s' % (msrc, sub, name)] = ws.msg(1)
        scen = proc.Scenario(tools, conf, tree)
        try:
            r = scen.run(trace=False)
            where = [rel for rel, v in r.final.items() if v[0] == 'file' and re.search(r'/(new|cur)/[^/]+$', rel) and ws.msg_id(v[1]) == 1]
            root = scen.root
            L = lambda x: x.encode('latin-1')
            acts = [L(ACTS[i][1] + ('%s/%s' % (root, pathof[ACTS[i][2]]) if ACTS[i][1] == 'm' else ACTS[i][2])) for i in s]
            req = ' '.join(['dest', vlib.hexs(L('%s/%s' % (root, msrc))), vlib.hexs(L(sub)), vlib.hexs(L(name))] + [vlib.hexs(a) for a in acts])
            seq = [ACTS[i][0].replace(R + '/', '') for i in s]
            if special:
                seq = ['maildirs src=%r dstA=%r dstB=%r, condition %s' % (msrc, mA, mB, COND[0])] + seq
            return {'sub': sub, 'seq': seq, 'status': r.status, 'where': where, 'root': root, 'req': req, 'special': special,
                    'stderr': r.err[-200:].decode('latin-1'),
                    'fname': where[0].rsplit('/', 1)[1] if len(where) == 1 else None, 'has_flags': any(ACTS[i][1] == 'F' for i in s)}
        finally:
            scen.cleanup()

    with cf.ThreadPoolExecutor(vlib.NCPU) as ex:
        res = list(ex.map(one, jobs))
    spec = vlib.run_batch([vlib.driver_path()], ['S ' + r['req'] for r in res])
    model = vlib.run_batch([vlib.driver_path()], ['M ' + r['req'] for r in res])
    stats = {'runs': len(res), 'runs_with_special_maildir_names': len([r for r in res if r['special']]), 'documented_place': 0, 'known_F12': 0,
             'violations': 0, 'corr': 0}
    corr = []
    for r, sp, mo in zip(res, spec, model):
        ok, path = sp.split(' ')
        want = vlib.unhex(path).decode('latin-1')
        got = [os.path.join(r['root'], os.path.dirname(w)) for w in r['where']]
        pinned = vlib.unhex(mo[3:]).decode('latin-1') if mo.startswith('OK ') else None
        desc = {'source_subdir': r['sub'], 'actions': r['seq'], 'exit_status': r['status'], 'found_in': [g.replace(r['root'], R) for g in got],
                'documented_destination': want.replace(r['root'], R), 'destOK': ok == '1', 'stderr': r['stderr']}
        if len(got) != 1 or r['status'] != 0:
            stats['violations'] += 1
            rep.finding('unlisted', dict(desc, what='the message does not exist exactly once after the run, or the run failed'))
            continue
        if r['has_flags'] and 'F' not in letters(r['fname']) and got[0] == want:
            stats['violations'] += 1
            rep.finding('unlisted', dict(desc, what='flags "F" was not applied (name %r)' % r['fname']))
            continue
        if got[0] == want:
            stats['documented_place'] += 1
            if ok != '1' and pinned != got[0]:
                corr.append(dict(desc, model_of_pinned_code=pinned))
            continue
        if ok == '1':
            stats['violations'] += 1
            rep.finding('unlisted', dict(desc, what='the message did not end in the documented destination'))
        elif pinned == got[0]:
            stats['known_F12'] += 1
            rep.finding('dest-unmerged-entry', dict(desc, what='destination computed from the original path by an unmerged flag/flags/move entry'))
        else:
            stats['violations'] += 1
            rep.finding('unlisted', dict(desc, model_of_pinned_code=(pinned or 'none').replace(r['root'], R),
                                         what='wrong destination, and not the one the pinned code computes for this sequence (a different defect than F12)'))
    if corr and not rep.violations:
        stats['corr'] = len(corr)
        rep.violation({'obligation': 'correspondence matches_append/matches_merge <-> Model.finalPlace on action sequences', 'examples': corr[:5]}, False)
    return stats


def process_part(rep, sc):
    tools = proc.Tools(sc)
    W = world.WorldCheck(sc, tools)
    results = []

    def one(ps):
        pats = ps.pats if ps.pats is not None else ([('^[456]$', '')] if 'X-Id' in ps.conf else [])
        spec = ws.Spec(ps.name, ps.conf, pats, tree=ps.tree(), devmap=ps.devmap)
        scen = spec.build(tools)
        try:
            rel = ps.relative
            # relative names: the working directory of the run is the sandbox root; every second scenario also names the configuration
            # file relatively (`-f conf`).  The call-by-call comparison with the model needs ONE name per directory: plain relative names only
            r = scen.run(argv=(['-f', 'conf'] if rel and (sum(ps.name.encode()) & 1 or rel[0] == 'plain') else None))
            if rel and (rel != ('plain', 'plain') or 'isdirectory' in ps.name):       # (the world model has no isdirectory: DESIGN 9.4)
                kind, detail = 'ok', ''
            else:
                req, tr, notes = W.request(scen, spec.pats, r, relative=bool(rel))
                kind, detail = world.compare(scen, r, W.verdict([req])[0])
            probs = judge(ps, scen, r)
            if r.status != 0:
                probs.append('exit status %s: %s' % (r.status, r.err[-200:].decode('latin-1')))
            ut = [t for t in r.calls() if t['name'] == 'utimensat']
            return {'scenario': ps.name, 'problems': probs, 'conform': kind, 'detail': detail[:400] if kind != 'ok' else '',
                    'utimensat_calls': len(ut), 'eexist': sum(1 for t in r.calls() if t['errno'] == 'EEXIST'), 'messages': len(ps.msgs),
                    'config': scen.config.replace(scen.root, R)[:400], 'maildirs': list(ps.dirs)}
        finally:
            scen.cleanup()

    with cf.ThreadPoolExecutor(vlib.NCPU) as ex:
        results = list(ex.map(one, pscenarios(rep.tier) + special_scenarios(rep.tier) + relative_scenarios(rep.tier)))
    bad = []
    for res in results:
        if res['problems']:
            rep.finding('unlisted', {'scenario': res['scenario'], 'what': res['problems'][:6], 'harness': 'process (real binary under the shim)',
                                     'config': res['config'], 'maildirs_in_the_sandbox': res['maildirs']})
        elif res['conform'] != 'ok':
            bad.append(res)
    if bad and not rep.violations:
        rep.violation({'obligation': 'correspondence: the real run does not follow Model.mainP / ends in a different state (names, contents, '
                                     'modification times); the property oracle on the real tree found nothing wrong',
                       'disagreements': len(bad), 'examples': bad[:6]}, False)
    # a subdirectory / flag change FOLLOWED by another action of the same rule (the later action names the file again from the flags in memory)
    import c09flagseq; rep.coverage['flag_transition_then_action'] = c09flagseq.stage(rep, tools, W, random.Random(rep.seed))
    import isolation; rep.coverage['isolation'] = isolation.stage(rep, tools, 'C09')     # nothing leaks from one message / maildir / rule into the next (tools/isolation.py)
    return results, sequence_part(rep, tools, rep.tier)


def run(rep):
    rng = random.Random(rep.seed)
    sc = vlib.Scratch()
    h, env = ec.harness(sc)
    vlib.lean_gate(rep, 'C09', sc, [
        'isupper/islower are ASCII (C / C.utf8 locale)',
        'destination of move/flag/flags sequences, fresh names and timestamps are decided by the process-level part of this check',
    ])
    n = 20000 if rep.tier == 'quick' else 1000000
    reqs = []
    letters = 'ABCDEFGHIJKLMNOPQRSTUVWXYZabcdefghijklmnopqrstuvwxyz'
    for name in NAMES:
        reqs.append(('flagsp', A(name)))
    for _ in range(n):
        k = rng.random()
        if k < 0.3:
            fl = ''.join(rng.choice(letters + '12,:') if rng.random() < 0.1 else rng.choice(letters) for _ in range(rng.randrange(0, 8)))
            base = rng.choice(['1.host', 'a:b', '', 'x:2,S', '1790000000.4242_8.host'])
            reqs.append(('flagsp', A(base + rng.choice([':2,', ':2,', ':2,', ':1,', ':', '']) + fl)))
        elif k < 0.6:
            u = rng.getrandbits(26) if rng.random() < 0.8 else rng.choice([0, 1 << 18, (1 << 26) - 1])
            lo = rng.getrandbits(26) if rng.random() < 0.5 else 0
            reqs.append(('flagss', A(str(u)), A(str(lo)), A(str(rng.choice([64, 64, 64, 64, 4, 3, 10, 30, 56, 57])))))
        else:
            u = rng.getrandbits(26) if rng.random() < 0.7 else rng.choice([0, 1 << 18])
            lo = rng.getrandbits(26) if rng.random() < 0.3 else 0
            reqs.append(('msgflags', A(rng.choice('nc')), A(rng.choice('nc')), A(str(u)), A(str(lo))))
    d = vlib.Differential(rep, [h], env=env, spec_ops={'flagsp', 'flagss', 'msgflags'}, name='h_expr')
    impl, model, spec = d.run(reqs, shrink=False)
    d.conclude('message.c/maildir.c flag functions <-> Model/Flags.lean')
    # flags come from the file NAME only: maildirs whose path contains ':' (through the real message_parse + evaluator)
    cases = []
    conf = 'maildir "~/md" {\n\tmatch old move "~/dst/o"\n\tmatch new move "~/dst/n"\n\tmatch all flags "T"\n}\n'
    for sub in ('md/new', 'md/cur', 'a:b/new', 'a:b/cur'):
        for name in ('1.host', '2.host:2,S', '3.host:2,FR', '4.host:2,', '5.host:1,S', '6:2,x:2,T'):
            cases.append(ec.Case(conf, [], b'To: a\n\nb\n', sub, name, '0'))
    ec.run_cases(h, env, cases, want_spec=False)
    bad = [c for c in cases if c.note != 'noeval' and c.model is not None and ec.impl_core(c) != ec.model_core(c)]
    for c in cases:
        if c.note == 'fault':
            rep.finding('sanitizer-fault', dict(c.readable(), implementation=c.impl))
            continue
        # property oracle: a name without ':' or with a well-formed ':2,' suffix must be accepted whatever the directory is called
        wellformed = c.name in ('1.host', '2.host:2,S', '3.host:2,FR', '4.host:2,', '6:2,x:2,T')
        got_err = (c.impl or '').endswith('PARSEERR') or (c.impl or '') == 'PARSEERR'
        if wellformed and got_err:
            rep.finding('unlisted', dict(c.readable(), implementation=c.impl, what='flags taken from outside the file name: message rejected because of its directory'))
        if not wellformed and not got_err:
            rep.finding('unlisted', dict(c.readable(), implementation=c.impl[:200], what='invalid flag suffix accepted'))
    if bad and not rep.violations:
        rep.violation({'obligation': 'correspondence message_parse flags / new / old <-> Model', 'disagreements': len(bad),
                       'examples': [dict(c.readable(), implementation=ec.impl_core(c), model=c.model) for c in bad[:5]]}, False)
    pres, seqstats = process_part(rep, sc)
    vlib.lean_conclude(rep)
    rep.coverage.update({
        'action_sequences': seqstats,
        'action_sequences_rule': 'every sequence of <= 3 (thorough 4) actions from {move A, move B, flag new, flag !new, flags "F"} from new and from '
                                 'cur on the real binary; the final place against Spec.dest; sequences outside Spec.destOK that end where the '
                                 'transcription of the pinned code says are the known finding F12, anything else wrong is a violation',
        'process_scenarios': [{k: v for k, v in r.items() if k not in ('detail', 'config', 'maildirs')} for r in pres if not r['scenario'].startswith('special-')],
        'special_names': {
            'names': [repr(n) for n in SPECIAL], 'runs': len([r for r in pres if r['scenario'].startswith('special-')]),
            'conform_ok': len([r for r in pres if r['scenario'].startswith('special-') and r['conform'] == 'ok']),
            'rule': 'each name as the maildir being walked (flag !new with and without an interpolating condition, flag new, flags, move out, '
                    'move+flag out) and, where a move destination can mean itself, as the destination (move, move+flag, flag+move), by absolute '
                    'path and through ~; decoy maildirs at the names an interpolation of the maildir name would produce; same oracle as the '
                    'plain scenarios (documented place, fresh name, flags, content, mtime; conformance with Model.mainP); the action-sequence '
                    'sweep repeats its sequences with these names for the walked maildir and both destinations',
        },
        'process_rule': '%d runs of the real binary under the shim (pinned clock/pid/host/counter): move on one device and across devices, '
                        'flag in both directions, flags, move+flag, and destinations pre-populated with the next 1-5 candidate names for '
                        'every flag suffix; judged on the real tree: each message exactly once at the documented place, freshly generated '
                        'name, flags = old letters +/- S + configured ones written sorted without duplicates, content and modification '
                        'time (ns) unchanged, pre-existing destination files untouched; and every run followed call by call through '
                        'Model.mainP (fstatat value = mtime, utimensat arguments, EEXIST retries, final names/contents/mtimes)' % len(pres),
        'evaluations': d.evals + len(pres),
        'distinct_nontrivial': len(set(r for r, i in zip(reqs, impl) if i.startswith('OK') and i != 'OK 0 0')),
        'rule': '%d requests: file names with/without :2, suffix (upper/lower case, duplicates, unsorted, invalid), random 52-bit flag sets '
                'through message_flags_str with several buffer sizes, msgflags for the four subdirectory pairs; implementation vs model vs '
                'specification; non-trivial = accepted with a non-empty result' % len(reqs),
        'samples': [{'request': d.line(reqs[i]), 'implementation': impl[i], 'specification': spec[i]} for i in rng.sample(range(len(reqs)), 4)],
        'correspondence_mismatches': len(d.corr_mismatch),
        'spec_failures': len(d.spec_fail),
    })


def replay(rep, path):
    import isolation
    if isolation.replay_file(rep, path):
        return
    import msgcommon as mc
    mc.generic_replay(rep, path, 'C09', {'flagsp', 'flagss', 'msgflags'}, {}, included=ec.INCLUDED, hname='h_expr')
