"""C17 - concurrent runs on the same maildirs neither lose nor duplicate messages."""
import concurrent.futures as cf
import json
import os
import re
import random
import shlex
import vlib
import proc
import world
import worldscen as ws

R = '@R@'
RULE = 'match header "X-Id" /^[0-9]+$/'     # only real messages match (an in-flight placeholder has no headers)

A_KINDS = {
    'move-A': ('maildir "%s/src" {\n\t%s move "%s/dstA"\n}\n', ()),
    'move-B': ('maildir "%s/src" {\n\t%s move "%s/dstB"\n}\n', ()),
    'move-xdev': ('maildir "%s/src" {\n\t%s move "%s/dstA"\n}\n', ('dstA',)),
    'flag': ('maildir "%s/src" {\n\t%s flag !new\n}\n', ()),
    'label': ('maildir "%s/src" {\n\t%s label "lbl"\n}\n', ()),
    'discard': ('maildir "%s/src" {\n\t%s discard\n}\n', ()),
}
B_KINDS = dict(A_KINDS)
B_KINDS['ext-rename'] = None
B_KINDS['ext-delete'] = None

# first-party kinds that copy the message next to (or instead of) the original: the window of the pinned finding
COPYING = {'label', 'move-xdev'}

# The pinned findings F13/F14 are identified by HISTORY: (pair of parties, rule shape, phase of the first party at which the second
# one runs, both exit statuses, what is wrong in the final tree).  The table is committed (known/C17_histories.json, produced once from
# the pinned tree by tools/pin_histories.py) and only read here: a wrong final tree after any other history is a VIOLATION.
WITNESS_PAIRS = [('flag', 'move-A'), ('label', 'label')]
HIST_FILE = os.path.join(vlib.ROOT, 'known', 'C17_histories.json')


def phases(calls):
    """Phase of the first party before each of its calls: idle / inflight-empty (it created a file with O_EXCL and has not flushed
    content into it) / inflight-complete (content flushed, source name not yet removed or renamed)."""
    out, ph = [], 'idle'
    for c in calls:
        out.append(ph)
        raw = c['raw']
        name = raw.split()[1] if len(raw.split()) > 1 else ''
        if name == 'openat' and 'O_EXCL' in raw:
            ph = 'inflight-empty'
        elif name == 'fflush' and ph == 'inflight-empty':
            ph = 'inflight-complete'
        elif name in ('renameat', 'unlinkat'):
            ph = 'idle'
    return out


def norm_problem(p):
    return re.sub(r'\d{6,}\.\d+_(\d+)\.\w+', r'N\1', p)


def signature(rec):
    return ' || '.join([rec['pair'], 'match-all' if rec['rule'] != RULE else 'match-real', rec['phase'], 'A=%s' % rec['status'],
                        'B=%s' % ','.join(rec['b_status'] or []), ' ; '.join(sorted(set(norm_problem(p) for p in rec['problems'])))])


def load_histories():
    try:
        return json.load(open(HIST_FILE))
    except OSError:
        return {}


def conf_for(kind, root, rule=RULE):
    tmpl, dev = A_KINDS[kind]
    n = tmpl.count('%s')
    if n == 3:
        return tmpl % (root, rule, root)
    return tmpl % (root, rule)


def pair(tools, a_kind, b_kind, tier, rule=RULE, b_rule=RULE):
    tree = ws.base_tree(1, 1, extra_dirs=('dstA', 'dstB'))
    spec = ws.Spec('%s|%s' % (a_kind, b_kind), conf_for(a_kind, R, rule), [('^[0-9]+$', '')] if rule == RULE else [], tree=tree,
                   devmap=tuple('%s/%s' % (R, d) for d in A_KINDS[a_kind][1]))
    scen = spec.build(tools)
    out = []
    try:
        clean = scen.run()
        ncalls = len(clean.calls())
        # party B: another mdsort with its own identity, or a mail client
        if B_KINDS[b_kind] is None:
            if b_kind == 'ext-rename':
                bcmd = 'for f in %s/src/new/*; do [ -f "$f" ] && mv "$f" "%s/src/cur/$(basename "$f"):2,S"; done; true' % (scen.root, scen.root)
            else:
                bcmd = 'rm -f %s/src/new/* %s/src/cur/*' % (scen.root, scen.root)
            bconf = None
        else:
            bconf = os.path.join(scen.root, 'confB')
            dev = ':'.join('%s/%s' % (scen.root, d) for d in A_KINDS[b_kind][1])
            bcmd = ('HOME=%s/home TMPDIR=%s/tmp LD_PRELOAD=%s VSHIM_TIME=1790000000 VSHIM_PID=5353 VSHIM_HOST=host VSHIM_RANDOM=50 %s %s -f %s '
                    '>>%s/partyB.out 2>&1; echo $? >> %s/partyB.status') % (
                scen.root, scen.root, tools.shim, ('VSHIM_DEVMAP=' + dev) if dev else '', tools.mdsort, bconf, scen.root, scen.root)
        points = range(ncalls)
        phs = phases(clean.calls())
        for k in points:
            scen.reset()
            if bconf:
                with open(bconf, 'w') as fh:
                    fh.write(conf_for(b_kind, scen.root, b_rule))
            r = scen.run(pause=k, pause_cmd=bcmd)
            oracle = ws.TreeOracle(scen.initial, clean.final)
            # stages: what party B alone would produce is also legitimate content (label by B)
            seen, strays = oracle.classify(r.final)
            probs = []
            bstat = None
            try:
                bstat = open(os.path.join(scen.root, 'partyB.status')).read().split()
            except OSError:
                pass
            deleted_ok = b_kind in ('ext-delete', 'discard') or a_kind == 'discard'
            for i, copies in seen.items():
                files = ws.maildir_files(r.final)
                same = [rel for rel, d in files.items() if ws.msg_id(d) == i]
                bodies = [files[rel].split(b'\n\n', 1)[-1] for rel in same]
                intact = [rel for rel in same if files[rel].split(b'\n\n', 1)[-1] == oracle.orig[i].split(b'\n\n', 1)[-1] and files[rel].startswith(b'To:') or files[rel].startswith(b'X-') or files[rel].startswith(b'Subject')]
                if len(same) == 0 and not deleted_ok:
                    probs.append('message %d lost' % i)
                if len(same) > 1:
                    probs.append('message %d exists %d times: %s' % (i, len(same), sorted(same)))
                for rel in same:
                    body = files[rel].split(b'\n\n', 1)[-1]
                    if body != oracle.orig[i].split(b'\n\n', 1)[-1]:
                        probs.append('copy %s of message %d is not intact' % (rel, i))
            for rel in strays:
                probs.append('stray file %s (%d bytes)' % (rel, len(ws.maildir_files(r.final)[rel])))
            if r.status not in (0, 1):
                probs.append('first party: abnormal exit status %r' % (r.status,))
            out.append({'pair': spec.name, 'k': k, 'call': clean.calls()[k]['raw'].replace(scen.root, R)[:140], 'status': r.status, 'b_status': bstat,
                        'problems': probs, 'a_kind': a_kind, 'b_kind': b_kind, 'rule': rule, 'phase': phs[k]})
        return out
    finally:
        scen.cleanup()


def classify(rec, hist=None):
    """Class of a wrong final tree: the known-finding class its exact history is listed under, else `unlisted` (a violation)."""
    hist = load_histories() if hist is None else hist
    return hist.get(signature(rec), 'unlisted')


def run(rep):
    rng = random.Random(rep.seed)
    sc = vlib.Scratch()
    tools = proc.Tools(sc)
    vlib.lean_gate(rep, 'C17', sc, [
        'schedules: one party runs at a time and is switched at call boundaries only (pause by the shim); real kernel interleavings '
        'inside a system call are not explored',
        'thorough tier: the content an mdsort party of the model finds under a name is what its reads return in the model world '
        '(lean/Driver/Sched.lean re-instantiates Model.mainP with it); devices are global (dstA is another device for every party of a '
        'schedule in which one party is move-xdev)',
    ])
    pairs = [(a, b) for a in A_KINDS for b in B_KINDS]
    if rep.tier == 'quick':
        pass
    results = []
    with cf.ThreadPoolExecutor(vlib.NCPU) as ex:
        for res in ex.map(lambda p: pair(tools, p[0], p[1], rep.tier), pairs):
            results.extend(res)
        # witnesses of the placeholder finding: rules that match every file
        for res in ex.map(lambda p: pair(tools, p[0], p[1], rep.tier, rule='match all', b_rule='match all'), WITNESS_PAIRS):
            results.extend(res)
    nprob = 0
    classes = {}
    hist = load_histories()
    for r in results:
        if r['problems']:
            key = '%s %s' % (classify(r, hist), r['pair'])
            classes[key] = classes.get(key, 0) + 1
    for r in results:
        if r['problems']:
            nprob += 1
            rep.finding(classify(r, hist), {'pair': r['pair'], 'history': signature(r), 'second_party_runs_before_call': r['k'], 'call': r['call'], 'rule': r['rule'],
                                      'first_party_exit': r['status'], 'second_party_exit': r['b_status'], 'what': r['problems'][:5]})
    # one fixed two-preemption schedule that re-confirms F31 (a flag run re-uses a name, a label run unlinks it) on every run
    import c17sched
    f31 = c17sched.witness(rep, tools)
    sched_cov = None
    if rep.tier == 'thorough':
        # two preemption points, three parties, the external client as a party, sampled schedules - every schedule also run by
        # Model/Parties.lean through the driver (tools/c17sched.py)
        sched_cov = c17sched.stage(rep, tools, sc, int(os.environ.get('VERIF_C17_BUDGET', '0')) or c17sched.BUDGET)
    vlib.lean_conclude(rep)
    rep.coverage.update({
        'evaluations': len(results) + (sched_cov['schedules'] if sched_cov else 0),
        'distinct_nontrivial': len([r for r in results if r['b_status'] or r['b_kind'].startswith('ext')]),
        'rule': '%d ordered pairs of parties from {move to A, move to B, cross-device move, flag, label, discard} x {the same, external rename, '
                'external delete} on a shared maildir with 2 messages, and for each pair every schedule in which the second party runs to '
                'completion immediately before call k of the first (all k); final tree judged: every message exactly once, intact, no stray or '
                'partial file, no abnormal exit; plus two match-all witness pairs of the placeholder finding; non-trivial = schedules in which '
                'the second party really ran' % len(pairs),
        'samples': [r for r in results if not r['problems']][:2] + [r for r in results if r['problems']][:2],
        'schedules_with_problems': nprob,
        'problem_classes': classes,
        'single_preemption_sweep': {'schedules': len(results), 'exhaustive': True},
        'two_preemption_witness_of_F31': f31,
    })
    if sched_cov:
        rep.coverage['schedules_against_the_parties_model'] = sched_cov


def replay(rep, path):
    import json
    j = json.load(open(path))
    print(json.dumps(j, indent=1)[:3000])
    sc = vlib.Scratch()
    vlib.lean_gate(rep, 'C17', sc, [])
    if j.get('stage') == 'schedules' and j.get('schedule'):
        import c17sched
        c17sched.replay(proc.Tools(sc), sc, j)
    rep.coverage.update({'evaluations': 1, 'distinct_nontrivial': 1})
