"""C08 - rewriting a message preserves everything it is not meant to change."""
import random
import vlib
import gen_msg
import msgcommon as mc

SPEC_OPS = {'hparse'}
ORACLES = {'hset': mc.hset_oracle}

# Witnesses of the complement of the property's domain (pinned by the property text itself).
PINNED = {
    'nul-truncates': b'To: a\nSubject: s\n\nbody before\x00body after NUL\n',
    'no-empty-line': b'To: a\nSubject: s\nnot a header line\nX: y\n\nbody\n',
    'body-leading-newline': b'To: a\n\n\n\nbody after two empty lines\n',
    'crlf': b'To: a\r\nSubject: s\r\n\r\nbody\r\n',
}


def pinned_holds(m, out):
    """Does a plain copy (no header set) reproduce the message byte for byte (modulo
    the normalised blank after the colon)?"""
    return out == m


def run(rep):
    rng = random.Random(rep.seed)
    sc = vlib.Scratch()
    h, env = mc.harness(sc)
    vlib.lean_gate(rep, 'C08', sc, [
        'modelled, not verified: qsort is a stable merge sort (glibc), stdio output of fprintf, strcasecmp in the C locale',
        'the property oracle Spec.rewriteOk is evaluated on the bytes the real message_write produced',
    ])
    n = 6000 if rep.tier == 'quick' else 150000
    msgs = mc.messages(rng, n)
    reqs = mc.corpus('C08')
    for m in msgs:
        reqs.append(('hparse', m))
        reqs.append(mc.set_requests(rng, m))
    d = vlib.Differential(rep, [h], env=env, spec_ops=SPEC_OPS, oracles=ORACLES, name='h_message')
    impl, model, spec = d.run(reqs)
    # pinned complement classes: replay the witnesses; they are findings only if listed
    pin_reqs = [('hset', m, b'X') for m in PINNED.values()]
    pimpl = vlib.run_batch([h], [d.line(r) for r in pin_reqs], env)
    for (cls, m), out in zip(PINNED.items(), pimpl):
        o = vlib.unhex(out.split(' ')[0]) if not out.startswith(('FAULT', 'ERR')) else None
        if o is None or not pinned_holds(m, o):
            rep.finding(cls, {'harness': 'h_message', 'request': d.line(('hset', m, b'X')), 'implementation': out,
                              'what': 'copy of a message outside the well-formed domain is not byte-identical'})
    # process level: rewriting actions on the real binary with the transfer of the rewritten message disturbed at every call and by
    # the kernel's file size limit; the final tree is judged by Spec.rewriteOk (tools/rewriteproc.py)
    import proc
    import rewriteproc
    import attactions
    tools = proc.Tools(sc)
    proc_cov = rewriteproc.stage(rep, tools)
    # actions inside attachment { } blocks: rejected as a whole, or the whole message is preserved (tools/attactions.py, shared with C02)
    att_cov = attactions.stage(rep, tools, 'C08')
    # the buffer the header values and the message itself are built in, against its index-level model and the append statement
    # (tools/lbuf.py; C07 runs the long form)
    import lbuf
    bstage = lbuf.stage(rep, sc, random.Random(rep.seed * 7919 + 8), 700 if rep.tier == 'quick' else 6000, big=True)
    d.conclude('message.c (headers, message_write) <-> Model/Header.lean')
    vlib.lean_conclude(rep)
    applicable = [i for i, s in enumerate(spec) if s is not None]
    nontriv = set()
    for i in applicable:
        r = reqs[i]
        if r[0] == 'hset' and len(r) > 3:
            nontriv.add(r)
        elif r[0] == 'hparse' and impl[i].count(',') >= 2:
            nontriv.add(r)
    hist = {}
    for i, r in enumerate(reqs):
        k = r[0] + (':wf' if spec[i] is not None else ':outside-domain')
        hist[k] = hist.get(k, 0) + 1
    rep.coverage.update({
        'evaluations': d.evals,
        'distinct_nontrivial': len(nontriv),
        'rule': '%d generated messages (0-12 fields, duplicates, mixed-case names, folded/encoded/8-bit/long values, From line; 25%% outside '
                'the well-formed domain, 15%% mutated), each parsed (hparse: table and body vs. specification) and rewritten after 0-4 header '
                'settings (hset: real message_write output judged by Spec.rewriteOk, second write identical, lookup after write vs model); '
                'non-trivial = well-formed and (at least one setting, or at least two fields); distinct by request' % n,
        'samples': [{'request': d.line(reqs[i])[:400], 'implementation': impl[i][:300], 'specification': (spec[i] or 'outside domain')[:300]}
                    for i in rng.sample(range(len(reqs)), 4)],
        'distribution': hist,
        'correspondence_mismatches': len(d.corr_mismatch),
        'spec_failures': len(d.spec_fail),
        'sanitizer_faults': len(d.faults),
        'process_level_rewrite_under_faults': proc_cov,
        'actions_inside_attachment_blocks': att_cov,
        'libks_buffer': bstage,
    })
    rep.assumptions += ['C locale / C.utf8', 'set values contain no newline or NUL and do not start with a blank (SetOk)',
                        'process level: single faults; the kernel enforces the file size limit as RLIMIT_FSIZE does (short count, then EFBIG)']


def replay(rep, path):
    import json
    j = json.load(open(path))
    if j.get('stage') == 'attachment-actions':
        import proc
        import attactions
        sc = vlib.Scratch()
        vlib.lean_gate(rep, 'C08', sc, [])
        attactions.replay(proc.Tools(sc), j)
        rep.coverage.update({'evaluations': 1, 'distinct_nontrivial': 1})
        return
    if str(j.get('stage', '')).startswith('libks buffer'):
        import lbuf
        sc = vlib.Scratch()
        vlib.lean_gate(rep, 'C08', sc, [])
        lbuf.replay(rep, sc, j)
        rep.coverage.update({'evaluations': 1, 'distinct_nontrivial': 1})
        return
    if j.get('stage') == 'process':
        import proc
        import rewriteproc
        sc = vlib.Scratch()
        vlib.lean_gate(rep, 'C08', sc, [])
        rewriteproc.replay(proc.Tools(sc), j)
        rep.coverage.update({'evaluations': 1, 'distinct_nontrivial': 1})
        return
    mc.generic_replay(rep, path, 'C08', SPEC_OPS, ORACLES)
