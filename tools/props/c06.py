"""C06 - dry run predicts the real run and its explanations are true."""
import concurrent.futures as cf
import random
import re
import vlib
import proc
import worldscen as ws
import gen_rules
import evalcommon as ec


def widthC(b):
    return sum(1 for c in b if c >= 128 or 32 <= c <= 126)


def check_explanations(c):
    """Judge the dry-run text of one evaluated case against the implementation's own match list.
    Returns (problems, known_class or None, n_markers)."""
    e = c.impl.split(' ')
    if len(e) < 6:
        return [], None, 0
    ml = ec.parse_ml(e[3])
    text = vlib.unhex(e[5])
    lines = text.split(b'\n')
    probs, known, nmark = [], None, 0
    # expected sequence: for each action: header line; then for pending inspectable entries: per non-empty sub a quoted + marker line
    pos = 0
    pending = []
    path = vlib.unhex(c.path)
    for f in ml:
        ty = f[0]
        if ty not in ec.ACTION_TYPES and ty not in ('break', 'pass', 'attachment_block'):
            pending.append(f)
            continue
        if pos >= len(lines) or not lines[pos].startswith(path + b' -> '):
            probs.append('missing "-> destination" line for %s:%s' % (ty, f[1]))
            return probs, known, nmark
        dest = lines[pos][len(path) + 4:]
        want = {'discard': b'<discard>', 'label': b'<label>', 'exec': b'<exec>', 'add_header': b'<add-header>', 'reject': b'<reject>'}.get(ty, vlib.unhex(f[3]))
        if dest != want:
            probs.append('line says destination %r, the action is %r' % (dest, want))
        pos += 1
        for pf in pending:
            if pf[0] not in ('header', 'body', 'date'):
                continue
            if pf[8] == '~' or pf[9] == '~':
                probs.append('explanation without key/value')
                continue
            key, val = vlib.unhex(pf[8]), vlib.unhex(pf[9])
            first = True
            for sub in (pf[6].split('+') if pf[6] else []):
                s, b, en = sub.split('/')
                if b == '-' or b == en:
                    continue
                b, en = int(b), int(en)
                if pos + 1 >= len(lines):
                    probs.append('explanation lines missing for %s' % pf[0])
                    return probs, known, nmark
                quoted, marker = lines[pos], lines[pos + 1]
                pos += 2
                nmark += 1
                # the line of the value that contains the first matched byte
                ls = val.rfind(b'\n', 0, b) + 1 if val[b:b + 1] != b'\n' else b + 1
                le = val.find(b'\n', ls)
                le = len(val) if le < 0 else le
                vline = val[ls:le]
                stripped = vline.lstrip(b' \t')
                lead = len(vline) - len(stripped)
                if first:
                    m = re.match(rb'^(.*?:\d+: )' + re.escape(key) + rb': ', quoted)
                    if not m or not re.match(rb'^~?/conf:\d+: $', m.group(1)):
                        probs.append('explanation does not name a configuration line: %r' % quoted[:60])
                        first = False
                        continue
                    lno = int(re.search(rb':(\d+): $', m.group(1)).group(1))
                    if str(lno) != pf[1]:
                        probs.append('explanation names line %d, the condition is on line %s' % (lno, pf[1]))
                    plen = len(m.group(0))
                    pind = plen
                else:
                    plen = pind
                    if quoted[:plen].strip() != b'':
                        probs.append('continuation explanation is not indented')
                first = False
                shown = quoted[plen:]
                if shown != stripped:
                    if val[b:b + 1] == b'\n':
                        known = known or 'marker-match-at-newline'
                    else:
                        probs.append('quoted text %r is not the line of the value %r' % (shown[:60], stripped[:60]))
                    continue
                caret = marker.find(b'^')
                dollar = marker.find(b'$')
                if b < ls + lead:
                    known = known or 'marker-leading-blank'    # match begins inside the skipped leading blanks
                    continue
                want_caret = plen + widthC(val[ls + lead:b])
                w = widthC(val[b:en])
                want_dollar = want_caret + (w - 1 if w >= 2 else 1)
                if en > le:
                    # the match continues on the next line: the end marker cannot be under its last character
                    want_dollar = dollar
                if caret != want_caret or dollar != want_dollar or marker.strip(b' ') != b'^' + b' ' * (dollar - caret - 1) + b'$':
                    probs.append('markers at columns %d/%d, first/last matched character at %d/%d (line %r)' % (caret, dollar, want_caret, want_dollar, shown[:50]))
        pending = []
    return probs, known, nmark


def dry_vs_real(tools, spec):
    """-d output of the real binary against a real run from the same state."""
    scen = spec.build(tools)
    try:
        scen.args = ['-d'] + list(spec.args)
        d = scen.run(trace=False)
        scen.reset()
        scen.args = list(spec.args)
        r = scen.run(trace=False)
        probs = []
        pred = {}
        for line in d.out.decode('latin-1').split('\n'):
            m = re.match(r'^(\S.*?) -> (.*)$', line)
            if m and (m.group(1).startswith(scen.root) or m.group(1) == '<stdin>'):
                pred.setdefault(m.group(1), []).append(m.group(2))
        init = ws.maildir_files(scen.initial)
        fin = ws.maildir_files(r.final)
        nexec = sum(1 for acts in pred.values() for a in acts if a == '<exec>')
        if d.status != 0 and r.status == 0:
            probs.append('dry run exits %r, real run %r' % (d.status, r.status))
        if r.status == 0:
            if len(r.helper) != nexec and not re.search(r'\bcommand\b', scen.config):
                probs.append('dry run announces %d exec action(s), the real run executed %d' % (nexec, len(r.helper)))
            for rel, data in init.items():
                full = scen.root + '/' + rel
                acts = pred.get(full)
                i = ws.msg_id(data)
                now = [(p, dd) for p, dd in fin.items() if ws.msg_id(dd) == i] if i is not None else []
                if acts is None:
                    if fin.get(rel) != data:
                        probs.append('%s is not listed by -d but the real run changed it' % rel)
                    continue
                dests = [a for a in acts if not a.startswith('<')]
                if '<discard>' in acts:
                    if now:
                        probs.append('%s: -d says discard, the message still exists' % rel)
                    continue
                if not now:
                    probs.append('%s: listed by -d, gone after the real run' % rel)
                    continue
                p, dd = now[0]
                if dests:
                    want_dir = dests[-1]
                    if not (scen.root + '/' + p).startswith(want_dir + '/'):
                        probs.append('%s: -d predicts %s, the real run put it at %s' % (rel, want_dir.replace(scen.root, '@R@'), p))
                else:
                    if not p.startswith(rel.rsplit('/', 1)[0] + '/'):
                        probs.append('%s: -d predicts no move, the real run put it at %s' % (rel, p))
                if ('<label>' in acts or '<add-header>' in acts) and dd == data:
                    probs.append('%s: -d announces a rewrite, content unchanged' % rel)
                if not ('<label>' in acts or '<add-header>' in acts) and dd != data and not scen.devmap:
                    probs.append('%s: content changed without an announced rewrite' % rel)
        # a message taken from new to cur of a maildir that is still being walked is visited again in the same run
        mds = re.findall(r'maildir\s+"([^"]+)"', scen.config)
        revisit = any(a == md + '/cur' and src.startswith(md + '/new/') for src, acts in pred.items() for a in acts for md in mds)
        return {'scenario': spec.name, 'listed': len(pred), 'problems': probs, 'revisit': revisit, 'config': scen.config.replace(scen.root, '@R@')[:400]}
    finally:
        scen.args = list(spec.args)
        scen.cleanup()


def run(rep):
    rng = random.Random(rep.seed)
    sc = vlib.Scratch()
    h, env = ec.harness(sc)
    env = dict(env, LC_ALL='C')
    tools = proc.Tools(sc)
    vlib.lean_gate(rep, 'C06', sc, [
        'display width: the model uses the C-locale width (every printable ASCII byte and every byte >= 0x80 has width 1); UTF-8 locales are '
        'not exercised by this check',
    ])
    n = 1200 if rep.tier == 'quick' else 40000
    cases = []
    for _ in range(n):
        g = gen_rules.Gen(rng, depth=rng.choice([0, 1, 2]), rules_max=3, errors=False)
        conf = g.config()
        pats = list(g.patterns)
        truth = [rng.random() < 0.7 for _ in range(gen_rules.ATOMS)]
        date = ec.gm(ec.NOW - rng.choice([5, 100, 100000])) + b' +0000' if rng.random() < 0.5 else None
        msg = gen_rules.message(rng, truth, mime=rng.random() < 0.2, date=date)
        if rng.random() < 0.5:
            msg = msg.replace(b'\n\n', b'\nSubject: hx folded\n\tsecond =?utf-8?Q?h=C3=A9?= line\n   third\n\n', 1) if rng.random() < 0.5 else msg.replace(b'bird\n', b'  bird x\n\tline1 bird\n')
        cases.append(ec.Case(conf, pats, msg, rng.choice(['new', 'cur']), rng.choice(['1.host', '2.host:2,S']), '1'))
    for dry in ('0', '1'):
        cases.append(ec.Case('maildir "~/md" {\n\tmatch date > 2 weeks and header "To" /(u[a-z]*)@/ move "~/dst/\\1" label "\\0"\n}\n', [('(u[a-z]*)@', '')],
                             b'To: user@example.com\nDate: Mon, 21 Sep 2020 14:13:20 +0100\n\nb\n', 'new', '1.host', dry))
    ec.run_cases(h, env, cases, want_spec=False)
    corr_bad = []
    nmark = 0
    for c in cases:
        if c.note == 'fault':
            rep.finding('sanitizer-fault', dict(c.readable(), implementation=c.impl))
            continue
        if c.model is None:
            continue
        if (c.impl if c.dry == '1' else ec.impl_core(c)) != c.model:
            corr_bad.append(c)
        if c.impl.startswith('MATCH'):
            probs, known, k = check_explanations(c)
            nmark += k
            if probs:
                rep.finding('unlisted', dict(c.readable(), what=probs[:4], dry_run_output=ec.impl_dry_text(c).decode('latin-1')[:1500]))
            elif known:
                rep.finding(known, dict(c.readable(), dry_run_output=ec.impl_dry_text(c).decode('latin-1')[:800]))
    # process level: dry run vs real run from the same state
    specs = list(ws.corpus())
    t = ws.base_tree(0, 0, extra_dirs=('dst', 'dst/user1', 'dst/user2'))
    for k in (1, 2):
        t['src/new/%d.host' % k] = ws.msg(k, extra=b'Date: Mon, 21 Sep 2020 14:13:20 +0100\n')
    specs.append(ws.Spec('date-then-capture', 'maildir "@R@/src" {\n\tmatch date > 2 weeks and header "To" /(user[0-9])@/ move "@R@/dst/\\1"\n}\n',
                         [('(user[0-9])@', '')], tree=t))
    import props.c05 as c05
    specs += [s for s, ok in c05.random_specs(rng, 30 if rep.tier == 'quick' else 800)]
    with cf.ThreadPoolExecutor(vlib.NCPU) as ex:
        pres = list(ex.map(lambda s: dry_vs_real(tools, s), specs))
    for r in pres:
        if r['problems']:
            rep.finding('walk-revisits-moved' if r['revisit'] else 'unlisted', {'scenario': r['scenario'], 'what': r['problems'][:5], 'config': r['config']})
    if corr_bad and not rep.violations:
        rep.violation({'obligation': 'correspondence matches_inspect/expr_inspect <-> Model/Inspect.lean (dry-run text)', 'disagreements': len(corr_bad),
                       'examples': [dict(c.readable(), implementation=c.impl[-900:], model=(c.model or '')[-900:]) for c in corr_bad[:4]]}, False)
    vlib.lean_conclude(rep)
    rep.coverage.update({
        'evaluations': len(cases) + len(pres),
        'distinct_nontrivial': nmark,
        'rule': '%d generated rule trees x messages (capture groups, multi-line bodies, folded and encoded headers, date conditions) evaluated '
                'with the dry-run flag by the real parser/evaluator/matches_inspect: the printed text is compared byte for byte with the model, '
                'every "-> destination" line with the action entry, every explanation with the value, offsets and line the implementation '
                'itself recorded (quoted line is a line of the value, ^ under the first and $ under the last matched character); %d '
                'configurations run with -d and then for real on the real binary (listed messages = messages acted on, same destinations, '
                'announced rewrites/discards/execs happen, unlisted untouched); non-trivial = marker lines judged' % (n, len(pres)),
        'samples': [dict(c.readable(), dry_run_output=(ec.impl_dry_text(c) or b'').decode('latin-1')[:400]) for c in cases if c.impl and c.impl.startswith('MATCH')][:2],
        'marker_lines_checked': nmark,
        'correspondence_mismatches': len(corr_bad),
    })


def replay(rep, path):
    import json
    print(json.dumps(json.load(open(path)), indent=1)[:3000])
    sc = vlib.Scratch()
    vlib.lean_gate(rep, 'C06', sc, [])
    rep.coverage.update({'evaluations': 1, 'distinct_nontrivial': 1})
