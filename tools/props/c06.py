"""C06 - dry run predicts the real run and its explanations are true."""
import concurrent.futures as cf
import os
import random
import re
import vlib
import proc
import worldscen as ws
import gen_rules
import evalcommon as ec
import mbtext



def judge_sub(val, b, en, quoted, marker, plen, locale):
    """One explanation (quoted line + marker line) of the sub-match [b, en) of a pattern applied to `val`; `plen` bytes of the
    quoted line are its head (`conf:lno: key: ` or the blanks standing for it).  Returns (problems, known class or None)."""
    # the line of the value that contains the first matched byte
    ls = val.rfind(b'\n', 0, b) + 1 if val[b:b + 1] != b'\n' else b + 1
    le = val.find(b'\n', ls)
    le = len(val) if le < 0 else le
    vline = val[ls:le]
    stripped = vline.lstrip(b' \t')
    lead = len(vline) - len(stripped)
    shown = quoted[plen:]
    if shown != stripped:
        if val[b:b + 1] == b'\n':
            return [], 'marker-match-at-newline'
        return ['quoted text %r is not the line of the value %r' % (shown[:60], stripped[:60])], None
    if b < ls + lead:
        return [], 'marker-leading-blank'        # match begins inside the skipped leading blanks
    head, before, matched = quoted[:plen], val[ls + lead:b], val[b:min(en, le)]
    if not mbtext.oracle_defined(head + before + matched + val[min(en, le):min(en, le) + 1], locale):
        return [], 'no-verdict'
    if locale != 'C':
        # offsets inside a character (never produced by regexec on well-formed text) have no column of their own
        bd = set(mbtext.boundaries(val, locale))
        if b not in bd or min(en, le) not in bd:
            return [], 'no-verdict'
    # independent column oracle (tools/mbtext.py): display widths from a table of characters, not from the C library
    probs = mbtext.judge_markers(head, before, matched, marker, locale, open_end=en > le)
    if probs and any(c >= 128 for c in head) and locale != 'C':
        # the behaviour repaired by 951a0f1: the head counted in bytes instead of columns, everything else right
        if not mbtext.judge_markers(b' ' * len(head), before, matched, marker, locale, open_end=en > le):
            probs = [probs[0] + ' - the head %r is accounted for in bytes, not in columns' % head[:60]]
    return ['%s (line %r)' % (x, shown[:50]) for x in probs], None


def check_explanations(c, locale='C'):
    """Judge the dry-run text of one evaluated case against the implementation's own match list.
    Returns (problems, known_class or None, n_markers)."""
    e = c.impl.split(' ')
    if len(e) < 6:
        return [], None, 0
    ml = ec.parse_ml(e[3])
    text = vlib.unhex(e[5])
    lines = text.split(b'\n')
    probs, known, nmark = [], None, 0
    # expected sequence: for each action: header line; then for pending inspectable entries: per non-empty sub a quoted + marker line
    pos = 0
    pending = []
    path = vlib.unhex(c.path)
    for f in ml:
        ty = f[0]
        if ty not in ec.ACTION_TYPES and ty not in ('break', 'pass', 'attachment_block'):
            pending.append(f)
            continue
        if pos >= len(lines) or not lines[pos].startswith(path + b' -> '):
            probs.append('missing "-> destination" line for %s:%s' % (ty, f[1]))
            return probs, known, nmark
        dest = lines[pos][len(path) + 4:]
        want = {'discard': b'<discard>', 'label': b'<label>', 'exec': b'<exec>', 'add_header': b'<add-header>', 'reject': b'<reject>'}.get(ty, vlib.unhex(f[3]))
        if dest != want:
            probs.append('line says destination %r, the action is %r' % (dest, want))
        pos += 1
        for pf in pending:
            if pf[0] not in ('header', 'body', 'date'):
                continue
            if pf[8] == '~' or pf[9] == '~':
                probs.append('explanation without key/value')
                continue
            key, val = vlib.unhex(pf[8]), vlib.unhex(pf[9])
            first = True
            for sub in (pf[6].split('+') if pf[6] else []):
                s, b, en = sub.split('/')
                if b == '-' or b == en:
                    continue
                b, en = int(b), int(en)
                if pos + 1 >= len(lines):
                    probs.append('explanation lines missing for %s' % pf[0])
                    return probs, known, nmark
                quoted, marker = lines[pos], lines[pos + 1]
                pos += 2
                nmark += 1
                if first:
                    m = re.match(rb'^(.*?:\d+: )' + re.escape(key) + rb': ', quoted)
                    if not m or not re.match(rb'^~?/conf:\d+: $', m.group(1)):
                        probs.append('explanation does not name a configuration line: %r' % quoted[:60])
                        first = False
                        continue
                    lno = int(re.search(rb':(\d+): $', m.group(1)).group(1))
                    if str(lno) != pf[1]:
                        probs.append('explanation names line %d, the condition is on line %s' % (lno, pf[1]))
                    plen = len(m.group(0))
                    pind = mbtext.display_width(m.group(0), locale)
                else:
                    plen = pind
                    if quoted[:plen].strip() != b'':
                        probs.append('continuation explanation is not indented')
                first = False
                p2, k2 = judge_sub(val, b, en, quoted, marker, plen, locale)
                if k2 == 'no-verdict':
                    nmark -= 1
                    continue
                probs += p2
                known = known or k2
        pending = []
    return probs, known, nmark


# --------------------------------------------------------------------------
# expr_inspect directly: generated (value, sub-match offsets) in both locales
# --------------------------------------------------------------------------

KEYS = [b'Subject', b'To', b'X-Long-Header-Name', b'Body', b'Date', b'a']
CONFS = [(b'/h', b'/h/conf'), (b'/home/user', b'/home/user/.mdsort.conf'), (b'/h', b'/etc/mdsort.conf'), (b'/h', b'rel/conf'), (b'', b'/c')]
# a configuration path / header name with characters of several bytes, of two columns, of no column (the head of an explanation
# must be accounted for in columns: repaired in mdsort by 951a0f1)
CONFS_MB = [(b'/h', '/h/d\u00e9/conf'.encode()), (b'/h', '/etc/\u4e2d/m.conf'.encode()), ('/h\u00e9'.encode(), '/h\u00e9/c\u0301onf'.encode()),
            (b'/home/user', '/home/user/\u6587\u4ef6/\u00fc.conf'.encode()), (b'/x', '/h/\U0001f600.conf'.encode()), (b'/h', '/h/caf\u00e9'.encode())]
KEYS_MB = ['S\u00e9'.encode(), 'X-\u4e2d'.encode(), '\u0416'.encode(), 'X-e\u0301'.encode()]


class InspectCase:
    __slots__ = ('home', 'conf', 'key', 'val', 'lno', 'subs', 'aligned', 'impl', 'model')

    def request(self):
        subs = '+'.join('x/x' if x is None else '%d/%d' % x for x in self.subs)
        return 'inspect ' + ' '.join(vlib.hexs(a) for a in (self.home, self.conf, self.key, self.val, str(self.lno).encode(), subs.encode()))

    def prefix(self):
        c = self.conf
        if c.startswith(self.home):
            c = b'~' + c[len(self.home):]
        return c + b':%d: ' % self.lno + self.key + b': '

    def readable(self):
        return {'home': repr(self.home), 'configuration_path': repr(self.conf), 'header': repr(self.key), 'value': repr(self.val),
                'line': self.lno, 'sub_matches': self.subs, 'request': self.request()}


def inspect_case(rng):
    c = InspectCase()
    c.home, c.conf = rng.choice(CONFS)
    c.key = rng.choice(KEYS)
    r = rng.random()
    if r < 0.12:
        c.home, c.conf = rng.choice(CONFS_MB)
    if 0.08 < r < 0.20:
        c.key = rng.choice(KEYS_MB)
    c.lno = rng.choice([1, 2, 7, 10, 42, 100, 1234])
    c.impl = c.model = None
    # the value: 1-3 lines, each optional leading blanks + pieces (mostly single characters, see mbtext.atom)
    lines, offs, pos = [], [], 0      # offs[k] = piece boundaries of line k (absolute), first one after the leading blanks
    for k in range(rng.choice([1, 1, 2, 3])):
        lead = rng.choice([b'', b'', b'', b' ', b'   ', b'\t', b' \t '])
        pieces = mbtext.atoms_line(rng, rng.randint(1, 9), control=True)
        if pieces[0][:1] in (b' ', b'\t'):
            pieces[0] = b'w'
        o, q = [], pos + len(lead)
        for pc in pieces:
            o.append(q)
            q += len(pc)
        o.append(q)
        offs.append((pos, o))
        lines.append(lead + b''.join(pieces))
        pos = q + 1
    c.val = b'\n'.join(lines)

    def span(k=None):
        k = rng.randrange(len(lines)) if k is None else k
        o = offs[k][1]
        i = rng.randrange(len(o) - 1)
        j = rng.randrange(i + 1, len(o))
        return k, o[i], o[j]
    k, b, e = span()
    c.aligned = True
    r = rng.random()
    if r < 0.06 and k + 1 < len(lines):
        e = rng.choice(offs[k + 1][1][1:])                        # the match continues on the next line
    elif r < 0.10 and offs[k][1][0] > offs[k][0]:
        b = rng.randrange(offs[k][0], offs[k][1][0])              # begins inside the leading blanks (F15)
    elif r < 0.12 and k + 1 < len(lines):
        b = offs[k][1][-1]                                       # begins at the newline (F15b)
        e = max(e, b + 1)
    elif r < 0.16:
        b = rng.randrange(len(c.val))                            # any two offsets, also inside a character
        e = rng.randrange(b + 1, len(c.val) + 1)
        c.aligned = False
    c.subs = [(b, e)]
    if rng.random() < 0.25:
        for _ in range(rng.choice([1, 2, 3])):
            t = rng.random()
            if t < 0.2:
                c.subs.append(None)
            elif t < 0.35:
                c.subs.append((b, b))
            else:
                k2, b2, e2 = span(k if t < 0.8 else None)
                c.subs.append((b2, e2))
    return c


def judge_inspect(c, locale):
    """(problems, known class, number of marker lines judged) for the text the real expr_inspect printed."""
    if c.impl is None or not re.match(r'^([0-9a-f]{2})*$|^-$', c.impl):
        return ['no answer: %r' % (c.impl or '')[:80]], None, 0
    lines = vlib.unhex(c.impl).split(b'\n')
    if lines and lines[-1] == b'':
        lines = lines[:-1]
    printed = [x for x in c.subs if x is not None and x[0] != x[1]]
    if len(lines) != 2 * len(printed):
        return ['%d lines printed for %d non-empty sub-matches' % (len(lines), len(printed))], None, 0
    probs, known, n = [], None, 0
    pre = c.prefix()
    for i, (b, e) in enumerate(printed):
        quoted, marker = lines[2 * i], lines[2 * i + 1]
        head = pre if i == 0 else b' ' * mbtext.display_width(pre, locale)      # later explanations: as many blanks as the head has columns
        if quoted[:len(head)] != head:
            probs.append('explanation %d does not begin with %r: %r' % (i, head[:40], quoted[:60]))
            continue
        p2, k2 = judge_sub(c.val, b, e, quoted, marker, len(head), locale)
        if k2 == 'no-verdict':
            continue
        probs += p2
        known = known or k2
        n += 1
    return probs, known, n


def inspect_stage(rep, h, env, rng, n):
    """The real expr_inspect on generated values under LC_ALL=C and LC_ALL=C.utf8: the Lean model (widths from the platform's
    mbtowc/wcwidth through the FFI, same locale) must print the same bytes; the column oracle judges the implementation's text."""
    stats = {'cases': 0, 'marker_lines_judged': 0, 'correspondence_mismatches': 0, 'per_locale': {}}
    mism = []
    for locale in mbtext.LOCALES:
        lenv = dict(env, LC_ALL=locale)
        denv = dict(os.environ, LC_ALL=locale)
        info = vlib.run_batch([vlib.driver_path()], ['M locale 00'], denv)[0]
        if info != ('1 1' if locale == 'C' else '1 6'):
            raise vlib.CheckError('the driver does not run in locale %s (setlocale/MB_CUR_MAX: %r)' % (locale, info))
        cases = [inspect_case(rng) for _ in range(n)]
        reqs = [c.request() for c in cases]
        impl = vlib.run_batch([h], reqs, lenv)
        model = vlib.run_batch([vlib.driver_path()], ['M ' + r for r in reqs], denv)
        nj = nbad = 0
        for c, i, m in zip(cases, impl, model):
            c.impl, c.model = i, m
            if i.startswith('FAULT'):
                rep.finding('sanitizer-fault', dict(c.readable(), locale=locale, implementation=i))
                continue
            if i != m:
                mism.append((locale, c))
            probs, known, k = judge_inspect(c, locale)
            nj += k
            if probs and known is None:
                nbad += 1
                if nbad <= 5:
                    rep.finding('unlisted', dict(c.readable(), locale='LC_ALL=' + locale, what=probs[:4],
                                                 printed=vlib.unhex(i).decode('utf-8', 'replace') if not i.startswith('B') else i))
            elif known:
                rep.finding(known, dict(c.readable(), locale='LC_ALL=' + locale, what=probs[:2], printed=vlib.unhex(i).decode('utf-8', 'replace')))
        stats['cases'] += len(cases)
        stats['marker_lines_judged'] += nj
        stats['per_locale'][locale] = {'cases': len(cases), 'marker_lines_judged': nj, 'rejected_by_column_oracle': nbad,
                                       'non_ascii_path_or_header_name': sum(1 for c in cases if any(x >= 128 for x in c.prefix()))}
    stats['correspondence_mismatches'] = len(mism)
    if mism and not rep.violations:
        rep.violation({'obligation': 'correspondence expr_inspect/strnwidth <-> Model/Inspect.lean (exprInspect, strnwidth over the platform mbtowc/wcwidth)',
                       'disagreements': len(mism),
                       'examples': [dict(c.readable(), locale='LC_ALL=' + l, implementation=c.impl[-600:], model=(c.model or '')[-600:]) for l, c in mism[:5]]}, False)
    return stats


def locale_proc_stage(rep, tools, rng):
    """The real binary with -d and for real under LC_ALL=C and LC_ALL=C.utf8 on header and body rules whose patterns are sensitive to
    multibyte handling (tools/localeproc.py): (i) the messages -d lists are the messages the real run moves, in the same locale;
    (ii) -d lists a message iff the platform's regexec under that locale matches the decoded value; (iii) every marker line -d
    prints is judged by the column oracle against the offsets regexec gives (Lean driver, same LC_ALL)."""
    import localeproc as lp
    fams = lp.families(rng, rep.tier)
    with cf.ThreadPoolExecutor(min(8, vlib.NCPU)) as ex:
        list(ex.map(lambda f: lp.run_family(tools, f), fams))
    refs = {l: lp.reference(fams, l) for l in mbtext.LOCALES}
    st = {'configurations': len(fams), 'messages_each': len(fams[0].msgs) if fams else 0, 'decisions_compared': 0, 'listed': 0,
          'marker_lines_judged': 0, 'disagreements': 0}
    bad = []
    for fi, f in enumerate(fams):
        key = f.hname if f.kind == 'header' else b'Body'
        for l in mbtext.LOCALES:
            res = f.result[l]
            if res['status'] != (0, 0):
                if any(refs[l].get((fi, k)) is not None for k, _ in f.msgs):
                    bad.append((f, l, b'', ['mdsort exits %r (-d) / %r (real run): %s' % (res['status'] + (res['stderr'],))], None))
                else:
                    st.setdefault('rejected_patterns', []).append('%s under LC_ALL=%s: regcomp and mdsort both reject it' % (f.readable()['rule'], l))
                continue
            head = res['conf'] + b':2: ' + key + b': '
            for k, m in f.msgs:
                ref = refs[l].get((fi, k))
                if ref is None:
                    st['no_reference_verdict'] = st.get('no_reference_verdict', 0) + 1
                    continue
                listed, moved = k in res['dry'], k in res['moved']
                st['decisions_compared'] += 1
                what, known = [], None
                if listed != moved:
                    what.append('-d %s the message, the real run %s it (same locale)' % ('lists' if listed else 'does not list', 'moves' if moved else 'does not move'))
                if listed != ref[0]:
                    what.append('-d %s the message; regexec under LC_ALL=%s on the decoded value says %s' % ('lists' if listed else 'does not list', l, 'match' if ref[0] else 'no match'))
                if listed and ref[0]:
                    st['listed'] += 1
                    e = res['dry'][k]
                    if e['dest'] != ['%s/dst/new' % res['root']]:
                        what.append('destination lines %r' % e['dest'])
                    printed = [g for g in ref[2] if g is not None and g[0] != g[1]]
                    if len(e['expl']) != len(printed):
                        what.append('%d explanations printed for %d non-empty sub-matches' % (len(e['expl']), len(printed)))
                    else:
                        for i, ((b, en), (quoted, marker)) in enumerate(zip(printed, e['expl'])):
                            hd = head if i == 0 else b' ' * mbtext.display_width(head, l)
                            if quoted[:len(hd)] != hd:
                                what.append('explanation does not begin with %r: %r' % (hd[-30:], quoted[:80]))
                                continue
                            p2, k2 = judge_sub(ref[1], b, en, quoted, marker, len(hd), l)
                            if k2 == 'no-verdict':
                                continue
                            st['marker_lines_judged'] += 1
                            if any(x >= 128 for x in head):
                                st['marker_lines_with_non_ascii_head'] = st.get('marker_lines_with_non_ascii_head', 0) + 1
                            what += p2
                            known = known or k2
                if what or known:
                    bad.append((f, l, m, what, known, res['dry'].get(k)))
    st['disagreements'] = sum(1 for x in bad if x[3])
    nrep = 0
    for x in sorted(bad, key=lambda x: len(x[2])):
        f, l, m, what, known = x[:5]
        payload = dict(f.readable(), locale='LC_ALL=' + l, message=repr(m), what=what[:4], stage='locale (real binary)',
                       printed=b'\n'.join(q + b'\n' + mk for q, mk in (x[5] or {}).get('expl', [])).decode('utf-8', 'replace') if len(x) > 5 else '',
                       reproduce='LC_ALL=%s mdsort -d -f conf with: maildir "src" { %s }' % (l, f.readable()['rule']))
        if what and not known:
            nrep += 1
            if nrep <= 6:
                rep.finding('unlisted', payload)
        elif known:
            rep.finding(known, payload)
    return st


def dry_vs_real(tools, spec):
    """-d output of the real binary against a real run from the same state."""
    scen = spec.build(tools)
    try:
        scen.args = ['-d'] + list(spec.args)
        d = scen.run(trace=False)
        scen.reset()
        scen.args = list(spec.args)
        r = scen.run(trace=False)
        probs = []
        pred = {}
        for line in d.out.decode('latin-1').split('\n'):
            m = re.match(r'^(\S.*?) -> (.*)$', line)
            if m and (m.group(1).startswith(scen.root) or m.group(1) == '<stdin>'):
                pred.setdefault(m.group(1), []).append(m.group(2))
        init = ws.maildir_files(scen.initial)
        fin = ws.maildir_files(r.final)
        nexec = sum(1 for acts in pred.values() for a in acts if a == '<exec>')
        if d.status != 0 and r.status == 0:
            probs.append('dry run exits %r, real run %r' % (d.status, r.status))
        if r.status == 0:
            if len(r.helper) != nexec and not re.search(r'\bcommand\b', scen.config):
                probs.append('dry run announces %d exec action(s), the real run executed %d' % (nexec, len(r.helper)))
            for rel, data in init.items():
                full = scen.root + '/' + rel
                acts = pred.get(full)
                i = ws.msg_id(data)
                now = [(p, dd) for p, dd in fin.items() if ws.msg_id(dd) == i] if i is not None else []
                if acts is None:
                    if fin.get(rel) != data:
                        probs.append('%s is not listed by -d but the real run changed it' % rel)
                    continue
                dests = [a for a in acts if not a.startswith('<')]
                if '<discard>' in acts:
                    if now:
                        probs.append('%s: -d says discard, the message still exists' % rel)
                    continue
                if not now:
                    probs.append('%s: listed by -d, gone after the real run' % rel)
                    continue
                p, dd = now[0]
                if dests:
                    want_dir = dests[-1]
                    if not (scen.root + '/' + p).startswith(want_dir + '/'):
                        probs.append('%s: -d predicts %s, the real run put it at %s' % (rel, want_dir.replace(scen.root, '@R@'), p))
                else:
                    if not p.startswith(rel.rsplit('/', 1)[0] + '/'):
                        probs.append('%s: -d predicts no move, the real run put it at %s' % (rel, p))
                if ('<label>' in acts or '<add-header>' in acts) and dd == data:
                    probs.append('%s: -d announces a rewrite, content unchanged' % rel)
                if not ('<label>' in acts or '<add-header>' in acts) and dd != data and not scen.devmap:
                    probs.append('%s: content changed without an announced rewrite' % rel)
        # a message taken from new to cur of a maildir that is still being walked is visited again in the same run
        mds = re.findall(r'maildir\s+"([^"]+)"', scen.config)
        revisit = any(a == md + '/cur' and src.startswith(md + '/new/') for src, acts in pred.items() for a in acts for md in mds)
        return {'scenario': spec.name, 'listed': len(pred), 'problems': probs, 'revisit': revisit, 'config': scen.config.replace(scen.root, '@R@')[:400]}
    finally:
        scen.args = list(spec.args)
        scen.cleanup()


def decorate(rng, msg):
    """Multibyte text (wide, zero-width, 2-4 byte characters, stray 8-bit bytes) in front of and behind what the generated patterns
    match: raw in To/Cc/Subject values and body lines, as an RFC 2047 word in some Subject values."""
    head, sep, body = msg.partition(b'\n\n')
    hl = head.split(b'\n')
    for i, l in enumerate(hl):
        m = re.match(rb'^(To|Cc|Subject): (.+)$', l)
        if not m or l.startswith(b'Subject: =?') or rng.random() < 0.3:
            continue
        pre = mbtext.text(rng, 1, 4, invalid=rng.random() < 0.3)
        post = mbtext.text(rng, 0, 3, invalid=False) if rng.random() < 0.5 else b''
        if m.group(1) == b'Subject' and rng.random() < 0.3:
            import base64
            w = mbtext.text(rng, 1, 4, invalid=False)
            pre = rng.choice([b'=?utf-8?B?' + base64.b64encode(w) + b'?=', b'=?UTF-8?q?' + b''.join(b'=%02X' % c for c in w) + b'?='])
        hl[i] = m.group(1) + b': ' + pre + b' ' + m.group(2) + post
    if b'Content-Type: multipart' not in head and b'Content-Transfer-Encoding' not in head:
        bl = body.split(b'\n')
        for i, l in enumerate(bl):
            if l and not re.match(rb'^line[0-9]$', l) and rng.random() < 0.7:
                bl[i] = mbtext.text(rng, 1, 3, invalid=rng.random() < 0.3) + b' ' + l + (mbtext.text(rng, 1, 2, invalid=False) if rng.random() < 0.4 else b'')
        body = b'\n'.join(bl)
    return b'\n'.join(hl) + sep + body


def run(rep):
    rng = random.Random(rep.seed)
    sc = vlib.Scratch()
    h, env = ec.harness(sc)
    envs = {l: (dict(env, LC_ALL=l), dict(os.environ, LC_ALL=l)) for l in mbtext.LOCALES}    # locale -> (harness, driver) environment
    env = envs['C'][0]
    tools = proc.Tools(sc)
    vlib.lean_gate(rep, 'C06', sc, [
        'display width: the model transcribes strnwidth() over mbtowc/wcwidth; the platform\'s mbtowc, wcwidth and regexec (FFI, LC_ALL=C and '
        'LC_ALL=C.utf8, the only UTF-8 locale of this image) are on both sides of the comparison; the column oracle of the check has its own '
        'table of character widths (tools/mbtext.py) and abstains on byte sequences whose rendering depends on the decoder',
    ])
    n = 1200 if rep.tier == 'quick' else 40000
    cases, mb = [], []
    for _ in range(n):
        g = gen_rules.Gen(rng, depth=rng.choice([0, 1, 2]), rules_max=3, errors=False)
        conf = g.config()
        pats = list(g.patterns)
        truth = [rng.random() < 0.7 for _ in range(gen_rules.ATOMS)]
        date = ec.gm(ec.NOW - rng.choice([5, 100, 100000])) + b' +0000' if rng.random() < 0.5 else None
        msg = gen_rules.message(rng, truth, mime=rng.random() < 0.2, date=date)
        if rng.random() < 0.5:
            msg = msg.replace(b'\n\n', b'\nSubject: hx folded\n\tsecond =?utf-8?Q?h=C3=A9?= line\n   third\n\n', 1) if rng.random() < 0.5 else msg.replace(b'bird\n', b'  bird x\n\tline1 bird\n')
        if rng.random() < 0.35:
            msg = decorate(rng, msg)
            mb.append(len(cases))
        cases.append(ec.Case(conf, pats, msg, rng.choice(['new', 'cur']), rng.choice(['1.host', '2.host:2,S']), '1'))
    for dry in ('0', '1'):
        cases.append(ec.Case('maildir "~/md" {\n\tmatch date > 2 weeks and header "To" /(u[a-z]*)@/ move "~/dst/\\1" label "\\0"\n}\n', [('(u[a-z]*)@', '')],
                             b'To: user@example.com\nDate: Mon, 21 Sep 2020 14:13:20 +0100\n\nb\n', 'new', '1.host', dry))
    ec.run_cases(h, env, cases, want_spec=False, denv=envs['C'][1])
    # the cases with multibyte text once more under LC_ALL=C.utf8 (regexec counts characters, strnwidth columns)
    cases_u = [ec.Case(cases[i].conf, cases[i].pats, cases[i].msg, cases[i].sub, cases[i].name, '1') for i in mb]
    ec.run_cases(h, envs['C.utf8'][0], cases_u, want_spec=False, denv=envs['C.utf8'][1])
    for c in cases_u:
        c.locale = 'C.utf8'
    corr_bad = []
    nmark = 0
    for c in cases + cases_u:
        locale = c.locale or 'C'
        if c.note == 'fault':
            rep.finding('sanitizer-fault', dict(c.readable(), implementation=c.impl))
            continue
        if c.model is None:
            continue
        if (c.impl if c.dry == '1' else ec.impl_core(c)) != c.model:
            corr_bad.append(c)
        if c.impl.startswith('MATCH'):
            probs, known, k = check_explanations(c, locale)
            nmark += k
            if probs:
                rep.finding('unlisted', dict(c.readable(), what=probs[:4],
                                             dry_run_output=ec.impl_dry_text(c).decode('utf-8', 'replace')[:1500]))
            elif known:
                rep.finding(known, dict(c.readable(), dry_run_output=ec.impl_dry_text(c).decode('utf-8', 'replace')[:800]))
    # expr_inspect directly, both locales
    ist = inspect_stage(rep, h, envs['C'][0], rng, 3000 if rep.tier == 'quick' else 60000)
    lst = locale_proc_stage(rep, tools, rng)
    # process level: dry run vs real run from the same state
    specs = list(ws.corpus())
    t = ws.base_tree(0, 0, extra_dirs=('dst', 'dst/user1', 'dst/user2'))
    for k in (1, 2):
        t['src/new/%d.host' % k] = ws.msg(k, extra=b'Date: Mon, 21 Sep 2020 14:13:20 +0100\n')
    specs.append(ws.Spec('date-then-capture', 'maildir "@R@/src" {\n\tmatch date > 2 weeks and header "To" /(user[0-9])@/ move "@R@/dst/\\1"\n}\n',
                         [('(user[0-9])@', '')], tree=t))
    import props.c05 as c05
    specs += [s for s, ok in c05.random_specs(rng, 30 if rep.tier == 'quick' else 800)]
    with cf.ThreadPoolExecutor(vlib.NCPU) as ex:
        pres = list(ex.map(lambda s: dry_vs_real(tools, s), specs))
    for r in pres:
        if r['problems']:
            rep.finding('walk-revisits-moved' if r['revisit'] else 'unlisted', {'scenario': r['scenario'], 'what': r['problems'][:5], 'config': r['config']})
    import isolation; rep.coverage['isolation'] = isolation.stage(rep, tools, 'C06')     # nothing leaks from one message / maildir / rule into the next (tools/isolation.py)
    if corr_bad and not rep.violations:
        rep.violation({'obligation': 'correspondence matches_inspect/expr_inspect <-> Model/Inspect.lean (dry-run text)', 'disagreements': len(corr_bad),
                       'examples': [dict(c.readable(), implementation=c.impl[-900:], model=(c.model or '')[-900:]) for c in corr_bad[:4]]}, False)
    vlib.lean_conclude(rep)
    rep.assumptions += ['locales C and C.utf8 (no other locale is installed in this image)',
                        'display width of a control character (TAB, ESC, C1) = 0 columns, as wcwidth() and strnwidth() have it; of a byte that is no '
                        'UTF-8 = 1 column; no verdict of the column oracle on sequences whose rendering depends on the decoder (truncated, '
                        'overlong, surrogate, beyond U+10FFFF) and on offsets inside a character']
    rep.coverage.update({
        'evaluations': len(cases) + len(cases_u) + len(pres) + ist['cases'] + 4 * lst['configurations'],
        'distinct_nontrivial': nmark + ist['marker_lines_judged'] + lst['marker_lines_judged'],
        'rule': '%d generated rule trees x messages (capture groups, multi-line bodies, folded and encoded headers, date conditions) evaluated '
                'with the dry-run flag by the real parser/evaluator/matches_inspect: the printed text is compared byte for byte with the model, '
                'every "-> destination" line with the action entry, every explanation with the value, offsets and line the implementation '
                'itself recorded (quoted line is a line of the value, ^ under the first and $ under the last matched character); %d '
                'configurations run with -d and then for real on the real binary (listed messages = messages acted on, same destinations, '
                'announced rewrites/discards/execs happen, unlisted untouched); locales: %d of the generated cases carry multibyte text '
                '(wide, zero-width, 2-4 byte characters, stray 8-bit bytes, encoded words) and are evaluated a second time under '
                'LC_ALL=C.utf8; %d generated (value, sub-match offsets) cases through the real expr_inspect under LC_ALL=C and C.utf8, text '
                'compared with the model (strnwidth over the platform mbtowc/wcwidth, same locale) and every marker line judged by an '
                'independent column oracle (own table of character widths); %d single-rule configurations (header and body patterns '
                'sensitive to multibyte handling) x %d messages on the real binary with -d and for real under both locales (listed = moved = '
                'what regexec under that locale says on the decoded value; marker lines judged by the column oracle); non-trivial = marker '
                'lines judged' % (n, len(pres), len(cases_u), ist['cases'], lst['configurations'], lst['messages_each']),
        'samples': [dict(c.readable(), dry_run_output=(ec.impl_dry_text(c) or b'').decode('latin-1')[:400]) for c in cases if c.impl and c.impl.startswith('MATCH')][:2],
        'marker_lines_checked': nmark,
        'multibyte_cases_under_C_utf8': len(cases_u),
        'expr_inspect_stage': ist,
        'locale_process_stage': lst,
        'correspondence_mismatches': len(corr_bad),
    })


def replay(rep, path):
    import isolation
    if isolation.replay_file(rep, path):
        return
    import json
    print(json.dumps(json.load(open(path)), indent=1)[:3000])
    sc = vlib.Scratch()
    vlib.lean_gate(rep, 'C06', sc, [])
    rep.coverage.update({'evaluations': 1, 'distinct_nontrivial': 1})
