"""C01 - no message is lost or duplicated when an I/O operation fails."""
import concurrent.futures as cf
import os
import random
import vlib
import proc
import world
import worldscen as ws

# Call sites whose failure is only warned about or not looked at (exit status stays 0): recorded
# as known findings by call name + what it operates on.
IGNORED = {
    'fclose-config': 'fclose of the configuration file',
    'close': 'close of a descriptor (placeholder, message, /dev/null)',
    'closedir': 'closedir',
    'fstatat-mtime': 'fstatat for the modification time in maildir_move (mtime not preserved)',
    'cleanup': 'best-effort removal of the stdin spool (readdir/unlinkat/rmdir in maildir_close)',
}


VARIANTS = 12     # thorough tier: scenarios per kind (the corpus scenario and variants of its population / message, tools/sweeplib.py)
PAIRS = 24        # thorough tier: sampled pairs of faults per scenario


def ignored_class(scen_kind, call, clean_calls, k):
    n = call['name']
    if n == 'fclose' and k == 1:
        return 'ignored-fclose-config'
    if n == 'close':
        return 'ignored-close'
    if n == 'closedir':
        return 'ignored-closedir'
    if n == 'fstatat':
        return 'ignored-fstatat-mtime'
    if scen_kind == 'stdin':
        # everything after the rewinddir of maildir_close is best-effort cleanup
        for j in range(k, -1, -1):
            if clean_calls[j]['name'] == 'rewinddir':
                return 'ignored-spool-cleanup'
    return None


def sweep(tools, W, spec, tier, rng, npairs=0):
    """Returns list of result dicts for one scenario.  npairs: that many sampled PAIRS of faults on top of the single faults, judged
    for loss-freedom (and followed by the model like every other run)."""
    out = []
    scen = spec.build(tools)
    base_name = spec.name.split('#')[0]
    try:
        clean = scen.run()
        req, tr, notes = W.request(scen, spec.pats, clean, stdin=(spec.kind == 'stdin'))
        ans = W.verdict([req])[0]
        kind, detail = world.compare(scen, clean, ans)
        out.append({'scenario': spec.name, 'plan': None, 'status': clean.status, 'conform': kind, 'detail': detail, 'ncalls': len(clean.calls()), 'notes': notes})
        if clean.status != 0 and base_name != 'stdin-reject':
            out[-1]['problem'] = 'fault-free run exits %s: %s' % (clean.status, clean.err[-300:])
            return out
        oracle = ws.TreeOracle(scen.initial, clean.final, stdin=spec.stdin)
        calls = clean.calls()
        reqs, metas = [], []
        for k, c in enumerate(calls):
            for e in ws.errnos(c['name'], tier):
                scen.reset()
                r = scen.run(fail='%d:%s' % (k, e))
                fired = any(t.get('fault') for t in r.trace if t['kind'] == 'call')
                rq, _, nts = W.request(scen, spec.pats, r, stdin=(spec.kind == 'stdin'))
                reqs.append(rq)
                metas.append((k, e, c, r, fired, nts))
        answers = W.verdict(reqs) if reqs else []
        for (k, e, c, r, fired, nts), ans in zip(metas, answers):
            kind, detail = world.compare(scen, r, ans)
            rec = {'scenario': spec.name, 'plan': '%d:%s' % (k, e), 'call': c['raw'].replace(scen.root, '@R@')[:200], 'status': r.status,
                   'fired': fired, 'conform': kind, 'detail': detail[:400] if kind != 'ok' else '', 'notes': nts}
            probs = []
            if r.status not in (0, 1, 75):
                probs.append('abnormal exit status %r: %s' % (r.status, r.err[-200:].decode('latin-1')))
            eo = oracle.exactly_once(r.final)
            if spec.kind == 'stdin' and r.status != 0:
                # a non-zero status hands the message back to the MTA: not being stored is not a loss
                eo = [p for p in eo if not p.endswith(' lost')]
            probs += eo
            if spec.kind == 'stdin':
                left = ws.tmp_entries(r.final)
                cls = ignored_class(spec.kind, c, calls, k)
                if left and cls != 'ignored-spool-cleanup':
                    probs.append('spool left behind in TMPDIR: %s' % left)
            if r.status == 0 and fired and ws.isdirectory_stat(c):
                # `isdirectory` with a path that cannot be stat'ed is false (documented meaning, expr_eval_stat): the rules go on with
                # the condition false; the run is judged by the world model (conformance incl. final tree) and by exactly-once above
                rec['cond_stat'] = True
            elif r.status == 0:
                probs += oracle.at_final_place(r.final)
                if fired and e not in ('short', 'shorthalf') and not ws.may_retry(c['name'], e):
                    cls = ignored_class(spec.kind, c, calls, k)
                    rec['exit0_class'] = cls or 'unlisted-exit0'
            rec['problems'] = probs
            out.append(rec)
        # pairs of faults: no loss whatever happens (the exactly-once clauses are about single faults)
        if npairs:
            reqs, metas = [], []
            late = ['EIO', 'ENOSPC', 'ENOENT', 'short']      # the second fault may hit a call the fault-free run does not have (error path)
            for _ in range(npairs):
                k1 = rng.randrange(len(calls))
                k2 = rng.randrange(k1 + 1, len(calls) + 4)
                e1 = rng.choice(ws.errnos(calls[k1]['name'], tier) or ['EIO'])
                e2 = rng.choice((ws.errnos(calls[k2]['name'], tier) or ['EIO']) if k2 < len(calls) else late)
                plan = '%d:%s,%d:%s' % (k1, e1, k2, e2)
                scen.reset()
                r = scen.run(fail=plan)
                nfired = sum(1 for t in r.trace if t['kind'] == 'call' and t.get('fault'))
                rq, _, nts = W.request(scen, spec.pats, r, stdin=(spec.kind == 'stdin'))
                reqs.append(rq)
                metas.append((plan, r, nfired, nts))
            for (plan, r, nfired, nts), ans in zip(metas, W.verdict(reqs) if reqs else []):
                kind, detail = world.compare(scen, r, ans)
                probs = []
                if r.status not in (0, 1, 75):
                    probs.append('abnormal exit status %r: %s' % (r.status, r.err[-200:].decode('latin-1')))
                lost = oracle.no_loss(r.final)
                if spec.kind == 'stdin' and r.status != 0:
                    lost = []
                probs += ['message %d has no intact copy' % i for i in lost]
                out.append({'scenario': spec.name, 'plan': plan, 'pair': True, 'call': '', 'status': r.status, 'fired': nfired > 0, 'both_fired': nfired > 1,
                            'conform': kind, 'detail': detail[:400] if kind != 'ok' else '', 'notes': nts, 'problems': probs})
        return out
    finally:
        scen.cleanup()


def thorough_job(job):
    """One scenario variant in a worker process (tools/sweeplib.py): -> compact summary."""
    import sweeplib
    spec, seed, npairs = job
    rng = random.Random('%s/%d' % (spec.name, seed))
    res = sweep(sweeplib.worker_tools(), sweeplib.worker_world(), spec, 'thorough', rng, npairs)
    keep = [r for r in res if r.get('problem') or r.get('problems') or r.get('conform') != 'ok' or r.get('exit0_class') or r.get('cond_stat') or r['plan'] is None]
    summ = {'scenario': spec.name, 'runs': len(res), 'single': sum(1 for r in res if r['plan'] and not r.get('pair')),
            'single_fired': sum(1 for r in res if r['plan'] and not r.get('pair') and r['fired']),
            'pairs': sum(1 for r in res if r.get('pair')), 'pairs_both_fired': sum(1 for r in res if r.get('pair') and r.get('both_fired')),
            'errnos': sorted(set(r['plan'].split(':', 1)[1] for r in res if r['plan'] and not r.get('pair') and r['fired'])),
            'sample': [r for r in res if r['plan'] and r not in keep][:1]}
    return summ, keep


def run(rep):
    rng = random.Random(rep.seed)
    sc = vlib.Scratch()
    tools = proc.Tools(sc)
    W = world.WorldCheck(sc, tools)
    vlib.lean_gate(rep, 'C01', sc, [
        'POSIX semantics of the kernel file system are represented by the abstract file system of Model/World.lean (applyOk / predict)',
        'the LD_PRELOAD shim (harness/shim/vshim.c): call numbering, fault injection, pinned clock/pid/host/random, sorted readdir snapshots',
        'stdio internals: a failed fflush/fclose is injected at the call, the bytes stdio itself writes are not visible to the shim',
    ])
    specs = ws.corpus(big=True)
    results = []
    thorough = None
    if rep.tier == 'thorough':
        # VARIANTS scenarios per kind, the whole errno table at every call, PAIRS sampled fault pairs per scenario, worker processes
        import sweeplib
        nvar = int(os.environ.get('VERIF_C01_VARIANTS', '0')) or VARIANTS
        npairs = int(os.environ.get('VERIF_C01_PAIRS', '0')) or PAIRS
        allspecs = [v for s in specs for v in sweeplib.variants(s, nvar, rep.seed)]
        pool = sweeplib.Pool(tools, sc, 'c01')
        try:
            outs = pool.map(thorough_job, [(s, rep.seed, npairs) for s in allspecs], 'C01 fault sweeps',
                            weight=lambda j: sum(len(d) for d in j[0].tree.values() if isinstance(d, bytes)) + len(j[0].stdin or b''))
        finally:
            pool.close()
        thorough = {'scenarios': len(allspecs), 'variants_per_kind': nvar, 'runs': 0, 'single_fault_runs': 0, 'single_faults_fired': 0,
                    'fault_pair_runs': 0, 'pairs_in_which_both_faults_fired': 0, 'failures_injected': set(), 'exhaustive_single_faults': True,
                    'processes': pool.nproc}
        for summ, keep in outs:
            results.extend(keep)
            thorough['runs'] += summ['runs']
            thorough['single_fault_runs'] += summ['single']
            thorough['single_faults_fired'] += summ['single_fired']
            thorough['fault_pair_runs'] += summ['pairs']
            thorough['pairs_in_which_both_faults_fired'] += summ['pairs_both_fired']
            thorough['failures_injected'] |= set(summ['errnos'])
            if len(results) < 100000:
                results.extend(summ['sample'])
        thorough['failures_injected'] = sorted(thorough['failures_injected'])
        specs = allspecs
    else:
        with cf.ThreadPoolExecutor(min(vlib.NCPU, len(specs))) as ex:
            for res in ex.map(lambda s: sweep(tools, W, s, rep.tier, rng), specs):
                results.extend(res)
    nfault = 0
    fired = 0
    corr_bad = []
    exit0 = {}
    for r in results:
        if r.get('problem'):
            rep.violation({'obligation': 'scenario corpus: ' + r['problem'], 'scenario': r['scenario']}, False)
            continue
        if r['plan'] is None:
            if r['conform'] != 'ok':
                corr_bad.append(r)
            continue
        nfault += 1
        fired += 1 if r['fired'] else 0
        if r['problems']:
            rep.finding('unlisted', {'scenario': r['scenario'], 'fault_plan': r['plan'], 'call': r['call'], 'exit_status': r['status'],
                                     'what': r['problems'], 'replay_cmd': 'python3 tools/check.py C01 --replay <this file>'})
        elif r['conform'] != 'ok':
            corr_bad.append(r)
        cls = r.get('exit0_class')
        if cls:
            exit0[cls] = exit0.get(cls, 0) + 1
            if cls == 'unlisted-exit0':
                rep.finding('unlisted', {'scenario': r['scenario'], 'fault_plan': r['plan'], 'call': r['call'], 'exit_status': 0,
                                         'what': ['an I/O failure was injected and mdsort exited 0 (failure not reported)']})
            else:
                rep.finding(cls, {'scenario': r['scenario'], 'fault_plan': r['plan'], 'call': r['call'], 'exit_status': 0,
                                  'what': ['an I/O failure at an ignored site: exit status 0']})
    if corr_bad and not rep.violations:
        rep.violation({'obligation': 'correspondence: the real run does not follow the Lean program Model.mainP (or ends in a different '
                                     'state); the tree oracle found no loss, duplicate, stray or unreported failure',
                       'disagreements': len(corr_bad), 'examples': corr_bad[:8]}, False)
    vlib.lean_conclude(rep)
    rep.coverage.update({
        'evaluations': thorough['runs'] if thorough else len(results),
        'distinct_nontrivial': (thorough['single_faults_fired'] + thorough['pairs_in_which_both_faults_fired']) if thorough else fired,
        'rule': '%d scenarios (move, cross-device move, flag, flags, label, add-header, discard, exec, exec stdin, exec stdin body, attachment '
                'exec, combinations, rules with command / isdirectory / file-time date conditions - evaluated through fork, waitpid, stat inside '
                'the run -, stdin delivery with/without rewriting, cross-device, discard, reject, with conditions, a stdin message of several I/O '
                'buffers); for each the fault-free traced run and one run per (call index, errno/short) of its I/O call sequence (read/write: '
                'EINTR in every tier - a retried transfer must not repeat, drop or shift bytes; exit 0 after EINTR/EAGAIN is accepted only '
                'with the message intact at its final place); every run is (a) judged by the tree oracle (each message '
                'exactly once intact, no stray, exit 0 only at final place, non-zero exit unless ignored site) and (b) checked call by call '
                'against Model.mainP with the observed results, final directory contents and exit status included; non-trivial = runs in '
                'which the injected fault fired' % len(specs),
        'samples': [r for r in results if r['plan'] is not None][:3],
        'fault_runs': (thorough['single_fault_runs'] + thorough['fault_pair_runs']) if thorough else nfault,
        'faults_fired': thorough['single_faults_fired'] if thorough else fired,
        'exit0_despite_fault': exit0,
        'correspondence_mismatches': len(corr_bad),
        'calls_per_scenario': {r['scenario']: r['ncalls'] for r in results if r['plan'] is None and 'ncalls' in r},
    })
    if thorough:
        rep.coverage['thorough'] = dict(thorough, what='%d scenarios per kind (the corpus scenario and variants: other populations in new and cur, X-Label / folded '
                                        'headers / flags in names, a message of several stdio buffers, the first generated name already taken in every '
                                        'directory, messages of one stdio buffer +-1; stdin: sizes around the read buffer and several buffers); for every '
                                        'scenario EVERY call index x EVERY failure of its row of the fault table (exhaustive), and %d sampled pairs of '
                                        'faults judged for loss-freedom; every run followed call by call by Model.mainP' % (thorough['variants_per_kind'], PAIRS))
    rep.coverage['isdirectory_stat_faults_judged_by_model'] = sum(1 for r in results if r.get('cond_stat'))
    rep.assumptions += ['single faults (thorough tier, pairs of faults: loss-freedom only); identity sources pinned by the shim; a fault on the '
                        'stat(2) of an `isdirectory` condition makes the condition false (documented meaning): those runs are judged by the world '
                        'model and exactly-once, not by the place the fault-free run reaches']


def replay(rep, path):
    import json
    j = json.load(open(path))
    sc = vlib.Scratch()
    tools = proc.Tools(sc)
    spec = [s for s in ws.corpus(big=True) if s.name == j.get('scenario')]
    if not spec and '#' in (j.get('scenario') or ''):
        import sweeplib
        base = [s for s in ws.corpus(big=True) if s.name == j['scenario'].split('#')[0]]
        spec = [v for s in base for v in sweeplib.variants(s, VARIANTS, j.get('seed', 1)) if v.name == j['scenario']]
    vlib.lean_gate(rep, 'C01', sc, [])
    if spec:
        scen = spec[0].build(tools)
        r = scen.run(fail=j.get('fault_plan'))
        print('exit status', r.status)
        print(r.err.decode('latin-1'))
        for t in r.trace:
            print(t['raw'].replace(scen.root, '@R@'))
        for rel in sorted(ws.maildir_files(r.final)):
            print('file', rel)
    rep.coverage.update({'evaluations': 1, 'distinct_nontrivial': 1})
