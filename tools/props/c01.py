"""C01 - no message is lost or duplicated when an I/O operation fails."""
import concurrent.futures as cf
import random
import vlib
import proc
import world
import worldscen as ws

# Call sites whose failure is only warned about or not looked at (exit status stays 0): recorded
# as known findings by call name + what it operates on.
IGNORED = {
    'fclose-config': 'fclose of the configuration file',
    'close': 'close of a descriptor (placeholder, message, /dev/null)',
    'closedir': 'closedir',
    'fstatat-mtime': 'fstatat for the modification time in maildir_move (mtime not preserved)',
    'cleanup': 'best-effort removal of the stdin spool (readdir/unlinkat/rmdir in maildir_close)',
}


def ignored_class(scen_kind, call, clean_calls, k):
    n = call['name']
    if n == 'fclose' and k == 1:
        return 'ignored-fclose-config'
    if n == 'close':
        return 'ignored-close'
    if n == 'closedir':
        return 'ignored-closedir'
    if n == 'fstatat':
        return 'ignored-fstatat-mtime'
    if scen_kind == 'stdin':
        # everything after the rewinddir of maildir_close is best-effort cleanup
        for j in range(k, -1, -1):
            if clean_calls[j]['name'] == 'rewinddir':
                return 'ignored-spool-cleanup'
    return None


def sweep(tools, W, spec, tier, rng):
    """Returns list of result dicts for one scenario."""
    out = []
    scen = spec.build(tools)
    try:
        clean = scen.run()
        req, tr, notes = W.request(scen, spec.pats, clean, stdin=(spec.kind == 'stdin'))
        ans = W.verdict([req])[0]
        kind, detail = world.compare(scen, clean, ans)
        out.append({'scenario': spec.name, 'plan': None, 'status': clean.status, 'conform': kind, 'detail': detail, 'ncalls': len(clean.calls()), 'notes': notes})
        if clean.status != 0 and spec.name != 'stdin-reject':
            out[-1]['problem'] = 'fault-free run exits %s: %s' % (clean.status, clean.err[-300:])
            return out
        oracle = ws.TreeOracle(scen.initial, clean.final, stdin=spec.stdin)
        calls = clean.calls()
        reqs, metas = [], []
        for k, c in enumerate(calls):
            for e in ws.errnos(c['name'], tier):
                scen.reset()
                r = scen.run(fail='%d:%s' % (k, e))
                fired = any(t.get('fault') for t in r.trace if t['kind'] == 'call')
                rq, _, nts = W.request(scen, spec.pats, r, stdin=(spec.kind == 'stdin'))
                reqs.append(rq)
                metas.append((k, e, c, r, fired, nts))
        answers = W.verdict(reqs) if reqs else []
        for (k, e, c, r, fired, nts), ans in zip(metas, answers):
            kind, detail = world.compare(scen, r, ans)
            rec = {'scenario': spec.name, 'plan': '%d:%s' % (k, e), 'call': c['raw'].replace(scen.root, '@R@')[:200], 'status': r.status,
                   'fired': fired, 'conform': kind, 'detail': detail[:400] if kind != 'ok' else '', 'notes': nts}
            probs = []
            if r.status not in (0, 1, 75):
                probs.append('abnormal exit status %r: %s' % (r.status, r.err[-200:].decode('latin-1')))
            eo = oracle.exactly_once(r.final)
            if spec.kind == 'stdin' and r.status != 0:
                # a non-zero status hands the message back to the MTA: not being stored is not a loss
                eo = [p for p in eo if not p.endswith(' lost')]
            probs += eo
            if spec.kind == 'stdin':
                left = ws.tmp_entries(r.final)
                cls = ignored_class(spec.kind, c, calls, k)
                if left and cls != 'ignored-spool-cleanup':
                    probs.append('spool left behind in TMPDIR: %s' % left)
            if r.status == 0 and fired and ws.isdirectory_stat(c):
                # `isdirectory` with a path that cannot be stat'ed is false (documented meaning, expr_eval_stat): the rules go on with
                # the condition false; the run is judged by the world model (conformance incl. final tree) and by exactly-once above
                rec['cond_stat'] = True
            elif r.status == 0:
                probs += oracle.at_final_place(r.final)
                if fired and e not in ('short', 'shorthalf') and not ws.may_retry(c['name'], e):
                    cls = ignored_class(spec.kind, c, calls, k)
                    rec['exit0_class'] = cls or 'unlisted-exit0'
            rec['problems'] = probs
            out.append(rec)
        return out
    finally:
        scen.cleanup()


def run(rep):
    rng = random.Random(rep.seed)
    sc = vlib.Scratch()
    tools = proc.Tools(sc)
    W = world.WorldCheck(sc, tools)
    vlib.lean_gate(rep, 'C01', sc, [
        'POSIX semantics of the kernel file system are represented by the abstract file system of Model/World.lean (applyOk / predict)',
        'the LD_PRELOAD shim (harness/shim/vshim.c): call numbering, fault injection, pinned clock/pid/host/random, sorted readdir snapshots',
        'stdio internals: a failed fflush/fclose is injected at the call, the bytes stdio itself writes are not visible to the shim',
    ])
    specs = ws.corpus(big=True)
    results = []
    with cf.ThreadPoolExecutor(min(vlib.NCPU, len(specs))) as ex:
        for res in ex.map(lambda s: sweep(tools, W, s, rep.tier, rng), specs):
            results.extend(res)
    nfault = 0
    fired = 0
    corr_bad = []
    exit0 = {}
    for r in results:
        if r.get('problem'):
            rep.violation({'obligation': 'scenario corpus: ' + r['problem'], 'scenario': r['scenario']}, False)
            continue
        if r['plan'] is None:
            if r['conform'] != 'ok':
                corr_bad.append(r)
            continue
        nfault += 1
        fired += 1 if r['fired'] else 0
        if r['problems']:
            rep.finding('unlisted', {'scenario': r['scenario'], 'fault_plan': r['plan'], 'call': r['call'], 'exit_status': r['status'],
                                     'what': r['problems'], 'replay_cmd': 'python3 tools/check.py C01 --replay <this file>'})
        elif r['conform'] != 'ok':
            corr_bad.append(r)
        cls = r.get('exit0_class')
        if cls:
            exit0[cls] = exit0.get(cls, 0) + 1
            if cls == 'unlisted-exit0':
                rep.finding('unlisted', {'scenario': r['scenario'], 'fault_plan': r['plan'], 'call': r['call'], 'exit_status': 0,
                                         'what': ['an I/O failure was injected and mdsort exited 0 (failure not reported)']})
            else:
                rep.finding(cls, {'scenario': r['scenario'], 'fault_plan': r['plan'], 'call': r['call'], 'exit_status': 0,
                                  'what': ['an I/O failure at an ignored site: exit status 0']})
    if corr_bad and not rep.violations:
        rep.violation({'obligation': 'correspondence: the real run does not follow the Lean program Model.mainP (or ends in a different '
                                     'state); the tree oracle found no loss, duplicate, stray or unreported failure',
                       'disagreements': len(corr_bad), 'examples': corr_bad[:8]}, False)
    vlib.lean_conclude(rep)
    rep.coverage.update({
        'evaluations': len(results),
        'distinct_nontrivial': fired,
        'rule': '%d scenarios (move, cross-device move, flag, flags, label, add-header, discard, exec, exec stdin, exec stdin body, attachment '
                'exec, combinations, rules with command / isdirectory / file-time date conditions - evaluated through fork, waitpid, stat inside '
                'the run -, stdin delivery with/without rewriting, cross-device, discard, reject, with conditions, a stdin message of several I/O '
                'buffers); for each the fault-free traced run and one run per (call index, errno/short) of its I/O call sequence (read/write: '
                'EINTR in every tier - a retried transfer must not repeat, drop or shift bytes; exit 0 after EINTR/EAGAIN is accepted only '
                'with the message intact at its final place); every run is (a) judged by the tree oracle (each message '
                'exactly once intact, no stray, exit 0 only at final place, non-zero exit unless ignored site) and (b) checked call by call '
                'against Model.mainP with the observed results, final directory contents and exit status included; non-trivial = runs in '
                'which the injected fault fired' % len(specs),
        'samples': [r for r in results if r['plan'] is not None][:3],
        'fault_runs': nfault, 'faults_fired': fired,
        'exit0_despite_fault': exit0,
        'correspondence_mismatches': len(corr_bad),
        'calls_per_scenario': {r['scenario']: r['ncalls'] for r in results if r['plan'] is None and 'ncalls' in r},
    })
    rep.coverage['isdirectory_stat_faults_judged_by_model'] = sum(1 for r in results if r.get('cond_stat'))
    rep.assumptions += ['single faults; identity sources pinned by the shim; a fault on the stat(2) of an `isdirectory` condition makes '
                        'the condition false (documented meaning): those runs are judged by the world model and exactly-once, not by '
                        'the place the fault-free run reaches']


def replay(rep, path):
    import json
    j = json.load(open(path))
    sc = vlib.Scratch()
    tools = proc.Tools(sc)
    spec = [s for s in ws.corpus(big=True) if s.name == j.get('scenario')]
    vlib.lean_gate(rep, 'C01', sc, [])
    if spec:
        scen = spec[0].build(tools)
        r = scen.run(fail=j.get('fault_plan'))
        print('exit status', r.status)
        print(r.err.decode('latin-1'))
        for t in r.trace:
            print(t['raw'].replace(scen.root, '@R@'))
        for rel in sorted(ws.maildir_files(r.final)):
            print('file', rel)
    rep.coverage.update({'evaluations': 1, 'distinct_nontrivial': 1})
