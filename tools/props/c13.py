"""C13 - commands get exactly the configured arguments and a clean process environment."""
import base64
import concurrent.futures as cf
import random
import vlib
import proc
import world
import worldscen as ws
import execbody
import cmdstatus
import execseq

R = '@R@'
ALPHA = [' ', "'", '\\"', '*', '?', '$', '`', ';', '|', '&', '<', '>', '(', ')', '\t', '\n', 'a', 'b', '-', '=', '\xe9', '\xff', '#', '%s', '{', '}', '[', ']', '!', '..', '/']


def arg(rng):
    s = ''.join(rng.choice(ALPHA) for _ in range(rng.randrange(1, 7)))
    if s.startswith('~'):
        s = 'x' + s
    return s.replace('${', '$ {')


def conf_str(s):
    return '"' + s + '"'


def expected_arg(s):
    return s.replace('\\"', '"').encode('latin-1')


def parse_helper(line):
    d = {}
    for tok in line.split(' '):
        if '=' in tok:
            k, v = tok.split('=', 1)
            d[k] = v
    argv = [] if d.get('argv', '') in ('', 'none') else [b'' if a == '-' else bytes.fromhex(a) for a in d.get('argv', '').split(',')]
    stdin = b'' if d.get('stdin', '-') == '-' else bytes.fromhex(d['stdin'])
    fds = [int(x) for x in d.get('fds', '').split(',') if x]
    return argv, stdin, fds, d.get('stdin_target', '')


PLAIN = b'To: user1@example.com\nX-Id: 1\nSubject: plain\n\nplain body line\n'
B64M = b'To: user2@example.com\nX-Id: 2\nSubject: enc\nContent-Transfer-Encoding: base64\n\n' + base64.b64encode(b'decoded body text\n') + b'\n'
PART1 = b'Content-Type: text/plain\nX-Part: one\n\nfirst part\n'
PART2 = b'Content-Type: application/pdf\nX-Part: two\n\nsecond part\n'
MIMEM = b'To: user3@example.com\nX-Id: 3\nContent-Type: multipart/mixed; boundary="b"\n\n--b\n' + PART1 + b'--b\n' + PART2 + b'--b--\n'


def scenario(rng, tools):
    """-> (Spec, expectation dict)"""
    nargs = rng.randrange(0, 8)
    args = [arg(rng) for _ in range(nargs)]
    kind = rng.choice(['plain', 'stdin', 'body', 'attachment', 'after-label', 'after-move', 'stdin-mode', 'status', 'command', 'capture'])
    H = conf_str('@HELPER@')
    argl = ' '.join([H] + [conf_str(a) for a in args])
    tree = {}
    exp = {'kind': kind, 'argv': [expected_arg(a) for a in args], 'env': {}}
    msgs = {('new', '1.host'): PLAIN}
    stdin = None
    pats = []
    cargs = []
    if kind == 'plain':
        conf = 'maildir "%s/src" {\n\tmatch all exec { %s } move "%s/dst"\n}\n' % (R, argl, R)
        exp.update(stdin=b'', devnull=True, runs=1, status=0)
    elif kind == 'stdin':
        conf = 'maildir "%s/src" {\n\tmatch all exec stdin { %s }\n}\n' % (R, argl)
        exp.update(stdin=PLAIN, devnull=False, runs=1, status=0)
    elif kind == 'body':
        msgs = {('new', '2.host'): B64M}
        conf = 'maildir "%s/src" {\n\tmatch all exec stdin body { %s }\n}\n' % (R, argl)
        exp.update(stdin=b'decoded body text\n', devnull=False, runs=1, status=0)
    elif kind == 'attachment':
        msgs = {('new', '3.host'): MIMEM}
        conf = 'maildir "%s/src" {\n\tmatch all attachment { match header "X-Part" /two/ exec stdin { %s } }\n}\n' % (R, argl)
        pats = [('two', '')]
        exp.update(stdin=PART2, devnull=False, runs=1, status=0)
    elif kind == 'after-label':
        conf = 'maildir "%s/src" {\n\tmatch all label "lbl" add-header "X-New" "v" exec stdin { %s }\n}\n' % (R, argl)
        exp.update(stdin='current', devnull=False, runs=1, status=0)
    elif kind == 'after-move':
        conf = 'maildir "%s/src" {\n\tmatch all move "%s/dst" flag !new exec stdin { %s }\n}\n' % (R, R, argl)
        exp.update(stdin=PLAIN, devnull=False, runs=1, status=0)
    elif kind == 'stdin-mode':
        msgs = {}
        stdin = PLAIN
        cargs = ['-']
        conf = 'stdin {\n\tmatch all exec stdin { %s } move "%s/dst"\n}\n' % (argl, R)
        exp.update(stdin=PLAIN, devnull=False, runs=1, status=0)
    elif kind == 'status':
        code = rng.choice([1, 2, 126, 127, 0])
        sig = rng.choice([None, None, 15, 9]) if code != 0 else None
        conf = 'maildir "%s/src" {\n\tmatch all exec { %s } move "%s/dst"\n}\n' % (R, argl, R)
        exp['env'] = {'EXECHELPER_EXIT': str(code)}
        if sig:
            exp['env']['EXECHELPER_SIGNAL'] = str(sig)
        exp.update(stdin=b'', devnull=True, runs=1, status=0 if (code == 0 and not sig) else 1, moved=(code == 0 and not sig))
    elif kind == 'command':
        code = rng.choice([0, 1, 3])
        conf = 'maildir "%s/src" {\n\tmatch command { %s } move "%s/dst"\n}\n' % (R, argl, R)
        exp['env'] = {'EXECHELPER_EXIT': str(code)}
        exp.update(stdin=b'', devnull=True, runs=1, status=0, moved=(code == 0), command=True)
    else:  # capture
        conf = 'maildir "%s/src" {\n\tmatch header "To" /(user1)@(nomatch)?(.*)/ exec { %s "\\1" "\\2" "pre \\3 post" }\n}\n' % (R, argl)
        pats = [('(user1)@(nomatch)?(.*)', '')]
        exp['argv'] = exp['argv'] + [b'user1', b'', b'pre example.com post']
        exp.update(stdin=b'', devnull=True, runs=1, status=0)
    tree.update(proc.maildir_tree('src', msgs))
    tree.update(proc.maildir_tree('dst', {}))
    spec = ws.Spec('exec-' + kind, conf, pats, tree=tree, stdin=stdin, args=cargs, kind='stdin' if stdin else 'maildir', env=exp['env'])
    return spec, exp


def one(tools, W, rng_seed):
    rng = random.Random(rng_seed)
    spec, exp = scenario(rng, tools)
    scen = spec.build(tools)
    try:
        r = scen.run()
        probs = []
        recs = [parse_helper(l) for l in r.helper]
        if len(recs) != exp['runs']:
            probs.append('the command ran %d times, expected %d (stderr: %s)' % (len(recs), exp['runs'], r.err[-200:].decode('latin-1')))
        for argv, stdin, fds, target in recs:
            if argv != exp['argv']:
                probs.append('argv is %r, configured %r' % (argv, exp['argv']))
            want = exp['stdin']
            if want == 'current':
                cur = [d for rel, d in ws.maildir_files(r.final).items() if ws.msg_id(d) == 1]
                want = cur[0] if cur else None
            if stdin != want:
                probs.append('stdin of the command is %r, expected %r' % (stdin[:120], (want or b'')[:120]))
            if exp['devnull'] and target != '/dev/null':
                probs.append('stdin is connected to %s, not /dev/null' % target)
            if sorted(fds) != [0, 1, 2]:
                probs.append('the command inherited descriptors %s' % fds)
        if r.status != exp['status']:
            probs.append('exit status %r, expected %r' % (r.status, exp['status']))
        if 'moved' in exp:
            moved = any(rel.startswith('dst/') for rel in ws.maildir_files(r.final))
            if moved != exp['moved']:
                probs.append('message %s moved although the command %s' % ('was' if moved else 'was not', 'failed' if not exp['moved'] else 'succeeded'))
        # call-by-call conformance with Model.mainP, `command` conditions included (evaluated inside the run since package p4): every
        # fork of the trace carries the vector the CHILD handed to execvp and the descriptor it duplicated onto 0 (shim), and
        # Model.Call.same compares both with the model's `fork argv stdin` (package p14)
        rq, tr, nts = W.request(scen, spec.pats, r, stdin=(spec.kind == 'stdin'))
        ans = W.verdict([rq])[0]
        conform, detail = world.compare(scen, r, ans)
        if conform != 'ok':
            conform += ': ' + detail[:300] + (' (trace: %s)' % '; '.join(nts)[:300] if nts else '')
        nforks = len([l for l in tr if l.startswith('fork ')])
        return {'kind': exp['kind'], 'config': scen.config.replace(scen.root, R)[:500], 'env': exp['env'], 'problems': probs, 'conform': conform,
                'nargs': len(exp['argv']), 'forks': nforks}
    finally:
        scen.cleanup()


def run(rep):
    rng = random.Random(rep.seed)
    sc = vlib.Scratch()
    tools = proc.Tools(sc)
    W = world.WorldCheck(sc, tools)
    vlib.lean_gate(rep, 'C13', sc, [
        'the exec helper (harness/shim/exechelper.c) records argv, stdin bytes and /proc/self/fd of the child; run through a link named '
        'cmd-exit-N / cmd-signal-N it ends that way',
        'unit harness: a program named vstatus:... is not looked up by execvp(3), the child of the real exec() ends as the name says '
        '(harness/unit/h_expr.c)',
        cmdstatus.SIGNAL_NOTE,
        'fork/dup2/execvp/waitpid are the kernel\'s; the model\'s call `fork argv s` is tied to util.c by the shim (harness/shim/vshim.c): the child '
        'of the real binary runs under it up to its exec call and reports the function (execvp), the file, the vector and the descriptor it '
        'duplicated onto 0 (checked with kcmp(2)); tools/world.py maps exactly `execvp(argv[0], argv)` after `dup2(s, 0)` to `fork s argv`, and '
        'Model.conform compares vector and descriptor call by call; an injected fork failure runs a ghost child up to its exec call',
        'C13_fd_hygiene / C13_fd_cloexec speak about Model.openFds (the descriptor table as a view of the trace); the tie to the '
        'binary: tools/world.py maps an observed openat / open / fcntl / mkostemp / opendir to the constructors openRd / openExcl / '
        'openPath / dupfd / mkostemp / opendir ONLY if its flags are exactly the close-on-exec form (opendir: FD_CLOEXEC of the '
        'stream\'s descriptor, read back by the shim); any other form ends the call-by-call conformance; independently the '
        'helper\'s /proc/self/fd record must be exactly 0, 1, 2 in every scenario',
    ])
    n = 150 if rep.tier == 'quick' else 12000
    seeds = [rng.randrange(1 << 30) for _ in range(n)]
    with cf.ThreadPoolExecutor(vlib.NCPU) as ex:
        results = list(ex.map(lambda s: one(tools, W, s), seeds))
    corr_bad = []
    kinds = {}
    for r in results:
        kinds[r['kind']] = kinds.get(r['kind'], 0) + 1
        if r['problems']:
            rep.finding('unlisted', {'kind': r['kind'], 'config': r['config'], 'environment': r['env'], 'what': r['problems'][:5],
                                     'conformance_with_Model.mainP': r['conform']})
        elif r['conform'] not in ('ok', 'skipped'):
            corr_bad.append(r)
    # "reads the complete content from offset 0" when the transfer into the temporary file is disturbed (short counts, EINTR, ENOSPC,
    # file size limit): tools/execbody.py, shared with C11
    fault_cov = execbody.stage(rep, tools, whole_part=True)
    # "all exit statuses/signals": every way a program can end or fail to start, as a `command` condition and as an `exec` action
    # (tools/cmdstatus.py: real binary judged by the documented meaning, and the real evaluator in-process against Model.eval)
    status_cov = cmdstatus.stage(rep, sc, tools, W, random.Random(rep.seed + 3))
    # what a command reads on standard input across ACTION SEQUENCES (rewrites, renames, copies before / between / after the commands):
    # tools/execseq.py, shared with C11
    seq_cov = execseq.stage(rep, tools, W, focus='all')
    import isolation; rep.coverage['isolation'] = isolation.stage(rep, tools, 'C13')     # nothing leaks from one message / maildir / rule into the next (tools/isolation.py)
    if corr_bad and not rep.violations:
        rep.violation({'obligation': 'correspondence: an exec scenario does not follow Model.mainP', 'disagreements': len(corr_bad), 'examples': corr_bad[:6]}, False)
    vlib.lean_conclude(rep)
    rep.coverage.update({
        'evaluations': len(results),
        'distinct_nontrivial': len([r for r in results if r['nargs'] >= 1]),
        'rule': '%d generated exec/command scenarios on the real binary: argument vectors of 0-7 strings over a hostile alphabet (blanks, quotes, '
                'glob and shell metacharacters, newline, 8-bit bytes, empty captures), options none/stdin/stdin body, exec alone, after label + '
                'add-header, after move + flag, inside an attachment block, in stdin mode, exit statuses 0/1/2/126/127 and signals, command '
                'conditions; the helper\'s record (argv bytes, stdin bytes, inherited descriptors, stdin target) is compared with the '
                'configured vector and the current message / decoded body / part; call-by-call conformance with Model.mainP; non-trivial = '
                'at least one argument' % n,
        'samples': results[:3],
        'kinds': kinds,
        'correspondence_mismatches': len(corr_bad),
        'forks_conformed': sum(r['forks'] for r in results if r['conform'] == 'ok'),
        'runs_rejected_by_the_conformance': len([r for r in results if r['conform'] != 'ok']),
        'stdin_under_write_faults': fault_cov,
        'command_status_family': status_cov,
        'stdin_across_action_sequences': seq_cov,
    })


def replay(rep, path):
    import isolation
    if isolation.replay_file(rep, path):
        return
    import json
    j = json.load(open(path))
    print(json.dumps(j, indent=1)[:3000])
    sc = vlib.Scratch()
    vlib.lean_gate(rep, 'C13', sc, [])
    if j.get('stage') == 'execbody':
        execbody.replay(proc.Tools(sc), j)
    if j.get('stage') == 'cmdstatus':
        tools = proc.Tools(sc)
        cmdstatus.replay_process(tools, world.WorldCheck(sc, tools), j)
    if j.get('stage') == 'execseq':
        execseq.replay(proc.Tools(sc), j)
    rep.coverage.update({'evaluations': 1, 'distinct_nontrivial': 1})
