"""C14 - a configuration is accepted or rejected as a whole, and the parser is total."""
import concurrent.futures as cf
import os
import random
import re
import subprocess
import vlib
import proc
import world
import worldscen as ws
import cmdline
import gen_rules
import confshape
import conffam
import confbytes

R = '@R@'

# Catalogue of invalidating edits: (name, function(valid config text) -> invalid text or None)
def _after_first(conf, needle, insert):
    i = conf.find(needle)
    return None if i < 0 else conf[:i + len(needle)] + insert + conf[i + len(needle):]


BASE = ('dir = "%(R)s/dst"\n'
        'maildir "%(R)s/src" {\n'
        '\tmatch header "To" /user/ move "${dir}"\n'
        '\tmatch body /x(y)?/i and date > 2 weeks label "old" pass\n'
        '\tmatch ! new or (old and all) {\n'
        '\t\tmatch attachment header "Content-Type" /pdf/ exec stdin "@HELPER@"\n'
        '\t\tmatch all flag !new\n'
        '\t}\n'
        '\tmatch all add-header "X-Seen" "yes" flags "F"\n'
        '}\n'
        'stdin {\n\tmatch all move "${dir}"\n}\n') % {'R': R}

EDITS = [
    ('unknown-keyword', lambda c: c.replace('match all flag !new', 'matsch all flag !new', 1)),
    ('unknown-macro', lambda c: c.replace('move "${dir}"', 'move "${nosuch}"', 1)),
    ('unused-macro', lambda c: 'unused = "x"\n' + c),
    ('macro-redefined', lambda c: c.replace('dir = ', 'dir = "a"\ndir = ', 1)),
    ('macro-not-at-root', lambda c: c.replace('\tmatch all add-header', '\tinner = "x"\n\tmatch all add-header', 1)),
    ('macro-wrong-context', lambda c: c.replace('maildir "%s/src"' % R, 'maildir "${path}"', 1)),
    ('unterminated-macro', lambda c: c.replace('move "${dir}"', 'move "${dir"', 1)),
    ('discard-with-action', lambda c: c.replace('label "old" pass', 'label "old" discard', 1)),
    ('reject-with-action', lambda c: c.replace('stdin {\n\tmatch all move "${dir}"', 'stdin {\n\tmatch all reject move "${dir}"', 1)),
    ('reject-outside-stdin', lambda c: c.replace('add-header "X-Seen" "yes" flags "F"', 'reject', 1)),
    ('body-without-stdin', lambda c: c.replace('exec stdin "@HELPER@"', 'exec body "@HELPER@"', 1)),
    ('exec-option-repeated', lambda c: c.replace('exec stdin "@HELPER@"', 'exec stdin stdin "@HELPER@"', 1)),
    ('invalid-pattern', lambda c: c.replace('/user/', '/us(er/', 1)),
    ('pattern-flags-l-and-u', lambda c: c.replace('/x(y)?/i', '/x(y)?/lu', 1)),
    ('pattern-unterminated', lambda c: c.replace('/x(y)?/i and', '/x(y)? and', 1)),
    ('string-unterminated', lambda c: c.replace('label "old" pass', 'label "old pass', 1)),
    ('empty-string', lambda c: c.replace('label "old"', 'label ""', 1)),
    ('age-overflow', lambda c: c.replace('2 weeks', '4294967296 seconds', 1)),
    ('age-times-unit-overflow', lambda c: c.replace('2 weeks', '137 years', 1)),
    ('ambiguous-unit', lambda c: c.replace('2 weeks', '2 m', 1)),
    ('second-stdin-block', lambda c: c + 'stdin {\n\tmatch all discard\n}\n'),
    ('second-stdin-after-maildir', lambda c: c + 'maildir "%s/dst" {\n\tmatch all flag new\n}\nstdin {\n\tmatch all discard\n}\n' % R),
    ('empty-block', lambda c: c.replace('stdin {\n\tmatch all move "${dir}"\n}', 'stdin {\n}', 1)),
    ('empty-nested-block', lambda c: c.replace('\t\tmatch attachment header "Content-Type" /pdf/ exec stdin "@HELPER@"\n\t\tmatch all flag !new\n', '', 1)),
    ('missing-action', lambda c: c.replace('match all add-header "X-Seen" "yes" flags "F"', 'match all', 1)),
    ('missing-condition', lambda c: c.replace('match all add-header', 'match add-header', 1)),
    ('and-without-rhs', lambda c: c.replace('and date > 2 weeks', 'and', 1)),
    ('attachment-block-with-move', lambda c: c.replace('match all add-header "X-Seen" "yes" flags "F"', 'match all attachment { match all move "%s/dst" }' % R, 1)),
    ('empty-attachment-block', lambda c: c.replace('match all add-header "X-Seen" "yes" flags "F"', 'match all attachment { }', 1)),
    ('empty-attachment-block-nested', lambda c: c.replace('\t\tmatch all flag !new\n', '\t\tmatch all attachment {\n\t\t}\n', 1)),
    ('missing-brace', lambda c: c[:c.rfind('}')]),
    ('stray-token', lambda c: c.replace('match all flag !new', 'match all flag !new }', 1)),
    ('keyword-as-macro', lambda c: 'move = "x"\n' + c),
    ('missing-header-name', lambda c: c.replace('header "To" /user/', 'header /user/', 1)),
    ('flag-without-new', lambda c: c.replace('flag !new', 'flag !', 1)),
    ('pattern-flags-u-and-l', lambda c: c.replace('/x(y)?/i', '/x(y)?/ul', 1)),
    ('pattern-flags-i-l-u', lambda c: c.replace('/x(y)?/i', '/x(y)?/ilu', 1)),
]

# Pattern flags: every string of at most three letters of i, l, u (repetitions included) and letters that are not flags.  mdsort.conf(5):
# i ignores case, l / u lower- / uppercase the captured text and "cannot be combined" - a pattern carrying both, in either order, with
# or without i, is an error; any combination without that pair is valid, a letter repeated included.  A letter that is not a flag is
# not part of the pattern: it starts the next word, which is no keyword here.
PFLAGS = [''.join(p) for n in range(4) for p in __import__('itertools').product('ilu', repeat=n)]
PFLAGS_UNKNOWN = ['x', 'g', 'I', 'L', 'U', 'ix', 'lx', 'm', 's', '1']


def pattern_flag_cases():
    out = []
    for f in PFLAGS + PFLAGS_UNKNOWN:
        for where in ('body', 'header'):
            old = '/x(y)?/i' if where == 'body' else '/user/'
            conf = BASE.replace(old, old[:old.rindex('/') + 1] + f, 1)
            bad = ('l' in f and 'u' in f) or f in PFLAGS_UNKNOWN
            out.append(('pattern-flags-%s-%s' % (where, f or 'none'), conf, 'reject' if bad else 'accept'))
    return out



# --------------------------------------------------------------------------
# parser correspondence: config_parse (parse.y) <-> Model/Conf.lean (parseConfig)
# --------------------------------------------------------------------------

HOME = b'/home/u'

# hand-written corner cases: (configuration text, home, -D definitions)
CORNERS = [
    ('', HOME, []),
    ('# nothing\n', HOME, []),
    ('maildir "a" {\n match all attachment { }\n}\n', HOME, []),
    ('maildir "a" { match all attachment { match all exec "x" } }', HOME, []),
    ('maildir "a" { match all attachment { match all exec "x" match new move "y" } }', HOME, []),
    ('maildir "a" { match all attachment { match all exec "x" } discard }', HOME, []),
    ('maildir { } { match all break }', HOME, []),
    ('maildir { "a" "b"\n"~/c" } { match header { } /x/ label { } }', HOME, []),
    ('maildir "/dev/stdin" { match all reject }\nstdin { match all discard }', HOME, []),
    ('maildir "/dev/stdin" { match all reject }\nmaildir "b" { match all break }', HOME, []),
    ('stdin { match all reject }\nmaildir { "/dev/stdin" "b" } { match all reject }', HOME, []),
    ('stdin { match all reject }\nmaildir { "b" "/dev/stdin" } { match all reject }', HOME, []),
    ('stdin {\n match all\n reject\n break }\n', HOME, []),
    ('stdin {\n match all\n move "a"\n discard\n\n)', HOME, []),
    ('stdin {\n match all\n move "a"\n\n discard # c\n\n}', HOME, []),
    ('a = "x"\nb = "${a}y"\nmaildir "${b}" { match all move "${a}/${path}" }', HOME, []),
    ('a = "x"\nb = "${a}y"\nmaildir "${a}" { match all move "${a}" }', HOME, []),
    ('a = "x"\n\nmaildir "q" { match all move "z" }', HOME, []),
    ('maildir "q" { match all move "z" }\na = "x"\n', HOME, []),
    ('a = "${path}"\nmaildir "${a}" { match all break }', HOME, []),
    ('path = "x"\nmaildir "q" { match all break }', HOME, []),
    ('a = "$"\nb = "{path}"\nmaildir "q" { match isdirectory "${a}${b}" move "${a}${b}" }', HOME, []),
    ('maildir "q" { match isdirectory "${path}" break }', HOME, []),
    ('maildir "q" { match command "${path}" break }', HOME, []),
    ('maildir "q" { match header "${path}" /x/ break }', HOME, []),
    ('maildir "q" { match all label "${path}" exec "${path}" move "${path}x${path" }', HOME, []),
    ('maildir "q" { match all label "${path}" exec { "a" "${path}" "${nosuch}" } }', HOME, []),
    ('maildir "q" { match all flags "${nosuch}" add-header "${a}" "${b}" }', HOME, []),
    ('a = "1"\na = "2"\nmaildir "q" { match all move "${a}" }', HOME, [(b'a', b'D')]),
    ('a = "1"\nmaildir "q" { match all move "${a}" }', HOME, [(b'a', b'D')]),
    ('maildir "q" { match all move "x" }', HOME, [(b'a', b'D')]),
    ('maildir "q" { match all move "${a b}" }', HOME, [(b'a b', b'${x}')]),
    ('maildir "q" { match all move "x" }', HOME, [(b'path', b'D')]),
    ('maildir "q" { match all move "${a}" }', HOME, [(b'a', b'1'), (b'a', b'2')]),
    ('maildir "~" { match isdirectory "~x" move "~/y~" label "~/l" }', HOME, []),
    ('maildir "~/m" { match all move "~/${h}" }\n', b'/h/${h}', [(b'h', b'HH')]),
    ('maildir "~/m" { match all break }\n', b'/' + b'h' * 4092, []),
    ('maildir "~/m" { match all break }\n', b'/' + b'h' * 4093, []),
    ('maildir "~/m" { match all break }\n', b'/' + b'h' * 4094, []),
    ('maildir "q" { match date > 4294967295 seconds break }', HOME, []),
    ('maildir "q" { match date > 4294967296 seconds break }', HOME, []),
    ('maildir "q" { match date > 71582788 minutes break }', HOME, []),
    ('maildir "q" { match date > 71582789 minutes break }', HOME, []),
    ('maildir "q" { match date\n>\n136\ny break }', HOME, []),
    ('maildir "q" { match date > 137 years break }', HOME, []),
    ('maildir "q" { match date modified < 0 s and date access > 1 h or date created > 2 d and date header < 3 w break }', HOME, []),
    ('maildir "q" { match date > 1 m break }', HOME, []),
    ('maildir "q" { match date > 1 old break }', HOME, []),
    ('maildir "q" { match date > 1\nfoo break }', HOME, []),
    ('maildir "q" { match date > 1 "s" break }', HOME, []),
    ('maildir "q" { match date > x break }', HOME, []),
    ('maildir "q" { match date 1 s break }', HOME, []),
    ('maildir "q" { match date > 1 seconds\nx break }', HOME, []),
    ('foo\n\n = "x"\nmaildir "${foo}" { match all break }', HOME, []),
    ('foo # c\n = "x"\nmaildir "${foo}" { match all break }', HOME, []),
    ('foo\n\nbar = "x"', HOME, []),
    ('foo =\n\n', HOME, []),
    ('foo', HOME, []),
    ('maildir "q" {\n foo\n}', HOME, []),
    ('maildir "q" {\n match all move "a" foo\n}', HOME, []),
    ('maildir "q" {\n match all move\n foo\n}', HOME, []),
    ('maildir "q" { match ! ! attachment ! all and attachment new or ( old or ! ( all ) ) and new break }', HOME, []),
    ('maildir "q" { match ( all\n)\n and\n ( new\n or old\n ) {\n match all break\n }\n }', HOME, []),
    ('maildir "q" { match ( all and ) break }', HOME, []),
    ('maildir "q" { match ( all break }', HOME, []),
    ('maildir "q" { match all ) break }', HOME, []),
    ('maildir "q" { match all { } }', HOME, []),
    ('maildir "q" { match all {\n match new { match old break }\n} }', HOME, []),
    ('maildir "q" { match all {\n match new { match old\n} } }', HOME, []),
    ('maildir "q" { }', HOME, []),
    ('maildir "q" {\n\n}\n\n', HOME, []),
    ('maildir "q" { match body /a/ and body "x" break }', HOME, []),
    ('maildir "q" { match body ! break }', HOME, []),
    ('maildir "q" { match body # c\n /a/ break }', HOME, []),
    ('maildir "q" { match body /a/lu break }', HOME, []),
    ('maildir "q" { match body /a(/ break }', HOME, []),
    ('maildir "q" { match body\n\n/a(/i\n\nbreak }', HOME, []),
    ('maildir "q" { match header "a"\n/a(/\n\nbreak }', HOME, []),
    ('maildir "q" { match header "${no}"\n/a(/\n\nbreak }', HOME, []),
    ('maildir "q" { match body //  break }', HOME, []),
    ('maildir "q" { match body /\\//  break }', HOME, []),
    ('maildir "q" { match body /a\nb/i  break }', HOME, []),
    ('maildir "q" { match all exec stdin body "x" exec body stdin "y" exec stdin "z" }', HOME, []),
    ('maildir "q" { match all exec body "x" }', HOME, []),
    ('maildir "q" { match all exec\nbody\n{ "x"\n}\n}', HOME, []),
    ('maildir "q" { match all exec stdin\nstdin "x" }', HOME, []),
    ('maildir "q" { match all exec body body "x" }', HOME, []),
    ('maildir "q" { match all exec stdin }', HOME, []),
    ('maildir "q" { match all flag new flag ! new flag !\nnew flag }', HOME, []),
    ('maildir "q" { match all flag ! ! new }', HOME, []),
    ('maildir "q" { match all add-header "a" }', HOME, []),
    ('maildir "q" { match all add-header "a" "b" "c" }', HOME, []),
    ('maildir "q" { match all move "a" move "b" label "c" pass break pass }', HOME, []),
    ('maildir "q" { match all discard discard }', HOME, []),
    ('maildir "q" { match all break discard }', HOME, []),
    ('maildir "q" { match all discard }', HOME, []),
    ('maildir "q" { match all reject }', HOME, []),
    ('maildir "q" { match all attachment { match all exec "x" } reject }', HOME, []),
    ('stdin { match all attachment { match all exec "x" } reject }', HOME, []),
    ('stdin { match all attachment { match all reject } }', HOME, []),
    ('stdin { match all attachment { match all exec "x" exec "y" break } }', HOME, []),
    ('stdin { match all attachment { match all attachment { match all exec "x" } } }', HOME, []),
    ('stdin { match all attachment }', HOME, []),
    ('stdin stdin', HOME, []),
    ('stdin { match all break } }', HOME, []),
    ('stdin { match all break }\x00 garbage', HOME, []),
    ('stdin { match all break \x00 }', HOME, []),
    ('maildir "a\nb" { match all move "c\n\nd" label "e"\n}', HOME, []),
    ('maildir "a" { match all move "" }', HOME, []),
    ('maildir "a" { match all move\n\n"" }', HOME, []),
    ('maildir "a" { match all move "x\n', HOME, []),
    ('maildir "a" { match all label { "x"\n"y" move }', HOME, []),
    ('maildir "a" { match all label { "x" "y" } } maildir "b" { match new break }\nstdin { match old discard }', HOME, []),
    ('maildir "a" { match command { "sh" "-c" "exit ${x}" } or isdirectory "~/${x}" break }\nx = "1"', HOME, []),
    ('x = "1"\nmaildir "a" { match command { "sh" "-c" "exit ${x}" } or isdirectory "~/${x}" break }\n', HOME, []),
    ('and = "x"', HOME, []),
    ('maildir = "x"', HOME, []),
    ('x-y = "x" maildir "${x-y}" { match all break }', HOME, []),
    ('x = "a" = "b"', HOME, []),
    ('x == "a"', HOME, []),
    ('maildir "a" { match all move "4294967296" } 99999999999', HOME, []),
    ('maildir "a" { match all break } 12', HOME, []),
    ('maildir "a" { match 12 break }', HOME, []),
]
CORNERS += [('maildir "q" { match body /a(b)/%s and header "X" /c/%s label "\\1" }' % (f, g), HOME, [])
            for f in PFLAGS + PFLAGS_UNKNOWN for g in ('', 'u', 'li')]

VOCAB = ['maildir', 'stdin', 'match', 'all', 'new', 'old', 'and', 'or', '!', '(', ')', '{', '}', 'attachment', 'body', 'header',
         'date', 'isdirectory', 'command', 'move', 'flag', 'flags', 'label', 'discard', 'break', 'pass', 'reject', 'exec', 'add-header',
         'access', 'modified', 'created', '<', '>', '=', '"s"', '"~/t"', '"${m}"', '"${path}"', '/p/', '/q(/', '/r/il', '7', '99', 'seconds',
         'da', 'm', 'years', 'foo', 'm', '# c\n', '"/dev/stdin"', '4294967295']


def token_soup(rng):
    """Random token sequences biased towards the grammar: mostly short rules with random defects."""
    out = []
    if rng.random() < 0.3:
        out.append('m = "v"')
    out.append(rng.choice(['maildir "d" {', 'stdin {', 'maildir { "a" "b" } {', 'maildir "${m}" {']))
    for _ in range(rng.randrange(1, 4)):
        out.append('match')
        for _ in range(rng.randrange(1, 7)):
            out.append(rng.choice(VOCAB))
    out.append('}')
    seps = [' ', ' ', ' ', '\n', '\n\n', '\t', ' # x\n']
    return ''.join(t + rng.choice(seps) for t in out)


def respace(rng, text):
    """Spread a configuration over more lines: blanks become newlines or comments (also inside strings and patterns)."""
    out = []
    for ch in text:
        if ch == ' ' and rng.random() < 0.25:
            out.append(rng.choice(['\n', '\n\n', ' # c\n', '\n\t']))
        else:
            out.append(ch)
    return ''.join(out)


def conf_requests(rng, tier, texts):
    reqs = []
    for t, home, defs in CORNERS:
        r = ['conf', t.encode('latin-1'), home]
        for k, v in defs:
            r += [k, v]
        reqs.append(tuple(r))
    base = BASE.replace('@HELPER@', '/bin/true').replace(R, '/r')
    pool = [base] + [e(base) for _, e in EDITS if e(base) is not None]
    gcs = []
    n = 250 if tier == 'quick' else 20000
    for _ in range(n):
        g = gen_rules.Gen(rng, depth=rng.choice([0, 1, 2, 3]), rules_max=rng.choice([1, 2, 3, 4]), errors=True)
        g.interp = rng.random() < 0.5
        conf = g.config()
        k = rng.random()
        if k < 0.3:
            conf = 'm = "~/dst"\n' + conf.replace('"~/dst/', '"${m}/')
        elif k < 0.4:
            conf = conf + 'stdin {\n%s}\n' % g.block(1)
        gcs.append(conf)
    pool += gcs
    for t in list(pool):
        pool.append(respace(rng, t))
    for t in pool:
        reqs.append(('conf', t.encode('latin-1'), HOME, b'nope', b'NOPE') if '${nope}' in t and rng.random() < 0.5
                    else ('conf', t.encode('latin-1'), HOME))
    for _ in range(n * 2):
        reqs.append(('conf', token_soup(rng).encode('latin-1'), HOME))
    # byte-level mutants of everything above and the texts of the lexer stage
    src = [r[1] for r in reqs] + [t.encode('latin-1') for t in texts[:400]]
    for _ in range(n * 2):
        t = bytearray(rng.choice(src))
        for _ in range(rng.randrange(1, 3)):
            k = rng.randrange(6)
            i = rng.randrange(len(t) + 1)
            if k == 0 and t:
                del t[min(i, len(t) - 1)]
            elif k == 1:
                t[i:i] = rng.choice([b'"', b'/', b'\\', b'#', b'\n', b'{', b'}', b'!', b'9', b'$', b'${', b' ', b'\x00', b'\xff', b'~', b'=', b'(', b')'])
            elif k == 2 and t:
                t[min(i, len(t) - 1)] = rng.randrange(256)
            elif k == 3:
                t = t[:i]
            elif k == 4 and t:
                j = rng.randrange(len(t) + 1)
                a, b = min(i, j), max(i, j)
                t[i:i] = t[a:b][:200]
            else:
                t[i:i] = rng.choice([b'match ', b'and ', b' or ', b'attachment ', b'date > 99999999 y ', b'\nstdin { match all discard }\n',
                                     b'"' + b'a' * 8200 + b'"', b'x' * 8200])
        reqs.append(('conf', bytes(t), HOME))
    return reqs
# --------------------------------------------------------------------------
# one defect at every rule position of a valid configuration (C14_error_anywhere_rejects_file)
# --------------------------------------------------------------------------

# (class, a rule holding the defect): the classes of the theorem, in an action, in a condition behind `!`, `attachment`, `(`, `and` / `or`
ANYWHERE = [
    ('unknown-macro', 'match all move "${nosuch}"'),
    ('unknown-macro-in-action-list', 'match new label "l" exec stdin { "c" "${nosuch}" "d" } pass'),
    ('unknown-macro-in-condition', 'match ! ( new and header { "To" "${nosuch}" } /x/ ) break'),
    ('path-macro-outside-action', 'match attachment isdirectory "${path}" break'),
    ('unknown-unit', 'match date > 3 foo break'),
    ('ambiguous-unit', 'match old or attachment ( date modified < 2 m ) break'),
    ('keyword-as-unit', 'match date created > 1 match break'),
    ('exec-option-repeated', 'match all label "l" exec stdin body stdin "c"'),
]
STDIN_BLOCK = 'stdin {\n\tmatch all discard\n}\n'
STDIN_PATH_BLOCK = 'maildir { "/r/other" "/dev/stdin" } {\n\tmatch all break\n}\n'


def anywhere_cases(conf):
    """conf: a valid configuration in the layout of gen_rules (one rule per line, `}` of a block on a line of its own).
    -> [(class, text, line of the first diagnostic)]: each defective rule on a line of its own in front of every rule and in front of the
    closing brace of every block - every rule position of every block, nested ones included -, and a block written `stdin` behind a
    block that reads from stdin, at every pair of block positions."""
    lines = conf.split('\n')
    out = []
    for i, ln in enumerate(lines):
        if ln.strip().startswith('match ') or ln.strip() == '}':
            for name, rule in ANYWHERE:
                out.append((name, '\n'.join(lines[:i] + ['\t' + rule] + lines[i:]), i + 1))
    nl = lambda t: t.count('\n')
    for first in (STDIN_BLOCK, STDIN_PATH_BLOCK):
        out.append(('second-stdin-block', conf + first + STDIN_BLOCK, nl(conf + first) + 1))
        out.append(('second-stdin-block', first + conf + STDIN_BLOCK, nl(first + conf) + 1))
        out.append(('second-stdin-block', first + STDIN_BLOCK + conf, nl(first) + 1))
    return out


# --------------------------------------------------------------------------
# configuration families (tools/conffam.py): macro-name relations, integer literals, path-list shapes of maildir blocks
# --------------------------------------------------------------------------

def _recorded(pairs):
    """What the unchanged program does with the shapes the manual does not settle: {path list / body / companion block: verdicts}."""
    out = {}
    for name, verdict in pairs:
        _, lname, form, body, comp = name.split(':')
        k = '%s, %s, %s' % (lname, 'with reject' if body != 'no-reject' else 'without reject', comp)
        out.setdefault(k, set()).add(verdict)
    return {k: '/'.join(sorted(v)) for k, v in sorted(out.items())}


def family_unit_stage(rep, h, henv, dconf, tier, rng):
    """The three families through the real parser (`conf` of h_parse), judged by the manuals' oracle (a deviation is a failing input:
    configuration text, -D options, what is wrong) and compared with `M conf` (a disagreement with the parser model is a broken
    correspondence, reported by dconf.conclude when no failing input explains it)."""
    line = vlib.Differential.line
    mcases = conffam.macro_unit_cases(tier, rng)
    icases = conffam.int_unit_cases(tier)
    scases = conffam.pathlist_shapes('/r')
    ireqs = [conffam.conf_request(c[4]) for c in icases]
    sreqs = [conffam.conf_request(c[1]) for c in scases]
    reqs = list(dict.fromkeys([c[2] for c in mcases] + [c[3] for c in mcases if c[3] is not None] + ireqs + sreqs))
    lines = [line(r) for r in reqs]
    impl = dict(zip(reqs, vlib.run_batch([h], lines, henv)))
    model = dict(zip(reqs, vlib.run_batch([vlib.driver_path()], ['M ' + l for l in lines])))
    dconf.evals += len(reqs)
    for r in reqs:
        if impl[r] != model[r] and not impl[r].startswith('FAULT'):
            dconf.corr_mismatch.append((r, impl[r], model[r], None))
    stat = {'requests': len(reqs), 'model_disagreements': sum(1 for r in reqs if impl[r] != model[r])}
    bad = {'macro-names': [], 'integer-literals': [], 'path-lists': []}
    for c in mcases:
        what = conffam.judge_macro_unit(c, impl[c[2]], impl.get(c[3]))
        if what:
            bad['macro-names'].append({'kind': 'macro-names:' + c[1], 'config': c[5], '-D options': ['%s=%s' % d for d in c[0].dash_d], 'scenario': c[0].describe(),
                                       'expected': c[4], 'what': [what], 'implementation': impl[c[2]][:400], 'model': model[c[2]][:400]})
    for c, r in zip(icases, ireqs):
        what = conffam.judge_int_unit(c, impl[r])
        if what:
            bad['integer-literals'].append({'kind': 'integer-literal', 'config': c[4][:300], 'literal': c[0][:120], 'unit': c[1],
                                            'expected': 'rejected' if c[5] is None else 'age %d seconds' % c[5], 'what': [what],
                                            'implementation': impl[r][:400], 'model': model[r][:400]})
    for c, r in zip(scases, sreqs):
        what = conffam.judge_shape_unit(c, impl[r])
        if what:
            bad['path-lists'].append({'kind': c[0], 'config': c[1], 'expected': c[2], 'what': [what], 'implementation': impl[r][:400], 'model': model[r][:400]})
    for fam, items in bad.items():
        for it in conffam.pick(items):
            rep.finding('unlisted', dict(it, family=fam, level='real parser (harness h_parse, op conf)', deviations_in_this_family=len(items)))
    exp = lambda cases, k: {e: sum(1 for c in cases if c[k] == e) for e in sorted(set(c[k] for c in cases))}
    stat.update({
        'macro_name_cases': len(mcases), 'macro_name_expected': exp(mcases, 4), 'macro_name_groups': ['/'.join(repr(n) if n == '' else n for n in g) for g in conffam.NAME_GROUPS],
        'macro_name_positions': [p[0] for p in conffam.UPOS],
        'integer_cases': len(icases), 'integer_accepted': sum(1 for c in icases if c[5] is not None), 'integer_literals': len(conffam.int_literals(tier)),
        'integer_unit_lexemes': conffam.unit_lexemes(tier),
        'path_list_cases': len(scases), 'path_list_expected': exp(scases, 2),
        'path_list_recorded': _recorded([(c[0], impl[r].split(' ')[0]) for c, r in zip(scases, sreqs) if c[2] == 'either']),
        'deviations': {k: len(v) for k, v in bad.items()},
    })
    return stat


def bytes_unit_stage(rep, h, henv, dconf, tier):
    """tools/confbytes.py through the real parser (`conf` of h_parse): every byte value 0x01..0xff at every kind of position; the verdict
    (accepted / rejected) against the documented one - a deviation is a failing input - and the whole answer against `M conf`."""
    line = vlib.Differential.line
    cs = confbytes.cases(tier, 'unit')
    reqs = [('conf', c[2].replace(b'@R@', b'/r'), HOME) for c in cs]
    lines = [line(r) for r in reqs]
    impl = vlib.run_batch([h], lines, henv)
    model = vlib.run_batch([vlib.driver_path()], ['M ' + l for l in lines])
    dconf.evals += len(reqs)
    bad = []
    for c, r, im, mo in zip(cs, reqs, impl, model):
        if im.startswith('FAULT'):
            rep.finding('sanitizer-fault', {'family': 'configuration-bytes', 'position': c[0], 'byte': '0x%02x' % c[1], 'config': r[1].decode('latin-1'), 'implementation': im})
            continue
        if im.startswith('OK') != c[3]:
            bad.append({'family': 'configuration-bytes', 'position': c[0], 'byte': '0x%02x' % c[1], 'config': r[1].decode('latin-1'),
                        'config_bytes': repr(r[1]), 'expected': 'accepted' if c[3] else 'rejected (a diagnostic)',
                        'what': ['byte 0x%02x %s: the real parser %s the file, the documented verdict is %s' %
                                 (c[1], c[0], 'accepts' if im.startswith('OK') else 'rejects', 'accepted' if c[3] else 'rejected')],
                        'implementation': im[:300], 'model': mo[:300], 'level': 'real parser (harness h_parse, op conf)'})
        elif im != mo:
            dconf.corr_mismatch.append((r, im, mo, None))
    for it in conffam.pick(bad, key=lambda it: it['position']):
        rep.finding('unlisted', dict(it, deviations_in_this_family=len(bad)))
    nul = confbytes.observe_nul()
    nimpl = vlib.run_batch([h], [line(('conf', t.replace(b'@R@', b'/r'), HOME)) for _, t in nul], henv)
    return {'unit_cases': len(cs), 'positions': sorted(set(c[0] for c in cs)), 'unit_expected_accepted': sum(1 for c in cs if c[3]),
            'unit_deviations': len(bad), 'unit_model_disagreements': sum(1 for c, im, mo in zip(cs, impl, model) if im != mo and im.startswith('OK') == c[3]),
            'nul_byte_recorded_not_judged': {name: im.split(' ')[0] + (' ' + im.split(' ')[1] if im.startswith('ERR') else '') for (name, _), im in zip(nul, nimpl)}}


def family_process_cases(tier):
    """(judge function, case) for the process level: the real binary with -n, -d, a real run, with and without `-`."""
    out = [(conffam.judge_macro_process, c) for c in conffam.macro_process_cases(tier)]
    # C15 runs the whole age family at process level; here the part that is about rejection as a whole
    out += [(conffam.judge_int_process, c) for c in conffam.int_process_cases(tier) if tier != 'quick' or c[1] in ('seconds', 'hours')]
    shapes = conffam.pathlist_shapes()
    if tier == 'quick':
        shapes = [s for s in shapes if s[0].endswith(':alone') or s[0].endswith(':stdin-block-after')]
    out += [(conffam.judge_shape_process, c) for c in shapes]
    return out

# --------------------------------------------------------------------------
# The macro context matrix: every kind of macro reference in every string position of the grammar.
#
# mdsort.conf(5): "Macros ... can later be interpolated inside strings", "${macro} where macro is a defined macro", "the following
# macros are available in action: path".  So: a defined macro is valid in every string; ${path} is valid in the strings of actions
# and misplaced everywhere else (macro values, maildir paths, header names, isdirectory, command); an undefined or unterminated
# reference is an error everywhere.  Patterns are not strings: a macro referenced only from a pattern is unused.
# Contexts: default = expanded when the file is read; action = expanded when the file is read, ${path} deferred to action time;
# raw = strings the parser hands on without looking at them (class strings-not-expanded when that shows).
# --------------------------------------------------------------------------

PRE = '\tmatch header "To" /user1@/ move "%s/dst2"\n@X@' % R          # a valid rule in front of the string under test: it moves a message


def _md(rule):
    return 'maildir "%s/src" {\n%s\t%s\n}\n' % (R, PRE, rule)


POSITIONS = [
    # (name, context, configuration with @S@ for the string under test, a valid string for that place)
    ('macro-value', 'default', 'w = "@S@"\n' + _md('match header "${w}" /user/ move "%s/dst"' % R), 'To'),
    ('maildir-path', 'default', 'maildir "@S@" {\n%s\tmatch all move "%s/dst"\n}\n' % (PRE, R), R + '/src'),
    ('maildir-path-block', 'default', 'maildir { "%s/md3" "@S@" } {\n%s\tmatch all move "%s/dst"\n}\n' % (R, PRE, R), R + '/src'),
    ('header-name', 'default', _md('match header "@S@" /user/ move "%s/dst"' % R), 'To'),
    ('header-name-block', 'default', _md('match header { "Cc" "@S@" } /user/ move "%s/dst"' % R), 'To'),
    ('isdirectory', 'default', _md('match isdirectory "@S@" move "%s/dst"' % R), R + '/dst'),
    ('command', 'default', _md('match command "@S@" move "%s/dst"' % R), '@HELPER@'),
    ('command-argument', 'default', _md('match command { "@HELPER@" "@S@" } move "%s/dst"' % R), 'argument'),
    ('move', 'action', _md('match all move "@S@"'), R + '/dst'),
    ('label', 'action', _md('match all label "@S@"'), 'label'),
    ('label-block', 'action', _md('match all label { "one" "@S@" }'), 'label'),
    ('exec', 'action', _md('match all exec "@S@"'), '@HELPER@'),
    ('exec-argument', 'action', _md('match all exec { "@HELPER@" "@S@" }'), 'argument'),
    ('exec-stdin-argument', 'action', _md('match all exec stdin { "@HELPER@" "@S@" }'), 'argument'),
    ('add-header-name', 'default', _md('match all add-header "@S@" "value"'), 'X-Added'),
    ('add-header-value', 'action', _md('match all add-header "X-Added" "@S@"'), 'value'),
    ('flags', 'default', _md('match all flags "@S@"'), 'RS'),
    ('pattern', 'pattern', _md('match header "To" /@S@/ move "%s/dst"' % R), 'user'),
]
KINDS = ['user', 'user-whole', 'user-shared', 'path', 'path-whole', 'unknown', 'unterminated']


def macro_cell(position, kind, helper):
    """(configuration, the same configuration with the value written in place or None, expected verdict or None, class of a deviation)"""
    name, ctx, tmpl, full = position
    tmpl, full = tmpl.replace('@HELPER@', helper), full.replace('@HELPER@', helper)
    shared = '\tmatch header "${m}" /nomatch/ move "%s/dst"\n' % R
    k = len(R) + 1 if full.startswith(R + '/') else 1          # never split the sandbox placeholder
    head, tail = full[:k], full[k:]
    defs, text, extra, ref = {
        'user': ('m = "%s"\n' % tail, head + '${m}', '', ('', full, '')),
        'user-whole': ('m = "%s"\n' % full, '${m}', '', ('', full, '')),
        'user-shared': ('m = "%s"\n' % tail, head + '${m}', shared, ('', full, shared.replace('${m}', tail))),
        'path': ('', head + '${path}', '', None),
        'path-whole': ('', '${path}', '', None),
        'unknown': ('', head + '${nosuch}', '', None),
        'unterminated': ('m = "%s"\n' % tail, head + '${m', '', None),
    }[kind]
    conf = defs + tmpl.replace('@S@', text).replace('@X@', extra)
    refconf = None if ref is None else ref[0] + tmpl.replace('@S@', ref[1]).replace('@X@', ref[2])
    if ctx == 'pattern':
        exp = 'reject' if kind in ('user', 'user-whole') else None
        refconf = None
    elif kind.startswith('user'):
        exp = 'accept'
    elif kind.startswith('path'):
        exp = 'reject' if ctx == 'default' else 'accept'
    else:
        exp = 'reject'
    return conf, refconf, exp, 'strings-not-expanded' if ctx == 'raw' else 'unlisted'


def population():
    t = ws.base_tree(2, 1, extra_dirs=('dst', 'dst2', 'md3'))
    return t


def run_conf(tools, conf, args=(), stdin=None, timeout=10, scen=None):
    """Run the real binary on a populated tree; returns (status, stderr, tree unchanged?, helper ran?).
    scen: a sandbox of `population()` to run in (long families keep one per worker: it is restored only after a run that changed it)."""
    own = scen is None
    if own:
        scen = ws.Spec('c14', conf, tree=population(), stdin=stdin, args=list(args)).build(tools)
    else:
        if getattr(scen, 'dirty', False):
            scen.reset()
        scen.config = conf.replace(R, scen.root)
        with open(os.path.join(scen.root, 'conf'), 'w', encoding='latin-1') as fh:
            fh.write(scen.config)
        scen.args, scen.stdin = list(args), stdin
    try:
        r = scen.run(trace=True, timeout=timeout)
        changed = []
        if r.status != 'timeout':
            a, b = ws.maildir_files(scen.initial), ws.maildir_files(r.final)
            changed = sorted(set(a.items()) ^ set(b.items()))
        scen.dirty = r.status == 'timeout' or {k: v for k, v in r.final.items() if k != 'conf'} != {k: v for k, v in scen.initial.items() if k != 'conf'}
        opened = [c['raw'] for c in r.calls() if c['name'] in ('opendir', 'openat', 'fork', 'mkdtemp')]
        return r.status, r.err.decode('latin-1').replace(scen.root, R), changed, [h.replace(scen.root, R) for h in r.helper], opened
    finally:
        if own:
            scen.cleanup()


def nul_witness(rep, tools):
    """Known finding F33 (class `nul-ends-config`): a NUL byte at a token position is token 0 = end of input for the generated
    parser, so everything after it - valid or not - is never read: a file with an error AFTER the NUL passes -n and its first
    part is carried out.  Exactly that outcome (exit 0, no diagnostic, the rule before the NUL applied) is the listed finding; a
    diagnostic and a non-zero status is the repaired behaviour; anything else is a violation."""
    head = 'maildir "%s/src" {\n\tmatch all move "%s/dst"\n}\n' % (R, R)
    cases = [('error-after-nul', head + '\0\nmaildir "%s/src" {\n\tmatch all\n}\ngarbage\n' % R),
             ('nul-between-blocks', head + '\0' + 'maildir "%s/src2" {\n\tmatch all move "%s/dst"\n}\n' % (R, R))]
    stat = {'runs': 0, 'silently_accepted': 0, 'rejected': 0}
    for name, conf in cases:
        st, err, changed, helper, opened = run_conf(tools, conf, args=['-n'])
        stat['runs'] += 1
        payload = {'stage': 'nul-witness', 'scenario': name, 'config': conf.replace('\0', '<NUL>'), 'exit_status': st, 'stderr': err[-300:],
                   'what': 'a NUL byte at a token position: -n gives exit status %r, stderr %r' % (st, err[-120:])}
        if st == 0 and not err.strip():
            stat['silently_accepted'] += 1
            if name == 'error-after-nul':
                rep.finding('nul-ends-config', payload)
        elif st != 0 and re.search(r'conf:\d+:', err):
            stat['rejected'] += 1
        else:
            rep.finding('unlisted', payload)
    return stat


def pooled(tools, items, fn):
    """fn(item, scen) for every item, each worker thread with ONE sandbox of its own (see run_conf)."""
    nw = max(1, min(vlib.NCPU, len(items)))
    size = (len(items) + nw - 1) // nw

    def work(chunk):
        scen = ws.Spec('c14', '', tree=population()).build(tools)
        try:
            return [fn(it, scen) for it in chunk]
        finally:
            scen.cleanup()
    with cf.ThreadPoolExecutor(nw) as ex:
        return [r for part in ex.map(work, [items[i:i + size] for i in range(0, len(items), size)]) for r in part]


def grammar_configs(rng, n):
    out = []
    for _ in range(n):
        g = gen_rules.Gen(rng, depth=rng.choice([0, 1, 2, 3]), rules_max=rng.choice([1, 2, 3, 4]), errors=False)
        g.interp = False
        conf = g.config()
        conf = conf.replace('~/md', R + '/src').replace('~/dst', R + '/dst').replace('~/yes', R + '/dst').replace('~/no', R + '/nothere')
        if rng.random() < 0.5:
            conf = '# generated\nm = "%s/dst"\n' % R + conf.replace('"%s/dst/a"' % R, '"${m}/a"')
            if '${m}' not in conf:
                conf = conf.replace('m = "%s/dst"\n' % R, '')
        if rng.random() < 0.3:
            conf = conf.replace('\n\tmatch', '  # comment\n\tmatch', 1)
        out.append(conf)
    return out


# --------------------------------------------------------------------------
# the run from the configuration TEXT: parser model and world model tied to each other
# --------------------------------------------------------------------------

def text_specs():
    """World scenarios followed twice along the trace of the real run: with the trees of the real parser (`M conform`,
    harness `ast`) and from the text of the file through the parser model (`M conformtext`, Model.mainText).
    -> [(spec, -D definitions, pattern list or None when only the text path exists)]"""
    out = [(s, [], s.pats) for s in ws.corpus()]
    base = BASE.replace('@HELPER@', ws.HELPER)
    bpats = [('user', ''), ('x(y)?', 'i'), ('pdf', '')]
    out.append((ws.Spec('reference', base, bpats, tree=population()), [], bpats))
    out.append((ws.Spec('reference-stdin', base, bpats, tree=population(), stdin=ws.msg(5), args=['-'], kind='stdin'), [], bpats))
    for name, e in EDITS:
        bad = e(base)
        if bad is None:
            continue
        out.append((ws.Spec('edit:' + name, bad, [], tree=population()), [], []))
        out.append((ws.Spec('edit-stdin:' + name, bad, [], tree=population(), stdin=ws.msg(5), args=['-'], kind='stdin'), [], []))
    mv = 'maildir "%s/src" {\n\tmatch all move "${dir}"\n}\n' % R
    out.append((ws.Spec('macro-file', 'dir = "%s/dst"\n' % R + mv), [], []))
    out.append((ws.Spec('macro-D-overrides-file', 'dir = "%s/dst"\n' % R + mv), [(b'dir', b'@R@/dst2')], None))
    out.append((ws.Spec('macro-D-only', mv), [(b'dir', b'@R@/dst2')], None))
    out.append((ws.Spec('macro-D-unused', 'maildir "%s/src" {\n\tmatch all flag !new\n}\n' % R), [(b'unused', b'x')], None))
    out.append((ws.Spec('macro-D-path', mv), [(b'path', b'x')], None))
    out.append((ws.Spec('macro-D-path-stdin', 'stdin {\n\tmatch all move "%s/dst"\n}\n' % R, tree=population(), stdin=ws.msg(5), args=['-'],
                        kind='stdin'), [(b'path', b'x')], None))
    out.append((ws.Spec('macro-D-twice', mv), [(b'dir', b'@R@/dst'), (b'dir', b'@R@/dst2')], None))
    out.append((ws.Spec('macro-file-twice-under-D', 'dir = "a"\ndir = "b"\n' + mv), [(b'dir', b'@R@/dst2')], None))
    out.append((ws.Spec('macro-path-deferred', 'maildir "%s/src" {\n\tmatch all label "${path}"\n}\n' % R), [], []))
    out.append((ws.Spec('macro-path-from-two-values', 'a = "$"\nb = "{path}"\nmaildir "%s/src" {\n\tmatch all label "${a}${b}"\n}\n' % R), [], []))
    out.append((ws.Spec('macro-value-not-rescanned', 'b = "%s/dst"\nmaildir "%s/src" {\n\tmatch all move "${b}" label "${a}"\n}\n' % (R, R)),
                [(b'a', b'${b}')], None))
    out.append((ws.Spec('macro-in-add-header-and-flags', 'f = "F"\nv = "val"\nmaildir "%s/src" {\n\tmatch all add-header "X-${v}" "${v}" flags "${f}"\n}\n' % R), [], []))
    t = {}
    t.update(proc.maildir_tree('home/md', {('new', '1.host'): ws.msg(1), ('cur', '2.host:2,S'): ws.msg(2)}))
    t.update(proc.maildir_tree('home/dst', {}))
    out.append((ws.Spec('tilde', 'maildir "~/md" {\n\tmatch all move "~/dst"\n}\n', tree=t), [], []))
    return out


def text_one(tools, W, item):
    spec, defs, pats = item
    scen = spec.build(tools)
    try:
        rdefs = [(k, v.replace(b'@R@', scen.root.encode())) for k, v in defs]
        scen.args = [x for k, v in rdefs for x in ('-D', (k + b'=' + v).decode('latin-1'))] + list(spec.args)
        r = scen.run()
        stdin = spec.kind == 'stdin'
        rq_text, _, _ = W.request_text(scen, r, rdefs, stdin=stdin)
        reqs = [rq_text]
        if pats is not None:
            reqs.append(W.request(scen, pats, r, stdin=stdin)[0])
        ans = W.verdict(reqs)
        kind, detail = world.compare(scen, r, ans[0])
        return {'scenario': spec.name, 'status': r.status, 'text': ans[0][:400].replace(scen.root, R), 'ast': (ans[1][:400].replace(scen.root, R) if len(ans) > 1 else None),
                'same': len(ans) == 1 or ans[0] == ans[1], 'conform': kind if kind == 'ok' else kind + ': ' + detail[:300].replace(scen.root, R),
                'ncalls': len(r.calls()), 'config': scen.config.replace(scen.root, R)[:600], 'defs': [(k.decode('latin-1'), v.decode('latin-1')) for k, v in defs]}
    finally:
        scen.cleanup()


def lex_records(h, henv, confs):
    reqs = ['lextrace %s %s' % (vlib.hexs(c if isinstance(c, bytes) else c.encode('latin-1')), vlib.hexs(b'/home/u')) for c in confs]
    return vlib.run_batch([h], reqs, henv)


def grammar_evidence(src):
    """What the grammar translator read from the parse.y under check (evidence only; the obligation is the Lean build)."""
    import hashlib
    import gen_grammar
    try:
        g = gen_grammar.read_grammar(src)
    except gen_grammar.Fail as e:
        return {'error': str(e)}
    lean = os.path.join(vlib.LEAN, 'Mdsort', 'Gen', 'Grammar.lean')
    return {
        'source': 'parse.y of the tree under check through `bison --xml` (tools/gen_grammar.py)',
        'start': g['start'],
        'productions': len(g['rules']),
        'error_productions': len([1 for _, r in g['rules'] if 'error' in r]),
        'terminals': len(g['terminals']), 'unused_terminals': g['unused'], 'nonterminals': len(g['nonterminals']),
        'precedence': [[a, ts] for a, ts in g['prec']],
        'table_sha256': gen_grammar.table_hash(g),
        'lean_file_sha256': hashlib.sha256(open(lean, 'rb').read()).hexdigest() if os.path.exists(lean) else None,
    }


def run(rep):
    rng = random.Random(rep.seed)
    sc = vlib.Scratch()
    tools = proc.Tools(sc)
    h = sc.unit_harness('h_parse', ['parse.c'])
    henv = dict(vlib.ASAN_ENV, HARNESS_TMP=sc.dir)
    vlib.lean_gate(rep, 'C14', sc, [
        'the parser model (Model/Conf.lean) follows the LALR automaton bison generates from parse.y only up to the first diagnostic '
        '(error recovery is not modelled) and without its stack limit of 10000 states; it is compared with the real parser on '
        'accept/reject, first diagnostic line, trees and yylex calls (this run); regcomp is the platform library on both sides',
        'the grammar table Gen/Grammar.lean (C14_printed_in_yacc_grammar, C14_model_parser_uses_grammar) is what `bison --xml` reports for '
        'the parse.y of this run, translated by tools/gen_grammar.py: bison\'s reading of the grammar, the format of its report and the '
        'translator are trusted; the LALR tables bison builds from the same productions are not examined',
    ])
    rep.coverage['yacc_grammar'] = grammar_evidence(sc.src)
    # 1. lexer correspondence on grammar configs, their invalid edits, byte mutants and random bytes
    n = 300 if rep.tier == 'quick' else 20000
    base = BASE.replace('@HELPER@', '/bin/true')
    texts = [base] + [e(base) for _, e in EDITS if e(base) is not None]
    texts += [c.replace('@HELPER@', '/bin/true') for _, c, _ in pattern_flag_cases()]
    texts += [c for c in grammar_configs(rng, n)]
    for _ in range(n):
        t = bytearray(rng.choice(texts[:60]).encode('latin-1'))
        for _ in range(rng.randrange(1, 4)):
            k = rng.randrange(5)
            i = rng.randrange(len(t) + 1)
            if k == 0 and t:
                del t[min(i, len(t) - 1)]
            elif k == 1:
                t[i:i] = rng.choice([b'"', b'/', b'\\', b'#', b'\n', b'{', b'}', b'!', b'9', b'$', b'{', b' ', b'\x00', b'\xff', b'x' * 9000, b'-'])
            elif k == 2 and t:
                t[min(i, len(t) - 1)] = rng.randrange(256)
            elif k == 3:
                t = t[:i]
            else:
                t[i:i] = rng.choice([b'match ', b'and ', b'date > 99999999999 y ', b'"' + b'a' * 8200 + b'"', b'/' + b'b' * 8195 + b'/'])
        texts.append(bytes(t).decode('latin-1'))
    for _ in range(n // 3):
        texts.append(bytes(rng.randrange(256) for _ in range(rng.randrange(0, 60))).decode('latin-1'))
    # the integer-literal family at token level too (value, consumed bytes and diagnostics of every INT / unit token)
    ilit = conffam.int_unit_cases(rep.tier)
    texts += [c[4] for c in ilit[::max(1, len(ilit) // (400 if rep.tier == 'quick' else 20000))]]
    recs = lex_records(h, henv, texts)
    dreq, idx = [], []
    nfault = nolex = 0
    for t, r in zip(texts, recs):
        if r.startswith('FAULT'):
            nfault += 1
            rep.finding('sanitizer-fault', {'config': t[:2000], 'implementation': r})
            continue
        m = re.match(r'^T (.*) E (\d+)$', r, re.S)
        if not m:
            continue
        toks = [x for x in m.group(1).split(';') if x.strip()]
        ins, outs = [], []
        for x in toks:
            a, b = x.split(' > ')
            ins.append(a.strip())
            outs.append(b.strip())
        if not ins:
            continue
        if ins[0].startswith('-1 '):
            # the harness was built without the lexer's own variables (vlib.DEGRADED): no offsets and modes to start the Lean lexer from;
            # the token sequence still counts the yylex calls, the parser correspondence below (op conf) is unaffected
            nolex += 1
            continue
        dreq.append('M lex %s %s' % (vlib.hexs(t.encode('latin-1')), vlib.hexs('\n'.join(ins).encode())))
        idx.append((t, outs, int(m.group(2))))
    mo = vlib.run_batch([vlib.driver_path()], dreq)
    corr_bad = []
    ntok = 0
    for (t, outs, nerr), m in zip(idx, mo):
        got = m.split(';')
        for a, b in zip(outs, got):
            ntok += 1
            # after a lexical error the value of an INT token is unspecified
            if a.startswith('scalar ') and b.startswith('scalar ?') and a.split(' ')[2:] == b.split(' ')[2:]:
                continue
            if a != b and not (a.startswith('int ') and b.startswith('int ') and a.split(' ')[2:] == b.split(' ')[2:] and a.split(' ')[3] != '0'):
                corr_bad.append({'config': t[:1500], 'implementation': a, 'model': b})
                break
    # 1b. parser correspondence: accept/reject, line of the first diagnostic, every block's tree, number of yylex calls
    creqs = conf_requests(rng, rep.tier, texts)
    dconf = vlib.Differential(rep, [h], env=henv, spec_ops=set(), name='h_parse')
    cimpl, cmodel, _ = dconf.run(creqs, shrink=False)
    conf_ok = sum(1 for x in cimpl if x.startswith('OK'))
    conf_err = sum(1 for x in cimpl if x.startswith('ERR'))
    conf_lines = len(set(x for x in cimpl if x.startswith('ERR')))
    conf_nodes = sum(len(re.findall(r' (?:block|and|or|neg|match|attachment|attblock) ', x)) for x in cimpl if x.startswith('OK'))
    # 1b'. configuration families at the level of the real parser: macro-name relations, integer literals, path-list shapes
    fam_stat = family_unit_stage(rep, h, henv, dconf, rep.tier, rng)
    # 1b''. every byte value at every kind of position of the file (tools/confbytes.py), real parser
    byte_stat = bytes_unit_stage(rep, h, henv, dconf, rep.tier)
    # 1c. the written form (Spec.printBlocks) of every accepted configuration that is in Spec.ConfOK goes through both parsers
    # again: the real parser must accept it and build the same trees (all nodes on line 1: C14_accepts_grammar_partial)
    okreqs = [r_ for r_, im_ in zip(creqs, cimpl) if im_.startswith('OK')]
    pout = vlib.run_batch([vlib.driver_path()], ['M confprint ' + ' '.join(vlib.hexs(a) for a in r_[1:]) for r_ in okreqs])
    preqs = [('conf', vlib.unhex(o[2:]), r_[2]) for r_, o in zip(okreqs, pout) if o.startswith('P ')]
    pimpl, pmodel, _ = dconf.run(preqs, shrink=False)
    printed_bad = [(r_, im_) for r_, im_ in zip(preqs, pimpl) if not im_.startswith('OK') or re.search(r' (?:block|and|or|neg|match|attachment|attblock|all|new|old|body|header|date|stat|command|move|flag|flags|discard|break|label|pass|reject|exec|addheader) (?!1 )\d+', im_)]
    for r_, im_ in printed_bad[:5]:
        rep.finding('unlisted', {'kind': 'written form not read back on line 1', 'config': r_[1][:1500].decode('latin-1'), 'implementation': im_[:600]})
    # 1c'. one defect at every rule position (C14_error_anywhere_rejects_file): valid generated configurations, each defect of the three
    # classes written at every rule position of every block: both parsers must report the first diagnostic on the line of the defect
    aw_confs = [c.replace(R, '/r') for c in grammar_configs(rng, 25 if rep.tier == 'quick' else 1500)]
    aw_ok = [c for c, im_ in zip(aw_confs, dconf.run([('conf', c.encode('latin-1'), HOME) for c in aw_confs], shrink=False)[0]) if im_.startswith('OK')]
    aw_cases = [(c, k) for c in aw_ok for k in anywhere_cases(c)]
    aw_impl, aw_model, _ = dconf.run([('conf', k[1].encode('latin-1'), HOME) for _, k in aw_cases], shrink=False)
    aw_bad = [(c, k, im_) for (c, k), im_ in zip(aw_cases, aw_impl) if im_ != 'ERR %d' % k[2]]
    for c, k, im_ in aw_bad[:5]:
        rep.finding('unlisted', {'kind': 'defect at a rule position: ' + k[0], 'config': k[1][:1500], 'valid configuration it was written into': c[:1500],
                                 'expected': 'first diagnostic on line %d' % k[2], 'implementation': im_[:300], 'deviations_in_this_family': len(aw_bad)})
    for r_, im_, mo_ in zip(creqs, cimpl, cmodel):
        if mo_ in ('FUEL', 'BADOP', 'BADHEX') or mo_.startswith('FAULT'):
            dconf.corr_mismatch.append((r_, im_, mo_, None)) if im_ == mo_ else None
    # 2. acceptance: grammar-generated configurations are accepted (-n), whatever their rule structure
    acc = [base] + grammar_configs(rng, 60 if rep.tier == 'quick' else 3000)
    rej = [(name, e(BASE)) for name, e in EDITS if e(BASE) is not None]

    def accept(conf):
        conf = conf.replace('@HELPER@', tools.helper)
        st, err, changed, helper, opened = run_conf(tools, conf, args=['-n'])
        probs = []
        try:
            confshape.expected_shape(conf.replace(R, '/x'))
            ok_ref = True
        except confshape.ShapeError as ex:
            ok_ref = False
        if st != 0 and ok_ref:
            probs.append('a configuration of the documented grammar is rejected: %s' % err[-300:])
        if st == 'timeout':
            probs.append('mdsort -n did not terminate within 10 s')
        return {'kind': 'accept', 'config': conf[:1500], 'status': st, 'problems': probs}

    def reject(item, modes=(([], None), (['-'], ws.msg(5))), scen=None):
        name, conf = item
        conf = conf.replace('@HELPER@', tools.helper)
        probs = []
        for args, stdin in modes:
            st, err, changed, helper, opened = run_conf(tools, conf, args=args, stdin=stdin, scen=scen)
            if st == 'timeout':
                probs.append('did not terminate')
                continue
            want = 75 if args else 1
            if st != want:
                probs.append('%s: exit status %r, expected %d (stderr %r)' % (name, st, want, err[-200:]))
            if not re.search(r'^\S*conf:\d+: \S', err, re.M):
                probs.append('%s: no "file:line: message" diagnostic (stderr %r)' % (name, err[-200:]))
            if changed:
                probs.append('%s: files changed although the configuration is invalid: %s' % (name, [c[0] for c in changed][:3]))
            if helper:
                probs.append('%s: a command was run although the configuration is invalid' % name)
            if opened:
                probs.append('%s: a maildir or message was opened although the configuration is invalid: %s' % (name, opened[0][:100]))
        return {'kind': 'reject:' + name, 'config': conf[:1500], 'problems': probs}

    def cell(item):
        """One cell of the macro context matrix, judged by what the manual says about that combination."""
        position, kind = item
        conf, refconf, exp, cls = macro_cell(position, kind, tools.helper)
        name = 'macro:%s:%s' % (position[0], kind)
        if exp == 'reject':
            r = reject((name, conf))
            return dict(r, kind='reject:' + name, cls=cls, expected=exp, verdict='rejected' if not r['problems'] else 'NOT rejected as a whole')
        st, err, changed, helper, opened = run_conf(tools, conf, args=['-n'])
        if exp is None:
            # not documented either way: it must still be one or the other as a whole
            if st != 0:
                r = reject((name, conf))
                return dict(r, kind='whole:' + name, cls=cls, expected='either', verdict='rejected')
            return {'kind': 'whole:' + name, 'config': conf[:1500], 'problems': [], 'cls': cls, 'expected': 'either', 'verdict': 'accepted'}
        probs = []
        if st != 0 or err.strip():
            probs.append('%s: a configuration the manual documents as valid is not accepted by -n: exit status %r, stderr %r' % (name, st, err[-200:]))
        st2, err2, changed2, helper2, opened2 = run_conf(tools, conf)
        if 'macro' in err2:
            probs.append('%s: accepted when read, but the run stumbles over the macro (exit status %r, %d maildir files changed by then): %r' %
                         (name, st2, len(changed2), err2[-200:]))
        if refconf is not None and not probs:
            st3, err3, changed3, helper3, opened3 = run_conf(tools, refconf)
            if (st2, changed2, helper2) != (st3, changed3, helper3):
                probs.append('%s: the run differs from the run of the same file with the value written in place of the macro: exit status %r / %r, '
                             'maildir differences %d / %d, commands run %d / %d' % (name, st2, st3, len(changed2), len(changed3), len(helper2), len(helper3)))
        return {'kind': 'accept:' + name, 'config': conf[:1500], 'problems': probs, 'cls': cls, 'expected': exp, 'verdict': 'accepted' if not probs else 'NOT accepted'}

    def flagcase(item):
        name, conf, exp = item
        if exp == 'reject':
            r = reject((name, conf))
            return dict(r, kind='reject:' + name)
        st, err, changed, helper, opened = run_conf(tools, conf.replace('@HELPER@', tools.helper), args=['-n'])
        probs = []
        if st != 0 or err.strip():
            probs.append('%s: a valid combination of pattern flags is not accepted by -n: exit status %r, stderr %r' % (name, st, err[-200:]))
        return {'kind': 'accept:' + name, 'config': conf[:1500], 'problems': probs}

    def bytecase(c, scen):
        """One case of the configuration-bytes family on the real binary over a populated maildir."""
        name = 'byte 0x%02x %s' % (c[1], c[0])
        conf = c[2].decode('latin-1')
        if not c[3]:
            # (the maildir run; every fourth value also as a delivery from standard input)
            r = reject((name, conf), modes=(([], None), (['-'], ws.msg(5))) if c[1] % 4 == 1 else (([], None),), scen=scen)
            return dict(r, kind='bytes:' + c[0], byte=c[1], expected='rejected')
        st, err, changed, helper, opened = run_conf(tools, conf, args=['-n'], scen=scen)
        probs = []
        if st != 0 or err.strip():
            probs.append('%s: the file is valid (the byte is white space, starts a comment or is data of a comment / string / pattern) but -n gives exit '
                         'status %r, stderr %r' % (name, st, err[-200:]))
        return {'kind': 'bytes:' + c[0], 'byte': c[1], 'config': conf[:1500], 'problems': probs, 'expected': 'accepted'}

    def total(text):
        st, err, changed, helper, opened = run_conf(tools, text, args=['-n'], timeout=10)
        probs = []
        if st == 'timeout':
            probs.append('mdsort -n did not terminate within 10 s')
        elif st not in (0, 1):
            probs.append('abnormal termination: %r' % (st,))
        return {'kind': 'total', 'config': text[:1500], 'status': st, 'problems': probs}

    tot = [t for t in texts[len(EDITS) + 1 + n:]][: (150 if rep.tier == 'quick' else 20000)]
    tot += ['# only a comment', 'maildir "%s/src" {\n\tmatch all flag new\n}\n# trailing comment without newline' % R, '#', '"', '/', 'x', 'x =', 'maildir']
    cells = [(p, k) for p in POSITIONS for k in KINDS]
    fam = family_process_cases(rep.tier)
    bcases = confbytes.cases(rep.tier, 'process')
    if rep.tier == 'quick':
        # the process-level families cost ~70 ms of sandbox set-up each (serialised by the interpreter lock): the quick tier runs
        # every third case, the third chosen by the seed (three consecutive seeds cover the families completely; thorough runs all)
        fam = fam[rep.seed % 3::3]
        bcases = bcases[rep.seed % 3::3]
    with cf.ThreadPoolExecutor(vlib.NCPU) as ex:
        matrix = list(ex.map(cell, cells))
        famres = list(ex.map(lambda jc: jc[0](tools, jc[1], rep.tier), fam))
        results = list(ex.map(accept, acc)) + list(ex.map(reject, rej)) + list(ex.map(total, tot)) + matrix
    bres = pooled(tools, bcases, bytecase)
    nfam = {}
    for r in famres:
        if r['problems']:
            nfam.setdefault(r['kind'].split(':')[1], []).append(r)
    for k, items in nfam.items():
        for r in conffam.pick(items, key=lambda it: re.sub(r'^.*?\]: |^.*?: ', '', it['problems'][0])[:30]):
            rep.finding('unlisted', {'kind': r['kind'], 'config': r['config'], 'arguments': r.get('arguments', []), 'expected': r['expected'],
                                     'what': r['problems'][:4], 'level': 'real binary (mdsort under the shim)', 'deviations_in_this_family': len(items)})
    nfam = {k: len(v) for k, v in nfam.items()}
    bbad = [r for r in bres if r['problems']]
    for r in conffam.pick(bbad, key=lambda it: it['kind']):
        rep.finding('unlisted', {'family': 'configuration-bytes', 'position': r['kind'].split(':', 1)[1], 'byte': '0x%02x' % r['byte'], 'config': r['config'],
                                 'config_bytes': repr(r['config'].encode('latin-1')), 'expected': r['expected'], 'what': r['problems'][:4],
                                 'level': 'real binary (mdsort under the shim, populated maildir)', 'deviations_in_this_family': len(bbad)})
    byte_stat.update({'process_cases': len(bres), 'process_expected_accepted': sum(1 for r in bres if r['expected'] == 'accepted'), 'process_deviations': len(bbad)})
    for r in results:
        if r['problems']:
            rep.finding(r.get('cls', 'unlisted'), {'kind': r['kind'], 'config': r['config'], 'what': r['problems'][:4]})
    # 2b. pattern flags (package ce13): every combination of i, l, u and letters that are no flags, on the real binary
    fcases = pattern_flag_cases()
    with cf.ThreadPoolExecutor(vlib.NCPU) as ex:
        fres = list(ex.map(flagcase, fcases))
    for r in fres:
        if r['problems']:
            rep.finding('unlisted', {'kind': r['kind'], 'config': r['config'], 'what': r['problems'][:4]})
    rep.coverage['pattern_flag_family'] = {
        'cases': len(fcases), 'expected_rejected': len([c for c in fcases if c[2] == 'reject']), 'deviations': [r['kind'] for r in fres if r['problems']],
        'rule': 'every string of <= 3 letters of i, l, u and 10 letters that are no flags after a body and after a header pattern of the reference '
                'configuration: l together with u (any order, with i, repeated) and unknown letters are rejected as a whole (exit 1 / 75, file:line '
                'diagnostic, nothing opened or changed), everything else is accepted silently by -n; the same strings go through the lexer and '
                'parser correspondence'}
    # 3. the run from the configuration text: the same real run followed with the real parser's trees and with the parser model's
    W = world.WorldCheck(sc, tools)
    titems = text_specs()
    with cf.ThreadPoolExecutor(vlib.NCPU) as ex:
        tres = list(ex.map(lambda it: text_one(tools, W, it), titems))
    text_differs = [t for t in tres if not t['same']]
    text_bad = [t for t in tres if t['conform'] != 'ok' and not t['scenario'].startswith('reference')]
    if text_differs and not rep.violations:
        rep.violation({'obligation': 'Model.mainText (configuration text through the parser model) and Model.mainP on the trees of the real '
                                     'parser give different verdicts on the same real run', 'disagreements': len(text_differs),
                       'examples': text_differs[:6]}, False)
    if text_bad and not rep.violations:
        rep.violation({'obligation': 'correspondence: the real run does not follow Model.mainText (the program from the configuration text)',
                       'disagreements': len(text_bad), 'examples': text_bad[:6]}, False)
    if corr_bad and not rep.violations:
        rep.violation({'obligation': 'correspondence yylex (parse.y) <-> Model/Lex.lean, token by token under the real parser', 'disagreements': len(corr_bad),
                       'examples': corr_bad[:6]}, False)
    dconf.conclude('config_parse (parse.y, bison) <-> Model/Conf.lean parseConfig: accept/reject, first diagnostic line, trees, yylex calls')
    rep.coverage['command_line'] = cmdline.stage(rep, sc, tools, W)      # argument vectors and environments: refused => exit 1 and no call (tools/cmdline.py)
    rep.coverage['nul_ends_configuration'] = nul_witness(rep, tools)      # F33
    vlib.lean_conclude(rep)
    rep.coverage.update({
        'evaluations': len(texts) + len(results),
        'distinct_nontrivial': ntok,
        'rule': '%d texts (a reference configuration, %d invalidating edits of it, %d grammar-generated configurations, byte-level mutants incl. '
                'over-long lexemes, random bytes) lexed by the real yylex as driven by the real LALR parser and by the Lean lexer from the same '
                'offsets and modes (token, value, consumed bytes, diagnostics); %d grammar-generated configurations must be accepted by mdsort '
                '-n; each of the %d invalidating edits must give exit 1 (75 with "-"), a file:line diagnostic, and leave a populated maildir '
                'untouched with no maildir opened and no command run; %d texts for termination (10 s limit); non-trivial = tokens compared'
                % (len(texts), len(rej), n, len(acc), len(rej), len(tot)),
        'samples': [{'config': t[:200], 'tokens': o[:4]} for t, o, e in idx[:2]],
        'tokens_compared': ntok,
        'error_classes': [name for name, _ in rej],
        'macro_context_matrix': {
            'rule': 'every kind of macro reference (defined macro inside / as the whole string / also used elsewhere, ${path} inside / whole, undefined, '
                    'unterminated) in every string position of the grammar (macro value, maildir path single and in a list, header name single and in a '
                    'list, isdirectory, command and its arguments, move, label single and list, exec command / argument / with stdin, add-header name and '
                    'value, flags; and a pattern) behind a valid rule that moves a message; expected verdict from mdsort.conf(5): defined macros are '
                    'valid in every string, ${path} in actions only, undefined/unterminated nowhere, a macro used only in a pattern is unused; reject '
                    '= exit 1 (75 with "-"), file:line diagnostic, populated maildir untouched, nothing opened, no command run; accept = -n exit 0 '
                    'silently, the run never complains about a macro and (defined macros) equals the run of the file with the value written in place',
            'cells': len(matrix),
            'expected': {e: sum(1 for m in matrix if m['expected'] == e) for e in ('accept', 'reject', 'either')},
            'deviations': {m['kind']: m['problems'][0][:160] for m in matrix if m['problems']},
            'table': {m['kind'].split(':', 1)[1]: m['verdict'] for m in matrix},
        },
        'configuration_families': dict(fam_stat, **{
            'rule': 'tools/conffam.py. (1) macro-name relations: groups of names related by prefix / extension / case, keywords, time units, the '
                    'empty name; every non-empty subset defined, in every order, split between -D and the file in several ways; all used, or one '
                    'more reference to a name of the group that is NOT defined (or ${}), redefinitions, -D overrides, unused, definitions after '
                    'use, -D twice; in every string position of the grammar.  Oracle (manuals): a reference resolves iff a macro of exactly that '
                    'name is defined before it; accepted files build the trees of the same file with the value of exactly that macro written in '
                    'place.  (2) integer literals around 2^31, 2^32, 2^63, 2^64, k*2^64 + a valid age, 2^96, 2^128, 10^19, 10^20, 38 nines, 10^100, '
                    'per-unit bounds, leading zeros x every unit abbreviation: accepted iff N x unit <= UINT32_MAX, age exactly N x unit; an integer '
                    'anywhere else is a syntax error.  (3) path lists of maildir blocks: empty, one, several, duplicates, "/dev/stdin" in every '
                    'position, x bodies without / with reject (top level, after a condition, later rule, nested) x a stdin or maildir block before / '
                    'after: never a crash, reject in rules that apply to a real maildir rejects the file.  Every case also goes through M conf.',
            'process_cases': len(famres), 'process_kinds': {k: sum(1 for r in famres if r['kind'].split(':')[1] == k) for k in sorted(set(r['kind'].split(':')[1] for r in famres))},
            'process_deviations': nfam,
            'process_path_lists_recorded': _recorded([(r['kind'].split(':', 1)[1], 'accepted' if r.get('accepted') else 'rejected') for r in famres if r['kind'].startswith('either:')]),
        }),
        'configuration_bytes': dict(byte_stat, rule=confbytes.__doc__.split('\n\n')[1].replace('\n', ' ')),
        'lexer_records_without_offsets': nolex,
        'defect_at_every_rule_position': {
            'rule': 'C14_error_anywhere_rejects_file on the real parser: %d valid grammar-generated configurations (nested blocks, attachment '
                    'blocks, macro definitions, comments); each of %d defective rules (unknown macro in an action, in a list of an exec action, '
                    'in a header name inside ! ( and ); ${path} in isdirectory under attachment; unknown unit, ambiguous unit, keyword as unit, '
                    'also under or / attachment / ( ); a repeated exec option) written at every rule position of every block - in front of every rule and of every '
                    'closing brace -, and a block written stdin behind a stdin block or a maildir block with the path /dev/stdin at every pair '
                    'of positions: config_parse and Model.parseConfig must both report the first diagnostic on the line of the defect'
                    % (len(aw_ok), len(ANYWHERE)),
            'cases': len(aw_cases), 'classes': {n: sum(1 for _, k in aw_cases if k[0] == n) for n in sorted(set(k[0] for _, k in aw_cases))},
            'deviations': len(aw_bad), 'model_disagreements': sum(1 for a, b in zip(aw_impl, aw_model) if a != b),
        },
        'correspondence_mismatches': len(corr_bad),
        'parser_requests': len(creqs), 'parser_accepted': conf_ok, 'parser_rejected': conf_err,
        'parser_distinct_diagnostic_lines': conf_lines, 'parser_inner_nodes_compared': conf_nodes,
        'parser_mismatches': len(dconf.corr_mismatch),
        'printed_configs_read_back': len(preqs), 'printed_configs_bad': len(printed_bad),
        'text_runs': len(tres), 'text_runs_both_ways': len([t for t in tres if t['ast'] is not None]),
        'text_runs_with_D': len([t for t in tres if t['defs']]), 'text_runs_rejected': len([t for t in tres if t['status'] in (1, 75) and t['ncalls'] <= 2]),
        'text_vs_ast_differences': len(text_differs), 'text_not_conforming': len(text_bad),
        'text_rule': 'world scenarios (the C01 corpus, the reference configuration, each invalidating edit in maildir and stdin mode, macro '
                     'scenarios incl. -D override / refused -D / deferred ${path} / values not rescanned / add-header and flags strings / ~) run on '
                     'the real binary under the shim; the observed trace is followed by Model.mainP on the trees the REAL parser built (M conform) '
                     'and by Model.mainText from the configuration TEXT and the -D options (M conformtext): both answers (exit status, final '
                     'abstract file system, log) must be identical, and the text path must conform with the real run',
        'text_samples': [t for t in tres if t['defs']][:2],
        'sanitizer_faults': nfault,
    })


def replay(rep, path):
    import json
    j = json.load(open(path))
    print(json.dumps(j, indent=1)[:3000])
    sc = vlib.Scratch()
    vlib.lean_gate(rep, 'C14', sc, [])
    conffam.replay(j, sc)
    rep.coverage.update({'evaluations': 1, 'distinct_nontrivial': 1})
