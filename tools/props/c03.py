"""C03 - rules are evaluated with the documented first-match semantics."""
import itertools
import random
import vlib
import gen_rules
import evalcommon as ec
import confshape

# Witnesses of the pinned finding (evaluation decided by a pass/action pending from an enclosing block).
WITNESSES = {
    'pass-crosses-block': [
        # (i) nested block completes without break while an outer pass is pending: stops after the nested block
        ('maildir "~/md" {\n\tmatch all label "one" pass\n\tmatch all {\n\t\tmatch header "X-0" /^1$/ move "~/dst/d"\n\t}\n\tmatch all move "~/dst/e"\n}\n',
         [('^1$', '')], [False] * 6),
        # (iii) inner pass leaks through break
        ('maildir "~/md" {\n\tmatch all {\n\t\tmatch header "X-0" /^1$/ label "x" pass\n\t\tmatch header "X-1" /^1$/ break\n\t}\n}\n',
         [('^1$', ''), ('^1$', '')], [True, True, False, False, False, False]),
    ],
}


def small_trees():
    """Bounded-exhaustive: <= 2 rules per block, one nesting level, actions from {label, move} x ctl."""
    bodies = []
    for ctl in ('', ' pass', ' break'):
        for act in ('label "l%d"', 'move "~/dst/m%d"', ''):
            if act or ctl:
                bodies.append((act, ctl))
    def rules(n, depth, ctr):
        if n == 0:
            yield []
            return
        for first in rule(depth, ctr):
            for rest in rules(n - 1, depth, ctr):
                yield [first] + rest
    def rule(depth, ctr):
        for neg in ('', '! '):
            for act, ctl in bodies:
                yield ('acts', neg, act, ctl)
            if depth > 0:
                for n in (1, 2):
                    for sub in rules(n, depth - 1, ctr):
                        yield ('blk', neg, sub)
    for n in (1, 2):
        for rs in rules(n, 1, None):
            yield rs


def render(rs, ctr, pats, indent=1):
    out = ''
    for r in rs:
        i = ctr[0] % gen_rules.ATOMS
        ctr[0] += 1
        pats.append(('^1$', ''))
        cond = '%sheader "X-%d" /^1$/' % (r[1], i)
        if r[0] == 'acts':
            act = (r[2] % ctr[0]) if r[2] else ''
            out += '\t' * indent + 'match %s %s%s\n' % (cond, act, r[3])
        else:
            out += '\t' * indent + 'match %s {\n%s' % (cond, render(r[2], ctr, pats, indent + 1)) + '\t' * indent + '}\n'
    return out


def has_action(rs):
    return any(r[0] == 'acts' or has_action(r[2]) for r in rs)


def valid(rs):
    return all(r[0] == 'acts' or (has_action(r[2]) and valid(r[2])) for r in rs)


def run(rep):
    rng = random.Random(rep.seed)
    sc = vlib.Scratch()
    h, env = ec.harness(sc)
    vlib.lean_gate(rep, 'C03', sc, [
        'the yacc-generated parser is the real one: the model receives the tree the parser built (dump with line numbers), completed '
        'with the pattern sources; regex/command/stat/time are the platform\'s (FFI) on the model side',
        'modelled, not verified: TAILQ list primitives, strlcpy/pathslice buffers (C18), regexec',
    ])
    cases = []
    # 1. witnesses of the pinned finding
    wit = []
    for cls, ws in WITNESSES.items():
        for conf, pats, truth in ws:
            c = ec.Case(conf, pats, gen_rules.message(random.Random(7), truth))
            wit.append((cls, c))
            cases.append(c)
    # 2. bounded-exhaustive small trees, all valuations of the atoms used
    nsmall = 0
    limit = 2500 if rep.tier == 'quick' else 10 ** 9
    trees = [t for t in small_trees() if valid(t)]
    rng.shuffle(trees)
    for t in trees:
        ctr, pats = [0], []
        conf = 'maildir "~/md" {\n%s}\n' % render(t, ctr, pats)
        na = min(ctr[0], gen_rules.ATOMS)
        for bits in itertools.product([False, True], repeat=na):
            truth = list(bits) + [False] * (gen_rules.ATOMS - na)
            cases.append(ec.Case(conf, list(pats), b''.join(b'X-%d: %d\n' % (i, 1 if truth[i] else 0) for i in range(gen_rules.ATOMS)) + b'To: a@b\n\nbody\n'))
            nsmall += 1
        if nsmall >= limit:
            break
    # 3. random trees with every operator, attachments, errors, dates, interpolation
    nrand = 1500 if rep.tier == 'quick' else 60000
    for _ in range(nrand):
        g = gen_rules.Gen(rng, depth=rng.choice([0, 1, 2, 2, 3]), rules_max=rng.choice([2, 3, 4]))
        conf = g.config()
        pats = list(g.patterns)
        for _ in range(3):
            truth = [rng.random() < 0.5 for _ in range(gen_rules.ATOMS)]
            date = None
            if rng.random() < 0.5:
                t = ec.NOW - rng.choice([0, 1, 30, 59, 60, 61, 3599, 3600, 3601, 100000, -5])
                date = ec.gm(t) + b' ' + rng.choice([b'+0000', b'-0000', b'GMT', b'+0100', b'-0330', b'UTC'])
            cases.append(ec.Case(conf, pats, gen_rules.message(rng, truth, mime=rng.random() < 0.3, date=date),
                                 rng.choice(['new', 'cur']), rng.choice(['1.host', '2.host:2,S', '3.host:2,FS', '4.host:2,']),
                                 rng.choice(['0', '0', '1'])))
    ec.run_cases(h, env, cases)

    # the tree the real parser built must be the one the documented grammar defines
    shape_bad = []
    seen_conf = set()
    for c in cases:
        if c.ast is None or c.conf in seen_conf:
            continue
        seen_conf.add(c.conf)
        try:
            exp = confshape.expected_shape(c.conf)
        except confshape.ShapeError as e:
            exp = ['unparsable-by-reference: %s' % e]
        got = confshape.dump_shape(c.ast)
        if exp != got:
            shape_bad.append((c, exp, got))
    for c, exp, got in shape_bad[:3]:
        rep.finding('unlisted', dict(c.readable(), grammar_tree=' '.join(exp), parser_tree=' '.join(got),
                                     what='the parser built a different formula / rule structure than the grammar defines (precedence, associativity, nesting)'))
    corr_bad, spec_bad, faults = [], [], []
    stats = {'compared_model': 0, 'compared_spec': 0, 'outside_spec_domain': 0, 'crosses': 0, 'conferr': 0, 'MATCH': 0, 'NOMATCH': 0, 'ERROR': 0}
    witset = set(id(c) for _, c in wit)
    for c in cases:
        if c.note == 'fault':
            faults.append(c)
            continue
        if c.note == 'noeval':
            stats['conferr'] += 1
            continue
        if c.model is None:
            continue
        stats['compared_model'] += 1
        tri = c.impl.split(' ')[0]
        stats[tri] = stats.get(tri, 0) + 1
        if ec.impl_core(c) != ec.model_core(c):
            corr_bad.append(c)
        sp = ec.spec_plan(c)
        if sp is None:
            stats['outside_spec_domain'] += 1
            continue
        if sp[1]:
            stats['crosses'] += 1
            if id(c) not in witset:
                continue
        stats['compared_spec'] += 1
        itri, inp, ilast = ec.impl_plan(c)
        if (itri, inp, ilast) != (sp[0], sp[2] if sp[0] == 'MATCH' else [], sp[3] if sp[0] == 'MATCH' else '-'):
            if id(c) in witset or sp[1]:
                continue
            spec_bad.append((c, (itri, inp, ilast), sp))
    # pinned finding: confirmed by its witnesses (implementation deviates from the documented outcome)
    for cls, c in wit:
        sp = ec.spec_plan(c)
        if sp is None or c.impl is None:
            continue
        itri, inp, ilast = ec.impl_plan(c)
        if sp[1] and (itri, inp, ilast) != (sp[0], sp[2] if sp[0] == 'MATCH' else [], sp[3] if sp[0] == 'MATCH' else '-'):
            rep.finding(cls, dict(c.readable(), implementation=[itri, inp, ilast], documented=list(sp)))
    for c, got, sp in spec_bad[:5]:
        rep.finding('unlisted', dict(c.readable(), implementation=list(got), documented=list(sp), model=c.model,
                                     what='executed plan differs from the documented rule semantics'))
    for c in faults[:5]:
        rep.finding('sanitizer-fault', dict(c.readable(), implementation=c.impl))
    if corr_bad and not rep.violations:
        rep.violation({'obligation': 'correspondence expr.c/match.c <-> Model/Eval.lean: the real evaluator and the Lean model disagree; the '
                                     'documented semantics evaluated on the implementation output found no failing input',
                       'disagreements': len(corr_bad),
                       'examples': [dict(c.readable(), implementation=ec.impl_core(c), model=ec.model_core(c)) for c in corr_bad[:5]]}, False)
    vlib.lean_conclude(rep)
    nontriv = set((c.conf, c.msg) for c in cases if c.model is not None and c.impl.startswith('MATCH') and c.conf.count('match') >= 2)
    rep.coverage.update({
        'evaluations': len(cases),
        'distinct_nontrivial': len(nontriv),
        'rule': 'bounded-exhaustive trees (<= 2 rules per block, one nesting level, label/move x none/pass/break, negation) with all '
                'valuations (%d cases%s) + %d random trees x 3 messages (every operator, attachment conditions and blocks, command/'
                'isdirectory/date/body/header atoms, errors, interpolation templates, pass/break also in unusual places) + %d finding '
                'witnesses; each evaluated by the real parser + expr_eval + matches_interpolate and compared with the Lean model '
                '(exact match list) and, inside the specification domain, with the documented rule semantics; non-trivial = a tree of '
                '>= 2 rules that matched; distinct by (config, message)' % (nsmall, ', sampled' if nsmall >= limit else ', complete', nrand, len(wit)),
        'exhaustive': nsmall < limit,
        'samples': [dict(c.readable(), implementation=ec.impl_core(c)[:300], specification=c.spec) for c in rng.sample([c for c in cases if c.model], 3)],
        'distribution': stats,
        'correspondence_mismatches': len(corr_bad),
        'spec_failures': len(spec_bad),
        'configs_shape_checked': len(seen_conf),
        'shape_mismatches': len(shape_bad),
        'sanitizer_faults': len(faults),
    })
    rep.assumptions += ['evaluations whose result is decided by a pass/action pending from an enclosing block are excluded (pinned finding)',
                        'matchers whose value depends on the match list (back-references in command/isdirectory, old after flags) are outside the spec domain']


def replay(rep, path):
    import json
    j = json.load(open(path))
    sc = vlib.Scratch()
    h, env = ec.harness(sc)
    vlib.lean_gate(rep, 'C03', sc, [])
    js = j.get('examples', [j])
    for e in js:
        req = e['request']
        out = vlib.run_batch([h], [req], env)
        print('request        %s' % req[:200])
        print('implementation %s' % out[0][:2000])
    rep.coverage.update({'evaluations': len(js), 'distinct_nontrivial': len(js)})
