"""C03 - rules are evaluated with the documented first-match semantics."""
import concurrent.futures as cf
import itertools
import random
import re
import vlib
import gen_rules
import evalcommon as ec
import confshape
import proc
import world
import worldscen as ws
from props.c13 import parse_helper

# Witnesses of the pinned finding (evaluation decided by a pass/action pending from an enclosing block).
WITNESSES = {
    'pass-crosses-block': [
        # (i) nested block completes without break while an outer pass is pending: stops after the nested block
        ('maildir "~/md" {\n\tmatch all label "one" pass\n\tmatch all {\n\t\tmatch header "X-0" /^1$/ move "~/dst/d"\n\t}\n\tmatch all move "~/dst/e"\n}\n',
         [('^1$', '')], [False] * 6),
        # (iii) inner pass leaks through break
        ('maildir "~/md" {\n\tmatch all {\n\t\tmatch header "X-0" /^1$/ label "x" pass\n\t\tmatch header "X-1" /^1$/ break\n\t}\n}\n',
         [('^1$', ''), ('^1$', '')], [True, True, False, False, False, False]),
    ],
    # something other than `pass` after a `pass` in the same action list is never evaluated (Proofs.actionAfterPass, formal witness
    # C03_actions_after_pass_ignored): labelled, not moved.  Reported as a KNOWN-FINDING once the class is listed, until then counted in the
    # coverage as a candidate finding
    'actions-after-pass-ignored': [
        ('maildir "~/md" {\n\tmatch all label "x" pass move "~/dst/y"\n}\n', [], [False] * 6),
        ('maildir "~/md" {\n\tmatch header "X-0" /^1$/ pass label "x"\n\tmatch all move "~/dst/d"\n}\n', [('^1$', '')], [True] + [False] * 5),
    ],
}
# placement class (driver `placementClass`) -> finding class of an evaluation that departs from the documented outcome there
PLACEMENT_FINDING = {'AFTERPASS': 'actions-after-pass-ignored', 'ATTAFTERBREAK': 'attachment-block-after-break'}


def small_trees():
    """Bounded-exhaustive: <= 2 rules per block, one nesting level, actions from {label, move} x ctl; the control action last, and
    (second group) in the other places the grammar accepts: first, repeated, before and after an action."""
    bodies = []
    for ctl in ('', ' pass', ' break'):
        for act in ('label "l%d"', 'move "~/dst/m%d"', ''):
            if act or ctl:
                bodies.append((act, ctl))
    bodies += [('break label "l%d"', ''), ('break move "~/dst/m%d"', ' break'), ('label "l%d"', ' pass pass'), ('break', ' break')]
    def rules(n, depth, ctr):
        if n == 0:
            yield []
            return
        for first in rule(depth, ctr):
            for rest in rules(n - 1, depth, ctr):
                yield [first] + rest
    def rule(depth, ctr):
        for neg in ('', '! '):
            for act, ctl in bodies:
                yield ('acts', neg, act, ctl)
            if depth > 0:
                for n in (1, 2):
                    for sub in rules(n, depth - 1, ctr):
                        yield ('blk', neg, sub)
    for n in (1, 2):
        for rs in rules(n, 1, None):
            yield rs


def render(rs, ctr, pats, indent=1):
    out = ''
    for r in rs:
        i = ctr[0] % gen_rules.ATOMS
        ctr[0] += 1
        pats.append(('^1$', ''))
        cond = '%sheader "X-%d" /^1$/' % (r[1], i)
        if r[0] == 'acts':
            act = (r[2] % ctr[0]) if '%d' in r[2] else r[2]
            out += '\t' * indent + 'match %s %s%s\n' % (cond, act, r[3])
        else:
            out += '\t' * indent + 'match %s {\n%s' % (cond, render(r[2], ctr, pats, indent + 1)) + '\t' * indent + '}\n'
    return out


def has_action(rs):
    return any(r[0] == 'acts' or has_action(r[2]) for r in rs)


def valid(rs):
    return all(r[0] == 'acts' or (has_action(r[2]) and valid(r[2])) for r in rs)


# ------------------------------------------------------------------------------------------------------------
# process level (real binary under the shim): the actions of the rule that fired are performed, in order, on THE
# message wherever earlier actions of the same rule put it - and on nothing else (bystanders, non-regular entries)
# ------------------------------------------------------------------------------------------------------------
R = '@R@'
LABEL_LINE = b'X-Label: lbl\n'
ADDED_LINE = b'X-Added: v1\n'
# key -> (configuration text, code of the action for `S dest` (None: the action carries no destination))
PACTS = {
    'moveA': ('move "%s/dstA"' % R, b'm' + ('%s/dstA' % R).encode()),
    'new': ('flag new', b'fnew'),
    'cur': ('flag !new', b'fcur'),
    'flags': ('flags "F"', b'FF'),
    'label': ('label "lbl"', None),
    'hdr': ('add-header "X-Added" "v1"', None),
    'exec': ('exec { "%s" "plain" }' % ws.HELPER, None),
    'execin': ('exec stdin { "%s" "stdin" }' % ws.HELPER, None),
    'discard': ('discard', None),
}
NEUTRAL = b'F'      # `flags ""`: an entry of the match list that is neither move nor flag (label, exec, the MATCH/PASS entries between two rules)
SUBJECT = {'new': '1.host', 'cur': '1.host:2,RS'}
BYSTANDER = {'new': ('cur', '2.host:2,S'), 'cur': ('new', '2.host')}
PPATS = [('^99$', '')]
MUTATING = {'renameat', 'unlinkat', 'unlink', 'utimensat', 'mkdir', 'rmdir', 'write', 'fprintf'}
UNIT_CHUNK = 8000   # unit-level cases are evaluated, compared and dropped in chunks of this size (memory stays flat)
FAILED = []         # every failing sequence of this run (only the first few become findings), for the summary in the coverage


def name_letters(name):
    return set(name.rsplit(':2,', 1)[1]) if ':2,' in name else set()


def with_headers(data, lines):
    head, body = data.split(b'\n\n', 1)
    return head + b'\n' + b''.join(lines) + b'\n' + body


def seq_jobs(tier, rng):
    """(subdir, action keys, split): every ordered pair of distinct actions and a sample of the triples (thorough: all triples and a
    sample of the quadruples), as one rule (split None) and as two rules joined by `pass` after `split` actions.  `discard` cannot
    be combined with another action in one rule: it only occurs as the single action of the rule after the pass."""
    keys = [k for k in PACTS if k != 'discard']
    seqs = [(a,) for a in PACTS]
    seqs += list(itertools.permutations(keys, 2)) + [(a, 'discard') for a in keys]
    triples = list(itertools.permutations(keys, 3)) + [p + ('discard',) for p in itertools.permutations(keys, 2)]
    if tier == 'quick':
        # the witnesses of known finding F23 are part of every run
        wit = [('label', 'execin', 'hdr'), ('hdr', 'execin', 'label')]
        triples = wit + [t for t in rng.sample(triples, 110) if t not in wit]
    else:
        quads = list(itertools.permutations(keys, 4)) + [p + ('discard',) for p in itertools.permutations(keys, 3)]
        triples += rng.sample(quads, 600)
    seqs += triples
    jobs = []
    for sub in ('new', 'cur'):
        for s in seqs:
            if s[-1] == 'discard':
                if len(s) > 1:
                    jobs.append((sub, s, len(s) - 1))
                else:
                    jobs.append((sub, s, None))
                continue
            jobs.append((sub, s, None))
            if len(s) == 2:
                jobs.append((sub, s, 1))
            elif len(s) > 2:
                jobs.append((sub, s, rng.randrange(1, len(s))))
    jobs = [j + (False, None) for j in jobs]
    # the destination maildir on another device (renameat fails with EXDEV: the message is copied and the original removed)
    exdev = [j[:3] + (True, None) for j in jobs if 'moveA' in j[1] and 2 <= len(j[1]) <= 3]
    # `break` anywhere in an action list (C03_eval_refines_spec_wide): the first `split` actions stand in a nested block, in ONE rule with a
    # `break` before, between or after them (position brk, 0 .. split); the block is left, what was collected stays pending, the next rule
    # of the enclosing block matches and everything is performed in the order listed
    brk = []
    for sub, s, split, _, _ in jobs:
        if split is not None and s[-1] != 'discard':
            for pos in range(split + 1):
                brk.append((sub, s, split, False, pos))
    return jobs + (rng.sample(exdev, 40) if tier == 'quick' else exdev) + (rng.sample(brk, 80) if tier == 'quick' else brk)


def dest_request(sub, seq, split, exdev=False, brk=None):
    """`S dest` request (Spec.destOK, Spec.destPath) for the entries the sequence puts on the match list."""
    codes = []
    for j, a in enumerate(seq):
        if brk is not None and j == brk:
            codes.append(NEUTRAL)           # the BREAK entry is in the list while the actions behind it are appended
        if split is not None and j == split:
            codes.append(NEUTRAL)
        codes.append(PACTS[a][1] or NEUTRAL)
    while codes and codes[-1] == NEUTRAL:
        codes.pop()
    return ' '.join(['S', 'dest', vlib.hexs(('%s/src' % R).encode()), vlib.hexs(sub.encode()), vlib.hexs(SUBJECT[sub].encode())] +
                    [vlib.hexs(c) for c in codes])


# Guards: conditions that ask the operating system while the rules are evaluated (command = fork/waitpid, isdirectory and the
# file-time date conditions = stat), written so that the documented outcome of the sequence does not change: `yes` is true of the
# subject, `no` is false.  The run is followed call by call through Model.mainP (evalP) like every other one.
GUARDS = {
    'command': ('command "true"', 'command "false"'),
    'isdir': ('isdirectory "%s/dstA"' % R, 'isdirectory "%s/conf"' % R),
    'date': ('date modified > 1 year', 'date modified > 50 years'),
}


def seq_guard(sub, seq, split):
    """Which guard (if any) the rules of this sequence carry: a deterministic third of the jobs."""
    h = (len(seq) * 7 + sum(len(a) for a in seq) + (0 if split is None else 3 * split + 1) + (0 if sub == 'new' else 5)) % 9
    return {0: 'command', 1: 'isdir', 2: 'date'}.get(h)


def seq_config(sub, seq, split, brk=None):
    cond = 'new' if sub == 'new' else '! new'
    g = seq_guard(sub, seq, split) if brk is None else None      # the nested `break` shapes (p11) stay as they are
    # F21: a message taken from new to cur of the walked maildir is met again when cur is read: every rule is restricted to the
    # subdirectory the subject starts in (as C09 does)
    lines = ['\tmatch header "X-Id" /^99$/ move "%s/dstB"' % R]
    if g:
        yes, no = GUARDS[g]
        cond = '%s and %s' % (cond, yes)
        lines.append('\tmatch %s move "%s/dstB"' % (no, R))
    if brk is not None:
        inner = [PACTS[a][0] for a in seq[:split]]
        inner.insert(brk, 'break')
        lines.append('\tmatch %s {\n\t\tmatch %s %s\n\t}' % (cond, cond, ' '.join(inner)))
        lines.append('\tmatch %s %s' % (cond, ' '.join(PACTS[a][0] for a in seq[split:])))
    elif split is None:
        lines.append('\tmatch %s %s' % (cond, ' '.join(PACTS[a][0] for a in seq)))
    else:
        lines.append('\tmatch %s %s pass' % (cond, ' '.join(PACTS[a][0] for a in seq[:split])))
        lines.append('\tmatch %s %s' % (cond, ' '.join(PACTS[a][0] for a in seq[split:])))
    # first match wins: never reached for the subject
    lines.append('\tmatch %s move "%s/dstB"' % (cond, R))
    return 'maildir "%s/src" {\n%s\n}\n' % (R, '\n'.join(lines))


def seq_spec(sub, seq, split, exdev=False, brk=None):
    tree = {}
    for d in ('src', 'dstA', 'dstB'):
        tree.update(proc.maildir_tree(d, {}))
    tree['src/%s/%s' % (sub, SUBJECT[sub])] = ws.msg(1)
    tree['src/%s/%s' % BYSTANDER[sub]] = ws.msg(2)
    return ws.Spec('seq', seq_config(sub, seq, split, brk), PPATS, tree=tree, devmap=('%s/dstA' % R,) if exdev else ())


def touched(r, basename, names=MUTATING):
    """Traced calls of the kinds `names` (or an openat that creates) one of whose path arguments names `basename`."""
    hits = []
    for t in r.calls():
        creating = t['name'] == 'openat' and 'O_CREAT' in t['args'].get('flags', '')
        if t['name'] not in names and not creating:
            continue
        for k in ('path', 'old', 'new'):
            if k in t['args'] and proc.unescape(t['args'][k]).rsplit(b'/', 1)[-1] == basename.encode('latin-1'):
                hits.append(t['raw'][:160])
    return hits


def judge_seq(sub, seq, destpath, scen, r, exdev=False):
    """The documented meaning of the action list against the real final tree, the helper's record and the trace.
    -> [(finding class, text)]; class 'unlisted' unless the deviation is exactly the known finding F23."""
    probs = []
    known = []
    name = SUBJECT[sub]
    rel0 = 'src/%s/%s' % (sub, name)
    orig = scen.initial[rel0]
    files = {rel: v for rel, v in r.final.items() if v[0] == 'file' and re.search(r'(^|/)(new|cur)/[^/]+$', rel)}
    if r.status != 0:
        probs.append('exit status %r although every selected action is possible: %s' % (r.status, r.err[-300:].decode('latin-1').replace(scen.root, R)))
    where = [rel for rel, v in files.items() if ws.msg_id(v[1]) == 1]
    rewrite = [LABEL_LINE if a == 'label' else ADDED_LINE for a in seq if a in ('label', 'hdr')]
    if seq[-1] == 'discard':
        if where:
            probs.append('discarded message still exists: %s' % where)
    elif len(where) != 1:
        probs.append('the message exists %d times after the run: %s' % (len(where), where))
    else:
        rel = where[0]
        kind, data, mt = files[rel]
        fdir, fname = rel.rsplit('/', 1)
        want_dir = destpath.replace(R + '/', '')
        if fdir != want_dir:
            probs.append('the message is in %s, the documented place after %s is %s' % (fdir, ' '.join(seq), want_dir))
        fsub = want_dir.rsplit('/', 1)[1]
        want = name_letters(name) | ({'F'} if 'flags' in seq else set())
        if sub == 'new' and fsub == 'cur':
            want.add('S')
        if sub == 'cur' and fsub == 'new':
            want.discard('S')
        if fdir == want_dir and name_letters(fname) != want:
            # (found by this stage on the pinned tree and repaired there: maildir_move put the S of a subdirectory change into the generated
            # NAME only, a label / add-header that followed regenerated the name from the flags the message had when it was read)
            probs.append('flags of the final name %r are not %r (message went %s -> %s)' % (fname, ''.join(sorted(want)), sub, fsub))
        wants = [with_headers(orig[1], p) for p in set(itertools.permutations(rewrite))] if rewrite else [orig[1]]
        if data not in wants:
            probs.append('content after %s is %r, expected %r' % (' '.join(seq), data[:200], wants[0][:200]))
        if not rewrite and mt != orig[2]:
            probs.append('modification time changed (%s -> %s) although the message was not rewritten' % (orig[2], mt))
        if not rewrite and not any(PACTS[a][1] for a in seq) and rel != rel0:
            probs.append('the message was renamed to %s although no action moves it' % rel)
    # the helper saw the message as it was at that point
    recs = [parse_helper(l) for l in r.helper]
    wantrecs, seen = [], []
    for a in seq:
        if a == 'label':
            seen.append(LABEL_LINE)
        elif a == 'hdr':
            seen.append(ADDED_LINE)
        elif a == 'exec':
            wantrecs.append(([b'plain'], b''))
        elif a == 'execin':
            wantrecs.append(([b'stdin'], with_headers(orig[1], seen) if seen else orig[1]))
    got = [(argv, stdin) for argv, stdin, fds, target in recs]
    if got != wantrecs:
        # known finding F23: matches_interpolate sets the headers of ALL label / add-header actions in memory before anything is
        # executed, so the first action that writes the message again (label, add-header, a move across devices) already writes the
        # headers of later ones.  Identified by: every command ran, in order, with its arguments, and what an `exec stdin` got is the
        # documented content or - after an action that can write the message - the documented content plus exactly the headers of ALL
        # later label / add-header actions; nothing else differs.
        allhdr = [with_headers(orig[1], p) for p in set(itertools.permutations(rewrite))] if rewrite else [orig[1]]
        f23 = len(got) == len(wantrecs)
        written = False
        k = 0
        for a in seq:
            if a in ('label', 'hdr') or (exdev and PACTS[a][1]):
                written = True
            elif a in ('exec', 'execin') and f23:
                if got[k][0] != wantrecs[k][0]:
                    f23 = False
                elif a == 'exec' and got[k][1] != b'':
                    f23 = False
                elif a == 'execin' and got[k][1] != wantrecs[k][1] and not (written and got[k][1] in allhdr):
                    f23 = False
                k += 1
        known.append(('rewrite-applies-later-headers' if f23 else 'unlisted',
                      'the commands ran as %r, documented: %r' % ([(a, s[:200]) for a, s in got], [(a, s[:200]) for a, s in wantrecs])))
    # nothing else is touched: the message no rule matches keeps name, content and timestamps; no stray files
    brel = 'src/%s/%s' % BYSTANDER[sub]
    if r.final.get(brel) != scen.initial[brel]:
        probs.append('the message no rule matches (%s) was changed: %r' % (brel, r.final.get(brel, ('gone',))[0]))
    hits = touched(r, BYSTANDER[sub][1])
    if hits:
        probs.append('mutating call on the message no rule matches: %s' % [h.replace(scen.root, R) for h in hits[:2]])
    for rel, v in files.items():
        if ws.msg_id(v[1]) not in (1, 2):
            probs.append('stray file %s' % rel)
    if [rel for rel, v in files.items() if ws.msg_id(v[1]) == 2] != [brel]:
        probs.append('the message no rule matches exists elsewhere')
    if probs:
        # anything else wrong: nothing is explained away
        return [('unlisted', p) for p in probs] + [('unlisted', t) for c, t in known]
    return known


def sequence_stage(rep, tools, W, rng):
    jobs = seq_jobs(rep.tier, rng)
    answers = vlib.run_batch([vlib.driver_path()], [dest_request(*j) for j in jobs])
    todo = []
    outside = 0
    for j, a in zip(jobs, answers):
        ok, path = a.split(' ')
        if ok != '1':
            outside += 1        # outside Spec.destOK: known finding F12 (property C09), not generated here
            continue
        todo.append((j, vlib.unhex(path).decode('latin-1')))

    def one(item):
        (sub, seq, split, exdev, brk), destpath = item
        spec = seq_spec(sub, seq, split, exdev, brk)
        scen = spec.build(tools)
        try:
            r = scen.run()
            probs = judge_seq(sub, seq, destpath, scen, r, exdev)
            req, tr, notes = W.request(scen, spec.pats, r)
            return {'sub': sub, 'seq': list(seq), 'split': split, 'exdev': exdev, 'brk': brk, 'problems': probs, 'req': req, 'scen': scen, 'r': r,
                    'config': scen.config.replace(scen.root, R), 'documented_place': destpath}
        finally:
            scen.cleanup()

    with cf.ThreadPoolExecutor(vlib.NCPU) as ex:
        results = list(ex.map(one, todo))
    verdicts = W.verdict([x['req'] for x in results])
    stats = {'runs': len(results), 'outside_destOK_not_generated': outside, 'failing': 0, 'nonconforming': 0,
             'by_length': {}, 'with_pass': sum(1 for x in results if x['split'] is not None and x['brk'] is None),
             'with_break_in_nested_block': sum(1 for x in results if x['brk'] is not None),
             'across_devices': sum(1 for x in results if x['exdev'])}
    corr = []
    nrep = 0
    for x, v in zip(results, verdicts):
        stats['by_length'][len(x['seq'])] = stats['by_length'].get(len(x['seq']), 0) + 1
        desc = {'harness': 'process (real binary under the shim)', 'family': 'sequence', 'source_subdir': x['sub'], 'actions': x['seq'],
                'pass_after': x['split'], 'break_at': x['brk'], 'dstA_on_other_device': x['exdev'], 'config': x['config'],
                'documented_place': x['documented_place']}
        unlisted = [t for c, t in x['problems'] if c == 'unlisted']
        if unlisted:
            stats['failing'] += 1
            FAILED.append((x['sub'], x['seq'], x['split'], unlisted))
            if nrep < 6:
                nrep += 1
                rep.finding('unlisted', dict(desc, what=unlisted[:6]))
            continue
        for c, t in x['problems']:
            stats[c] = stats.get(c, 0) + 1
            rep.finding(c, dict(desc, what=[t]))
        kind, detail = world.compare(x['scen'], x['r'], v)
        if kind != 'ok':
            stats['nonconforming'] += 1
            corr.append(dict(desc, conform=kind, detail=detail[:400]))
    if corr and not rep.violations:
        rep.violation({'obligation': 'correspondence: the real run of an action sequence does not follow Model.mainP / ends in a different state; '
                                     'the documented meaning evaluated on the real tree found nothing wrong',
                       'disagreements': len(corr), 'examples': corr[:6]}, False)
    return stats


# ---- entries of new/ and cur/ that are not regular files ----------------------------------------------------

SPECIALS = {
    'src/new/3.host': ('symlink', '%s/outside/note.eml' % R),          # to a regular file outside the maildir (absolute)
    'src/new/4.host': ('symlink', '../cur/2.host:2,S'),                # to a message of the same maildir (relative)
    'src/cur/5.host:2,S': ('symlink', 'nowhere'),                      # dangling
    'src/cur/7.host:2,S': ('fifo',),
    'src/new/8.host': ('symlink', '%s/outside' % R),                   # to a directory
    'src/cur/9.host:2,S': ('symlink', '%s/src/new/1.host' % R),        # to a message of the same maildir (absolute)
}
NONREG_RULES = {
    'move': ('match all move "%s/dstA"' % R, 'dstA'),
    'discard': ('match all discard', None),
    'label': ('match all label "lbl"', 'src'),
    'add-header': ('match all add-header "X-Added" "v1"', 'src'),
    'flags': ('match all flags "F"', 'src'),
    'exec-stdin': ('match all exec stdin { "%s" "stdin" }' % ws.HELPER, 'src'),
}


def nonreg_spec(rule):
    tree = {}
    for d in ('src', 'dstA'):
        tree.update(proc.maildir_tree(d, {}))
    tree['src/new/1.host'] = ws.msg(1)
    tree['src/cur/2.host:2,S'] = ws.msg(2)
    tree['outside/note.eml'] = ws.msg(31)
    tree['src/new/6.host'] = None                                      # a sub-directory with a file in it
    tree['src/new/6.host/inner'] = ws.msg(36)
    tree.update(SPECIALS)
    return ws.Spec('nonregular-' + rule, 'maildir "%s/src" {\n\t%s\n}\n' % (R, NONREG_RULES[rule][0]), [], tree=tree)


def judge_nonreg(rule, scen, r, d):
    """Entries that are not regular files are not messages: untouched by the real run `r`, not listed by the dry run `d`, named by no
    call other than readdir / fstatat; the regular files next to them are sorted as usual."""
    probs = []
    if r.status != 0:
        probs.append('exit status %r: %s' % (r.status, r.err[-300:].decode('latin-1').replace(scen.root, R)))
    keep = list(SPECIALS) + ['outside/note.eml', 'src/new/6.host', 'src/new/6.host/inner']
    for rel in keep:
        for run, what in ((r, 'run'), (d, 'dry run')):
            if run.final.get(rel) != scen.initial[rel]:
                a, b = scen.initial[rel], run.final.get(rel, ('gone', None, None))
                probs.append('%s (%s%s) after the %s: %s' % (rel, a[0], (' -> ' + a[1].decode('latin-1').replace(scen.root, R)) if a[0] == 'symlink' else '', what,
                                                            'gone' if b[0] == 'gone' else 'now %s%s' % (b[0], ', times changed' if b[:2] == a[:2] else '')))
    out = d.out.decode('latin-1')
    for rel in keep:
        if '%s/%s' % (scen.root, rel) in [l.split(' -> ')[0] for l in out.split('\n')]:
            probs.append('-d lists %s as a message' % rel)
    listed = [l.split(' -> ')[0].replace(scen.root + '/', '') for l in out.split('\n') if ' -> ' in l and l.startswith(scen.root)]
    if sorted(set(listed)) != ['src/cur/2.host:2,S', 'src/new/1.host']:
        probs.append('-d lists %s, the messages are src/new/1.host and src/cur/2.host:2,S' % sorted(set(listed)))
    for rel in SPECIALS:
        hits = touched(r, rel.rsplit('/', 1)[1], names=MUTATING | {'openat', 'open'})
        if hits:
            probs.append('%s is the argument of %s' % (rel, [h.replace(scen.root, R) for h in hits[:2]]))
    # the two messages: sorted as the rule says, exactly once; nothing else appears in a maildir
    files = {rel: v for rel, v in r.final.items() if v[0] == 'file' and re.search(r'(^|/)(new|cur)/[^/]+$', rel)}
    for i, rel0 in ((1, 'src/new/1.host'), (2, 'src/cur/2.host:2,S')):
        where = [rel for rel, v in files.items() if ws.msg_id(v[1]) == i]
        if rule == 'discard':
            if where:
                probs.append('message %d still exists after discard' % i)
            continue
        want_md = NONREG_RULES[rule][1]
        if len(where) != 1 or not where[0].startswith('%s/%s/' % (want_md, rel0.split('/')[1])):
            probs.append('message %d is at %s, expected once in %s/%s' % (i, where, want_md, rel0.split('/')[1]))
            continue
        data = files[where[0]][1]
        want = scen.initial[rel0][1]
        if rule == 'label':
            want = with_headers(want, [LABEL_LINE])
        if rule == 'add-header':
            want = with_headers(want, [ADDED_LINE])
        if data != want:
            probs.append('message %d has content %r' % (i, data[:160]))
        if rule == 'flags' and 'F' not in name_letters(where[0]):
            probs.append('message %d: flags not applied (%s)' % (i, where[0]))
    for rel, v in files.items():
        if ws.msg_id(v[1]) not in (1, 2):
            probs.append('a file that is not one of the messages appeared in a maildir: %s' % rel)
    stdins = sorted(stdin for argv, stdin, fds, target in [parse_helper(l) for l in r.helper])
    wanted = sorted([scen.initial['src/new/1.host'][1], scen.initial['src/cur/2.host:2,S'][1]]) if rule == 'exec-stdin' else []
    if stdins != wanted:
        probs.append('the command ran %d times (on %r), expected %d' % (len(stdins), [ws.msg_id(s) for s in stdins], len(wanted)))
    return probs


def nonregular_stage(rep, tools):
    jobs = [(rule, dt) for rule in NONREG_RULES for dt in ('real', 'unknown')]

    def one(job):
        rule, dt = job
        spec = nonreg_spec(rule)
        scen = spec.build(tools)
        try:
            scen.env_extra = {'VSHIM_DTYPE': 'unknown'} if dt == 'unknown' else {}
            scen.args = ['-d']
            d = scen.run(trace=False, timeout=20)
            scen.reset()
            scen.args = []
            r = scen.run(timeout=20)
            lstats = sum(1 for t in r.calls() if t['name'] == 'fstatat' and 'AT_SYMLINK_NOFOLLOW' in t['raw'])
            return {'rule': rule, 'd_type': dt, 'problems': judge_nonreg(rule, scen, r, d), 'config': scen.config.replace(scen.root, R),
                    'isfile_calls': lstats}
        finally:
            scen.cleanup()

    with cf.ThreadPoolExecutor(vlib.NCPU) as ex:
        results = list(ex.map(one, jobs))
    for x in results:
        if x['problems']:
            rep.finding('unlisted', {'harness': 'process (real binary under the shim)', 'family': 'nonregular', 'rule': x['rule'], 'd_type': x['d_type'],
                                     'config': x['config'], 'population': {k: list(v) for k, v in SPECIALS.items()}, 'what': x['problems'][:8]})
    return {'runs': 2 * len(results), 'failing': sum(1 for x in results if x['problems']),
            'isfile_calls_with_unknown_d_type': sum(x['isfile_calls'] for x in results if x['d_type'] == 'unknown'),
            'isfile_calls_with_real_d_type': sum(x['isfile_calls'] for x in results if x['d_type'] == 'real')}


def process_stage(rep, sc, rng):
    tools = proc.Tools(sc)
    W = world.WorldCheck(sc, tools)
    return sequence_stage(rep, tools, W, rng), nonregular_stage(rep, tools)


def run(rep):
    rng = random.Random(rep.seed)
    sc = vlib.Scratch()
    h, env = ec.harness(sc)
    vlib.lean_gate(rep, 'C03', sc, [
        'the yacc-generated parser is the real one: the model receives the tree the parser built (dump with line numbers), completed '
        'with the pattern sources; regex/command/stat/time are the platform\'s (FFI) on the model side',
        'modelled, not verified: TAILQ list primitives, strlcpy/pathslice buffers (C18), regexec',
    ])
    # ---- unit level: generated, evaluated, compared and DROPPED in chunks (only counters, the first offenders and a few samples are kept) ----
    limit = 2500 if rep.tier == 'quick' else 300000          # bounded-exhaustive family: cases (trees are shuffled, so a limit samples)
    nrand = 1500 if rep.tier == 'quick' else 20000           # random trees (x 3 messages)
    natt = 250 if rep.tier == 'quick' else 6000
    count = {'small': 0, 'wit': 0, 'total': 0}

    def gen_cases():
        """(case, tag) in the order families 1-4; tag: None | ('wit', class) | ('att', part kinds, documented outcome)"""
        # 1. witnesses of the pinned finding
        for cls, wss in WITNESSES.items():
            for conf, pats, truth in wss:
                count['wit'] += 1
                yield ec.Case(conf, pats, gen_rules.message(random.Random(7), truth)), ('wit', cls)
        # 2. bounded-exhaustive small trees, all valuations of the atoms used
        trees = [t for t in small_trees() if valid(t)]
        rng.shuffle(trees)
        for t in trees:
            ctr, pats = [0], []
            conf = 'maildir "~/md" {\n%s}\n' % render(t, ctr, pats)
            na = min(ctr[0], gen_rules.ATOMS)
            for bits in itertools.product([False, True], repeat=na):
                truth = list(bits) + [False] * (gen_rules.ATOMS - na)
                count['small'] += 1
                yield ec.Case(conf, list(pats), b''.join(b'X-%d: %d\n' % (i, 1 if truth[i] else 0) for i in range(gen_rules.ATOMS)) + b'To: a@b\n\nbody\n'), None
            if count['small'] >= limit:
                break
        del trees
        # 3. random trees with every operator, attachments, errors, dates, interpolation
        for _ in range(nrand):
            g = gen_rules.Gen(rng, depth=rng.choice([0, 1, 2, 2, 3]), rules_max=rng.choice([2, 3, 4]), ctl_anywhere=True)
            conf = g.config()
            pats = list(g.patterns)
            for _ in range(3):
                truth = [rng.random() < 0.5 for _ in range(gen_rules.ATOMS)]
                date = None
                if rng.random() < 0.5:
                    t = ec.NOW - rng.choice([0, 1, 30, 59, 60, 61, 3599, 3600, 3601, 100000, -5])
                    date = ec.gm(t) + b' ' + rng.choice([b'+0000', b'-0000', b'GMT', b'+0100', b'-0330', b'UTC'])
                yield ec.Case(conf, pats, gen_rules.message(rng, truth, mime=rng.random() < 0.3, date=date),
                              rng.choice(['new', 'cur']), rng.choice(['1.host', '2.host:2,S', '3.host:2,FS', '4.host:2,']),
                              rng.choice(['0', '0', '1'])), None
        # 4. attachment { } action blocks and attachment conditions over multipart messages with ONE part that cannot be evaluated, placed
        #    before / between / after parts that match (own random stream: families 1-3 stay what they were)
        for conf, pats, msg, kinds, expect in gen_rules.attachment_error_cases(random.Random(rep.seed + 2), natt):
            yield ec.Case(conf, pats, msg), ('att', kinds, expect)

    stats = {'compared_model': 0, 'compared_spec': 0, 'compared_spec_ctl_not_last': 0, 'outside_spec_domain': 0, 'ctl_mixed_no_documented_meaning': 0,
             'outside_ctlPlaced': {}, 'outside_ctlPlaced_departing_from_documented': {}, 'crosses': 0, 'conferr': 0, 'MATCH': 0, 'NOMATCH': 0, 'ERROR': 0}
    candidates = {}     # finding class not (yet) listed -> [count, first example]
    attstats = {'cases': 0, 'compared_with_documented_semantics': 0, 'error_part_before_matching_part': 0, 'result': {}, 'failures': 0}
    # first offenders (payloads, ready to report) and totals
    shape_bad, corr_bad, spec_bad, faults, wit_found, att_bad = [], [], [], [], [], []
    tot = {'shape': 0, 'corr': 0, 'spec': 0, 'faults': 0}
    seen_conf, nontriv = set(), set()
    samples = []
    srng = random.Random(rep.seed + 3)

    def planned(sp):
        return (sp[0], sp[2] if sp[0] == 'MATCH' else [], sp[3] if sp[0] == 'MATCH' else '-')

    def absorb(c, tag):
        count['total'] += 1
        # the tree the real parser built must be the one the documented grammar defines
        if c.ast is not None:
            key = hash(c.conf)
            if key not in seen_conf:
                seen_conf.add(key)
                try:
                    exp = confshape.expected_shape(c.conf)
                except confshape.ShapeError as e:
                    exp = ['unparsable-by-reference: %s' % e]
                got = confshape.dump_shape(c.ast)
                if exp != got:
                    tot['shape'] += 1
                    if len(shape_bad) < 3:
                        shape_bad.append(dict(c.readable(), grammar_tree=' '.join(exp), parser_tree=' '.join(got),
                                              what='the parser built a different formula / rule structure than the grammar defines (precedence, '
                                                   'associativity, nesting)'))
        is_wit = tag is not None and tag[0] == 'wit'
        if tag is not None and tag[0] == 'att':
            # attachment blocks are outside the domain of `S eval` (NOTWF): the documented outcome of the attachment family is computed
            # by gen_rules.attachment_expectation (every part visited / first match or error decides) and compared here
            kinds, (wtri, wexec) = tag[1], tag[2]
            attstats['cases'] += 1
            if c.impl is not None and c.note not in ('fault', 'noeval'):
                itri, inp, ilast = ec.impl_plan(c)
                attstats['result'][itri] = attstats['result'].get(itri, 0) + 1
                attstats['compared_with_documented_semantics'] += 1
                if 'yes' in kinds[kinds.index('err') + 1:]:
                    attstats['error_part_before_matching_part'] += 1
                nexec = sum(1 for k in inp if k.startswith('exec:'))
                if itri != wtri or (wexec is not None and nexec != wexec):
                    attstats['failures'] += 1
                    if len(att_bad) < 4:
                        att_bad.append(dict(c.readable(), parts=kinds, implementation=[itri, 'exec x %d' % nexec], documented=[wtri, 'exec x %s' % wexec],
                                            what='attachment block / condition: an attachment { } block is evaluated for every part - an error in '
                                                 'any part is an error, it selects its exec once per matching part; an attachment condition tries '
                                                 'the parts in order and the first match or error decides'))
        if c.note == 'fault':
            tot['faults'] += 1
            if len(faults) < 5:
                faults.append(dict(c.readable(), implementation=c.impl))
            return
        if c.note == 'noeval':
            stats['conferr'] += 1
            return
        if c.model is None:
            return
        stats['compared_model'] += 1
        tri = c.impl.split(' ')[0]
        stats[tri] = stats.get(tri, 0) + 1
        if c.impl.startswith('MATCH') and c.conf.count('match') >= 2:
            nontriv.add(hash((c.conf, c.msg)))
        # coverage samples: a reservoir of 3
        if len(samples) < 3:
            samples.append(dict(c.readable(), implementation=ec.impl_core(c)[:300], specification=c.spec))
        elif srng.randrange(stats['compared_model']) < 3:
            samples[srng.randrange(3)] = dict(c.readable(), implementation=ec.impl_core(c)[:300], specification=c.spec)
        if ec.impl_core(c) != ec.model_core(c):
            tot['corr'] += 1
            if len(corr_bad) < 5:
                corr_bad.append(dict(c.readable(), implementation=ec.impl_core(c), model=ec.model_core(c)))
        sp = ec.spec_plan(c)
        if sp is None:
            stats['outside_spec_domain'] += 1
            if c.spec == 'NOTWF MIXED':
                stats['ctl_mixed_no_documented_meaning'] += 1
            return
        if sp[4] != 'PLACED':
            # an action list in one of the named classes outside Proofs.ctlPlaced: the documented outcome is known, the evaluator is known to
            # depart from it (formal witnesses in Props/C03.lean); compared with the model above, and here only counted / confirmed
            stats['outside_ctlPlaced'][sp[4]] = stats['outside_ctlPlaced'].get(sp[4], 0) + 1
            itri, inp, ilast = ec.impl_plan(c)
            if not sp[1] and (itri, inp, ilast) != planned(sp):
                stats['outside_ctlPlaced_departing_from_documented'][sp[4]] = stats['outside_ctlPlaced_departing_from_documented'].get(sp[4], 0) + 1
                cls = PLACEMENT_FINDING.get(sp[4], 'unlisted')
                payload = dict(c.readable(), implementation=[itri, inp, ilast], documented=list(sp[:4]), placement=sp[4],
                               what='the action list has %s: the evaluator departs from the documented rule semantics' % sp[4])
                if is_wit or cls in rep.known:
                    wit_found.append((cls, payload))
                else:
                    h = candidates.setdefault(cls, [0, payload])
                    h[0] += 1
            return
        if is_wit:
            # pinned finding: confirmed by its witnesses (implementation deviates from the documented outcome)
            itri, inp, ilast = ec.impl_plan(c)
            if sp[1] and (itri, inp, ilast) != planned(sp):
                wit_found.append((tag[1], dict(c.readable(), implementation=[itri, inp, ilast], documented=list(sp))))
        if sp[1]:
            stats['crosses'] += 1
            if not is_wit:
                return
        stats['compared_spec'] += 1
        if any(re.search(r'(^|\s)(pass|break) +[^\s}]', l) for l in c.conf.split('\n')):
            stats['compared_spec_ctl_not_last'] += 1        # a pass / break that is not the last action of its list
        itri, inp, ilast = ec.impl_plan(c)
        if (itri, inp, ilast) != planned(sp):
            if is_wit or sp[1]:
                return
            tot['spec'] += 1
            if len(spec_bad) < 5:
                spec_bad.append(dict(c.readable(), implementation=[itri, inp, ilast], documented=list(sp), model=c.model,
                                     what='executed plan differs from the documented rule semantics'))

    def flush(chunk):
        ec.run_cases(h, env, [c for c, tag in chunk])
        for c, tag in chunk:
            absorb(c, tag)

    chunk = []
    for item in gen_cases():
        chunk.append(item)
        if len(chunk) >= UNIT_CHUNK:
            flush(chunk)
            chunk = []
    if chunk:
        flush(chunk)
    del chunk
    nsmall = count['small']
    for p in shape_bad:
        rep.finding('unlisted', p)
    for cls, p in wit_found:
        if cls in rep.known:
            rep.finding(cls, p)
        else:
            h = candidates.setdefault(cls, [0, p])       # a witness of a class that is not listed (yet): recorded, no alarm
            h[0] += 1
    for p in spec_bad:
        rep.finding('unlisted', p)
    for p in faults:
        rep.finding('sanitizer-fault', p)
    for p in att_bad:
        rep.finding('unlisted', p)
    if tot['corr'] and not rep.violations:
        rep.violation({'obligation': 'correspondence expr.c/match.c <-> Model/Eval.lean: the real evaluator and the Lean model disagree; the '
                                     'documented semantics evaluated on the implementation output found no failing input',
                       'disagreements': tot['corr'], 'examples': corr_bad}, False)
    seqstats, nonregstats = process_stage(rep, sc, random.Random(rep.seed + 1))
    import isolation; rep.coverage['isolation'] = isolation.stage(rep, proc.Tools(sc), 'C03')     # nothing leaks from one message / maildir / rule into the next (tools/isolation.py)
    vlib.lean_conclude(rep)
    rep.coverage.update({
        'evaluations': count['total'] + seqstats['runs'] + nonregstats['runs'],
        'distinct_nontrivial': len(nontriv),
        'rule': 'bounded-exhaustive trees (<= 2 rules per block, one nesting level, label/move x none/pass/break, negation) with all '
                'valuations (%d cases%s) + %d random trees x 3 messages (every operator, attachment conditions and blocks, command/'
                'isdirectory/date/body/header atoms, errors, interpolation templates, pass/break at every position of an action list and repeated; 30%% of the messages '
                'multipart, 12%% of those with a boundary out of an RFC 2047 encoded word - newline, CR, "--" - between delimiter look-alikes) + %d finding '
                'witnesses; each evaluated by the real parser + expr_eval + matches_interpolate and compared with the Lean model '
                '(exact match list) and, inside the specification domain, with the documented rule semantics; non-trivial = a tree of '
                '>= 2 rules that matched; distinct by (config, message)' % (nsmall, ', sampled' if nsmall >= limit else ', complete', nrand, count['wit']),
        'exhaustive': nsmall < limit,
        'samples': samples,
        'distribution': stats,
        'candidate_findings_not_listed': {cls: {'inputs': n, 'example': ex} for cls, (n, ex) in candidates.items()},
        'correspondence_mismatches': tot['corr'],
        'spec_failures': tot['spec'],
        'configs_shape_checked': len(seen_conf),
        'shape_mismatches': tot['shape'],
        'sanitizer_faults': tot['faults'],
        'attachment_error_parts': attstats,
        'attachment_error_parts_rule': 'attachment { ... } action blocks (alone, with move / label / pass) and attachment conditions (plain, or, negated) '
                                       'over multipart messages of 2-4 parts with ONE undecodable base64 part before / between / after parts that match '
                                       'or do not; compared with the Lean model and with the documented semantics like every other evaluation',
        'process_sequences': seqstats,
        'process_sequences_rule': 'real binary under the shim: every single action, every ordered pair of distinct actions and a sample of the '
                                  'triples (thorough: all triples, sampled quadruples) from {move A, flag new, flag !new, flags "F", label, '
                                  'add-header, exec, exec stdin, discard (alone or after a pass)}, message in new and in cur, as one rule, as two '
                                  'rules joined by pass, and (a sample) with the first rule in a nested block and a `break` before / between / after '
                                  'its actions, between a rule that does not match and a rule that would (first match wins), with a second '
                                  'message no rule matches.  Judged against the documented meaning: exit 0; the message exactly once at Spec.dest '
                                  '(driver `S dest`; sequences outside Spec.destOK = known finding F12 of C09 are not generated), flags = old '
                                  '+/- S + F, content = original + X-Label / X-Added iff such an action was selected, modification time kept '
                                  'unless rewritten, gone iff discard; the helper ran once per exec, in order, exec stdin with the message as it '
                                  'was at that point; the unmatched message keeps name, content, timestamps and is named by no mutating call; no '
                                  'stray file.  Every run also followed call by call through Model.mainP (`M conform`, final tree compared)',
        'process_nonregular': nonregstats,
        'process_nonregular_rule': 'src/new and src/cur hold two messages and symbolic links (to a regular file outside, to messages of the same '
                                   'maildir, to a directory, dangling), a FIFO and a sub-directory; rules match all move / discard / label / add-header '
                                   '/ flags / exec stdin; readdir reports the real d_type and, second run, DT_UNKNOWN (shim VSHIM_DTYPE=unknown, isfile() '
                                   'path).  Judged: every such entry, its target and the sub-directory content unchanged (lstat kind, link target, '
                                   'times) after the real run and after -d, none listed by -d, none the argument of a traced call other than '
                                   'readdir/fstatat, the two messages sorted as the rule says, the command run on them only.  Not followed through '
                                   'Model.mainP (the model\'s directories hold regular files only)',
    })
    rep.assumptions += ['evaluations whose result is decided by a pass/action pending from an enclosing block are excluded (pinned finding)',
                        'action lists with something other than pass after a pass (AFTERPASS), an attachment block after a break (ATTAFTERBREAK) or both pass '
                        'and break (MIXED) are outside the domain of the refinement theorem (Proofs.ctlPlaced); they are generated, compared with the model, '
                        'and the departures from the documented outcome are counted (coverage: outside_ctlPlaced_departing_from_documented, candidate_findings_not_listed)',
                        'matchers whose value depends on the match list (back-references in command/isdirectory, old after flags) are outside the spec domain']


def replay(rep, path):
    import isolation
    if isolation.replay_file(rep, path):
        return
    import json
    j = json.load(open(path))
    sc = vlib.Scratch()
    h, env = ec.harness(sc)
    vlib.lean_gate(rep, 'C03', sc, [])
    if j.get('family') in ('sequence', 'nonregular'):
        # process-level finding: rebuild the scenario, run the real binary again and judge it again
        tools = proc.Tools(sc)
        if j['family'] == 'sequence':
            sub, seq, split = j['source_subdir'], tuple(j['actions']), j['pass_after']
            exdev = bool(j.get('dstA_on_other_device'))
            spec = seq_spec(sub, seq, split, exdev, j.get('break_at'))
            scen = spec.build(tools)
            r = scen.run()
            probs = judge_seq(sub, seq, j['documented_place'], scen, r, exdev)
        else:
            spec = nonreg_spec(j['rule'])
            scen = spec.build(tools)
            scen.env_extra = {'VSHIM_DTYPE': 'unknown'} if j['d_type'] == 'unknown' else {}
            scen.args = ['-d']
            d = scen.run(trace=False, timeout=20)
            scen.reset()
            scen.args = []
            r = scen.run(timeout=20)
            probs = judge_nonreg(j['rule'], scen, r, d)
        print('config:\n%s' % scen.config.replace(scen.root, R))
        print('exit status %r, stderr %r' % (r.status, r.err[-400:].decode('latin-1').replace(scen.root, R)))
        print('final tree: %s' % sorted(rel for rel, v in r.final.items() if v[0] != 'dir' and not rel.startswith(('home', 'tmp'))))
        for p in probs:
            print('PROBLEM %s' % (p if isinstance(p, str) else '[%s] %s' % p))
        scen.cleanup()
        rep.coverage.update({'evaluations': 1, 'distinct_nontrivial': 1})
        return
    js = j.get('examples', [j])
    for e in js:
        req = e['request']
        out = vlib.run_batch([h], [req], env)
        print('request        %s' % req[:200])
        print('implementation %s' % out[0][:2000])
    rep.coverage.update({'evaluations': len(js), 'distinct_nontrivial': len(js)})
