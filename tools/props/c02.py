"""C02 - a crash at any instant never leaves a message without an intact copy."""
import concurrent.futures as cf
import random
import re
import vlib
import proc
import world
import worldscen as ws


def durability_oracle(scen, trace):
    """Replay a real trace under the storage model of the property: directory operations persist in
    order, file contents persist only up to the last successful fsync of that file, stdio output
    reaches the file only at fflush/fclose.  Returns problems: a name bound to the only intact copy of a
    message was removed (unlinkat / renameat over it) before another copy was complete on stable storage."""
    probs = []
    fdfile = {}      # fd -> file key (dir, name)
    stream_buf = {}  # fd -> bytes buffered in stdio
    files = {}       # (dir, name) -> {'size': written, 'durable': n, 'initial': bool}
    cur_msg = None   # (dir, name) of the message being processed (last openat RDONLY of a maildir file)
    owned = []       # files created while processing cur_msg
    for t in trace:
        if t['kind'] != 'call' or t['errno']:
            continue
        n, a = t['name'], t['args']
        if n == 'openat':
            key = (proc.unescape(a['dir']), proc.unescape(a['path']))
            fd = int(t['result'])
            if 'O_CREAT' in a.get('flags', ''):
                files[key] = {'size': 0, 'durable': 0, 'initial': False}
                owned.append(key)
            else:
                if key not in files:
                    files[key] = {'size': None, 'durable': None, 'initial': True}
                if re.search(rb'/(new|cur)$', key[0]) and files[key]['initial']:
                    cur_msg, owned = key, []
            fdfile[fd] = key
        elif n == 'fcntl':
            if int(a['fd']) in fdfile:
                fdfile[int(t['result'])] = fdfile[int(a['fd'])]
        elif n == 'fdopen':
            stream_buf[int(a['fd'])] = 0
        elif n == 'fprintf':
            stream_buf[int(a['fd'])] = stream_buf.get(int(a['fd']), 0) + int(t['result'])
        elif n == 'write':
            k = fdfile.get(int(a['fd']))
            if k in files and files[k]['size'] is not None:
                files[k]['size'] += int(t['result'])
        elif n in ('fflush', 'fclose'):
            fd = int(a['fd'])
            k = fdfile.get(fd)
            if k in files and files[k]['size'] is not None:
                files[k]['size'] += stream_buf.get(fd, 0)
            stream_buf[fd] = 0
            if n == 'fclose':
                fdfile.pop(fd, None)
        elif n == 'fsync':
            k = fdfile.get(int(a['fd']))
            if k in files and files[k]['size'] is not None:
                files[k]['durable'] = files[k]['size']
        elif n == 'close':
            fdfile.pop(int(a['fd']), None)
        elif n == 'renameat':
            old = (proc.unescape(a['olddir']), proc.unescape(a['old']))
            new = (proc.unescape(a['newdir']), proc.unescape(a['new']))
            # delivery commit: a file this run created (the stdin spool) is renamed into a maildir directory - from here on the exit
            # status may be 0, so everything written to it must already be on stable storage ("0 only if stored durably")
            if old in files and not files[old]['initial'] and re.search(rb'/(new|cur)$', new[0]) and new[0] != old[0]:
                f = files[old]
                if not f['size'] or f['durable'] != f['size']:
                    probs.append('call %d: %s/%s is renamed into %s with %s bytes written and only %s on stable storage'
                                 % (t['k'], old[0].decode('latin-1').replace(scen.root, '@R@'), old[1].decode('latin-1'),
                                    new[0].decode('latin-1').replace(scen.root, '@R@'), f['size'], f['durable']))
            if old in files:
                files[new] = files.pop(old)
                if cur_msg == old:
                    cur_msg = new
            for fd, k in list(fdfile.items()):
                if k == old:
                    fdfile[fd] = new
        elif n == 'unlinkat':
            key = (proc.unescape(a['dir']), proc.unescape(a['path']))
            f = files.get(key)
            if f is not None and key == cur_msg and f['initial']:
                # the original of the message goes away: a complete durable copy must exist unless this is a discard
                copies = [files[k] for k in owned if k in files and k != key]
                complete = [c for c in copies if c['size'] and c['durable'] == c['size']]
                if copies and not complete:
                    probs.append('call %d: original %s/%s removed while its copy has %s bytes written and %s on stable storage'
                                 % (t['k'], key[0].decode('latin-1').replace(scen.root, '@R@'), key[1].decode('latin-1'),
                                    copies[-1]['size'], copies[-1]['durable']))
            files.pop(key, None)
    return probs


def sweep(tools, W, spec, tier):
    out = []
    scen = spec.build(tools)
    try:
        clean = scen.run()
        oracle = ws.TreeOracle(scen.initial, clean.final, stdin=spec.stdin)
        ncalls = len(clean.calls())
        rec0 = {'scenario': spec.name, 'kill': None, 'problems': durability_oracle(scen, clean.trace), 'ncalls': ncalls}
        # discards are intentional removals: the oracle ignores unlinks of messages that have no copy at all
        out.append(rec0)
        reqs, metas = [], []
        for k in range(ncalls):
            scen.reset()
            r = scen.run(kill=k)
            probs = []
            if r.status != -9:
                probs.append('kill before call %d did not kill (status %r)' % (k, r.status))
            lost = oracle.no_loss(r.final)
            if spec.kind == 'stdin':
                lost = []     # killed MDA: the MTA still has the message (no exit status 0 was returned)
            for i in lost:
                probs.append('killed before call %d: message %d has no intact copy' % (k, i))
            rq, _, nts = W.request(scen, spec.pats, r, stdin=(spec.kind == 'stdin'))
            reqs.append(rq)
            metas.append((k, r, probs))
        answers = W.verdict(reqs) if reqs else []
        for (k, r, probs), ans in zip(metas, answers):
            # a killed run is a prefix of a run of the program: the only acceptable divergence is the end of the trace
            conform = 'ok'
            if ans.startswith('DIVERGE') and 'got=[end-of-trace]' in ans:
                conform = 'ok'
            elif ans.startswith('OK'):
                conform = 'ok'
            else:
                conform = ans[:300]
            out.append({'scenario': spec.name, 'kill': k, 'problems': probs, 'conform': conform})
        return out
    finally:
        scen.cleanup()


def run(rep):
    rng = random.Random(rep.seed)
    sc = vlib.Scratch()
    tools = proc.Tools(sc)
    W = world.WorldCheck(sc, tools)
    vlib.lean_gate(rep, 'C02', sc, [
        'storage model of the property: directory operations persist in order, file data persists up to the last successful fsync; '
        'stdio output reaches the file at fflush/fclose (Model/World.lean: stream buffer, File.durable)',
        'a process kill is SIGKILL delivered by the shim immediately before call k; real power failures are not reproduced',
    ])
    specs = [s for s in ws.corpus()]
    results = []
    with cf.ThreadPoolExecutor(min(vlib.NCPU, len(specs))) as ex:
        for res in ex.map(lambda s: sweep(tools, W, s, rep.tier), specs):
            results.extend(res)
    # actions inside attachment { } blocks: rejected as a whole, or an intact copy of every message survives the run and a kill before
    # every call of it (tools/attactions.py, shared with C08)
    import attactions
    att_cov = attactions.stage(rep, tools, 'C02', kills=True)
    import c02late; late_cov = c02late.stage(rep, tools)    # failures (injected / by path length) AFTER the original was removed
    deep_cov = None
    if rep.tier == 'thorough':
        # kills before every call of every scenario of every family (corpus variants, stdin deliveries, rewriting cases, exec and flag
        # sequences), in worker processes (tools/c02deep.py)
        import c02deep
        deep_cov = c02deep.stage(rep, tools, sc)
    kills = 0
    corr_bad = []
    for r in results:
        if r['kill'] is not None:
            kills += 1
        if r['problems']:
            rep.finding('unlisted', {'scenario': r['scenario'], 'kill_before_call': r['kill'], 'what': r['problems'],
                                     'replay_cmd': 'python3 tools/check.py C02 --replay <this file>'})
        elif r.get('conform', 'ok') != 'ok':
            corr_bad.append(r)
    if corr_bad and not rep.violations:
        rep.violation({'obligation': 'correspondence: a killed run is not a prefix of a run of Model.mainP', 'disagreements': len(corr_bad),
                       'examples': corr_bad[:8]}, False)
    vlib.lean_conclude(rep)
    rep.coverage.update({
        'evaluations': len(results) + (deep_cov['kills'] if deep_cov else 0),
        'distinct_nontrivial': kills + (deep_cov['kills'] if deep_cov else 0),
        'rule': '%d scenarios of the C01 corpus; the process is killed (SIGKILL from the shim) before call k for every k of the fault-free call '
                'sequence and the tree must still hold an intact copy of every message; every fault-free trace is replayed under the '
                'ordered-metadata / fsync storage model (no original may be removed before its copy is complete on stable storage); every '
                'killed run must be a prefix of a run of the Lean program; non-trivial = kill points' % len(specs),
        'samples': [r for r in results if r['kill'] is not None][:3],
        'kill_points': kills,
        'actions_inside_attachment_blocks': att_cov,
        'failures_after_the_commit_point': late_cov,
        'correspondence_mismatches': len(corr_bad),
    })
    if deep_cov:
        rep.coverage['kills_in_every_family'] = deep_cov


def replay(rep, path):
    import json
    j = json.load(open(path))
    sc = vlib.Scratch()
    tools = proc.Tools(sc)
    vlib.lean_gate(rep, 'C02', sc, [])
    if j.get('stage') == 'attachment-actions':
        import attactions
        attactions.replay(tools, j)
        rep.coverage.update({'evaluations': 1, 'distinct_nontrivial': 1})
        return
    if j.get('stage') == 'kill-families':
        import c02deep
        c02deep.replay(tools, sc, j)
        rep.coverage.update({'evaluations': 1, 'distinct_nontrivial': 1})
        return
    if j.get('stage') == 'late-failure':
        import c02late
        c02late.replay(tools, j)
        rep.coverage.update({'evaluations': 1, 'distinct_nontrivial': 1})
        return
    spec = [s for s in ws.corpus() if s.name == j.get('scenario')]
    if spec:
        scen = spec[0].build(tools)
        r = scen.run(kill=j.get('kill_before_call'))
        print('exit status', r.status)
        for t in r.trace:
            print(t['raw'].replace(scen.root, '@R@'))
        for rel in sorted(ws.maildir_files(r.final)):
            print('file', rel)
    rep.coverage.update({'evaluations': 1, 'distinct_nontrivial': 1})
