"""C05 - dry run (-d) and syntax check (-n) never change anything."""
import concurrent.futures as cf
import random
import re
import vlib
import proc
import world
import worldscen as ws
import gen_rules

MUTATING = {'renameat', 'unlinkat', 'unlink', 'utimensat', 'fprintf', 'write', 'mkostemp', 'mkstemp', 'mkdir', 'mkdtemp', 'rmdir', 'fork'}


def tree_equal(a, b):
    """Same files, contents and modification times below the maildirs (and everywhere else but tmp/)."""
    probs = []
    ka = {k: v for k, v in a.items() if not k.startswith('tmp')}
    kb = {k: v for k, v in b.items() if not k.startswith('tmp')}
    for k in sorted(set(ka) | set(kb)):
        if k not in kb:
            probs.append('%s disappeared' % k)
        elif k not in ka:
            probs.append('%s appeared' % k)
        elif ka[k][0] != kb[k][0] or ka[k][1] != kb[k][1]:
            probs.append('%s: content changed' % k)
        elif ka[k][2] != kb[k][2]:
            probs.append('%s: modification time changed' % k)
    return probs


def one(tools, W, spec, conformable=True):
    out = []
    scen = spec.build(tools)
    try:
        for flag in ('-d', '-n'):
            scen.reset()
            scen.args = [flag] + list(spec.args)
            r = scen.run()
            probs = tree_equal(scen.initial, r.final)
            left = ws.tmp_entries(r.final)
            if left:
                probs.append('left behind in TMPDIR: %s' % left)
            if r.helper:
                probs.append('a command was executed: %s' % r.helper[:2])
            calls = r.calls()
            if flag == '-n':
                names = [c['name'] for c in calls]
                if names not in (['fopen', 'fclose'], ['fopen']):
                    probs.append('-n issued calls beyond reading the configuration: %s' % names[:12])
            else:
                fdpath = {}
                nforks_allowed = len(re.findall(r'\bcommand\b', scen.config)) * 64
                for c in calls:
                    if c['name'] == 'openat' and not c['errno']:
                        fdpath[c['result']] = c['args'].get('dir', '')
                    if c['name'] in MUTATING or (c['name'] == 'openat' and 'O_CREAT' in c['args'].get('flags', '')):
                        where = c['raw'].replace(scen.root, '@R@')
                        if c['name'] == 'write':
                            where += ' (file in %s)' % fdpath.get(c['args'].get('fd'), '?').replace(scen.root, '@R@')
                        if spec.kind == 'stdin' and ('@R@/tmp' in where) and c['name'] != 'fork':
                            continue      # the spool below TMPDIR is created and removed
                        if c['name'] == 'fork' and nforks_allowed > 0:
                            nforks_allowed -= 1   # command conditions may run (they are conditions, not exec actions)
                            continue
                        probs.append('-d issued a mutating call: %s' % where[:200])
            conform = 'skipped'
            if conformable:
                rq, _, nts = W.request(scen, spec.pats, r, dry=(flag == '-d'), syntax=(flag == '-n'), stdin=(spec.kind == 'stdin'))
                ans = W.verdict([rq])[0]
                conform, detail = world.compare(scen, r, ans)
                if conform != 'ok':
                    conform = conform + ': ' + detail[:300]
            out.append({'scenario': spec.name, 'flag': flag, 'status': r.status, 'problems': probs, 'conform': conform,
                        'ncalls': len(calls), 'config': scen.config.replace(scen.root, '@R@')[:600]})
        return out
    finally:
        scen.args = list(spec.args)
        scen.cleanup()


def random_specs(rng, n):
    specs = []
    for i in range(n):
        g = gen_rules.Gen(rng, depth=rng.choice([0, 1, 2]), rules_max=3)
        conf = g.config().replace('~/md', '@R@/home/md').replace('~/dst', '@R@/home/dst').replace('~/yes', '@R@/home/yes').replace('~/no', '@R@/home/no')
        # exec actions must be observable
        conf = re.sub(r'(exec (?:stdin )?(?:body )?(?:\{ )?)"(?:true|echo)"', r'\1"@HELPER@"', conf)
        tree = {}
        msgs = {}
        for k in range(1, 4):
            truth = [rng.random() < 0.6 for _ in range(gen_rules.ATOMS)]
            m = gen_rules.message(rng, truth, mime=rng.random() < 0.3)
            msgs[(rng.choice(['new', 'cur']), '%d.host' % k)] = b'X-Id: %d\n' % k + m
        tree.update(proc.maildir_tree('home/md', msgs))
        for d in 'abc':
            tree.update(proc.maildir_tree('home/dst/' + d, {}))
        tree['home/yes'] = None
        specs.append((ws.Spec('random-%d' % i, conf, list(g.patterns), tree=tree), not re.search(r'command|isdirectory|date', conf)))
    return specs


def run(rep):
    rng = random.Random(rep.seed)
    sc = vlib.Scratch()
    tools = proc.Tools(sc)
    W = world.WorldCheck(sc, tools)
    vlib.lean_gate(rep, 'C05', sc, [
        'file-system observation: snapshot (names, contents, mtimes) before/after, the shim trace of every libc call, the exec helper log',
    ])
    specs = [(s, True) for s in ws.corpus()]
    # configurations whose real run would fail
    R = '@R@'
    specs.append((ws.Spec('missing-destination', 'maildir "%s/src" {\n\tmatch all move "%s/nonexistent"\n}\n' % (R, R)), True))
    specs.append((ws.Spec('bad-backref', 'maildir "%s/src" {\n\tmatch all label "\\\\1" exec "@HELPER@"\n}\n' % R), True))
    specs.append((ws.Spec('pass-then-nomatch', 'maildir "%s/src" {\n\tmatch all label "x" exec "@HELPER@" pass\n\tmatch header "X-Id" /nomatch/ move "%s/dst"\n}\n' % (R, R),
                          [('nomatch', '')]), True))
    t = ws.base_tree(1, 0)
    t['src/new/9.host'] = ws.MIME
    specs.append((ws.Spec('attachment-last-nomatch', 'maildir "%s/src" {\n\tmatch all attachment { match header "Content-Type" /plain/ exec stdin "@HELPER@" }\n}\n' % R,
                          [('plain', '')], tree=t), True))
    specs += random_specs(rng, 25 if rep.tier == 'quick' else 600)
    results = []
    with cf.ThreadPoolExecutor(vlib.NCPU) as ex:
        for res in ex.map(lambda sp: one(tools, W, sp[0], sp[1]), specs):
            results.extend(res)
    corr_bad = []
    for r in results:
        if r['problems']:
            rep.finding('unlisted', {'scenario': r['scenario'], 'option': r['flag'], 'exit_status': r['status'], 'what': r['problems'][:6],
                                     'config': r['config']})
        elif r['conform'] not in ('ok', 'skipped'):
            corr_bad.append(r)
    if corr_bad and not rep.violations:
        rep.violation({'obligation': 'correspondence: a -d / -n run does not follow Model.mainP', 'disagreements': len(corr_bad),
                       'examples': corr_bad[:6]}, False)
    vlib.lean_conclude(rep)
    rep.coverage.update({
        'evaluations': len(results),
        'distinct_nontrivial': len([r for r in results if r['flag'] == '-d' and r['ncalls'] > 6]),
        'rule': '%d configurations (the C01 scenario corpus incl. stdin mode, two whose real run fails, %d generated rule trees with exec '
                'actions over 3-message populations), each run with -d and with -n on the real binary: tree snapshot (names, contents, '
                'mtimes) unchanged, TMPDIR empty, no command executed, no mutating libc call inside a maildir (-d) / no call beyond the '
                'configuration file (-n); where the configuration is within the world model, call-by-call conformance with Model.mainP; '
                'non-trivial = dry runs that actually walked messages' % (len(specs), len(specs) - len(ws.corpus()) - 2),
        'samples': results[:2],
        'correspondence_mismatches': len(corr_bad),
    })


def replay(rep, path):
    import json
    j = json.load(open(path))
    print(json.dumps(j, indent=1)[:3000])
    sc = vlib.Scratch()
    vlib.lean_gate(rep, 'C05', sc, [])
    rep.coverage.update({'evaluations': 1, 'distinct_nontrivial': 1})
