"""C05 - dry run (-d) and syntax check (-n) never change anything."""
import concurrent.futures as cf
import random
import re
import vlib
import proc
import world
import worldscen as ws
import cmdline
import gen_rules
import mdshapes

MUTATING = {'renameat', 'unlinkat', 'unlink', 'utimensat', 'fprintf', 'write', 'mkostemp', 'mkstemp', 'mkdir', 'mkdtemp', 'rmdir', 'fork'}


def tree_equal(a, b):
    """Same files, contents and modification times below the maildirs (and everywhere else but tmp/)."""
    probs = []
    ka = {k: v for k, v in a.items() if not k.startswith('tmp')}
    kb = {k: v for k, v in b.items() if not k.startswith('tmp')}
    for k in sorted(set(ka) | set(kb)):
        if k not in kb:
            probs.append('%s disappeared' % k)
        elif k not in ka:
            probs.append('%s appeared' % k)
        elif ka[k][0] != kb[k][0] or ka[k][1] != kb[k][1]:
            probs.append('%s: content changed' % k)
        elif ka[k][2] != kb[k][2]:
            probs.append('%s: modification time changed' % k)
    return probs


def dirs_equal(scen):
    """Directories (outside TMPDIR) and their modification times, on the sandbox as the run left it."""
    probs = []
    now = proc.dir_mtimes(scen.root)
    for d in sorted(set(now) | set(scen.initial_dirs)):
        if d not in now:
            probs.append('directory %s disappeared' % d)
        elif d not in scen.initial_dirs:
            probs.append('directory %s appeared' % d)
        elif now[d] != scen.initial_dirs[d]:
            probs.append('directory %s: modification time changed (an entry was created, removed or renamed in it)' % d)
    return probs


def one(tools, W, spec, conformable=True):
    out = []
    scen = spec.build(tools)
    try:
        for flag in ('-d', '-n'):
            scen.reset()
            scen.args = [flag] + list(spec.args)
            # a scenario may name one call that fails (mdshapes: a directory that cannot be read): the index of that call in THIS run
            fail = mdshapes.fault_plan(scen, spec.fail_on) if getattr(spec, 'fail_on', None) else None
            r = scen.run(fail=fail)
            probs = tree_equal(scen.initial, r.final) + dirs_equal(scen)
            left = ws.tmp_entries(r.final)
            if left:
                probs.append('left behind in TMPDIR: %s' % left)
            if abnormal(r.status):
                probs.append('abnormal termination (exit status %r): %s' % (r.status, r.err[-200:].decode('latin-1')))
            if r.helper:
                probs.append('a command was executed: %s' % r.helper[:2])
            calls = r.calls()
            if flag == '-n':
                names = [c['name'] for c in calls]
                if names not in (['fopen', 'fclose'], ['fopen']):
                    probs.append('-n issued calls beyond reading the configuration: %s' % names[:12])
            else:
                fdpath = {}
                nforks_allowed = len(re.findall(r'\bcommand\b', scen.config)) * 64
                for c in calls:
                    if c['name'] == 'openat' and not c['errno']:
                        fdpath[c['result']] = c['args'].get('dir', '')
                    if c['name'] in MUTATING or (c['name'] == 'openat' and 'O_CREAT' in c['args'].get('flags', '')):
                        where = c['raw'].replace(scen.root, '@R@')
                        if c['name'] == 'write':
                            where += ' (file in %s)' % fdpath.get(c['args'].get('fd'), '?').replace(scen.root, '@R@')
                        if spec.kind == 'stdin' and ('@R@/tmp' in where) and c['name'] != 'fork':
                            continue      # the spool below TMPDIR is created and removed
                        if c['name'] == 'fork' and nforks_allowed > 0:
                            nforks_allowed -= 1   # command conditions may run (they are conditions, not exec actions)
                            continue
                        probs.append('-d issued a mutating call: %s' % where[:200])
            conform = 'skipped'
            if conformable:
                rq, _, nts = W.request(scen, spec.pats, r, dry=(flag == '-d'), syntax=(flag == '-n'), stdin=(spec.kind == 'stdin'))
                ans = W.verdict([rq])[0]
                conform, detail = world.compare(scen, r, ans)
                if conform != 'ok':
                    conform = conform + ': ' + detail[:300]
            if getattr(spec, 'shape', None) and flag == '-d' and spec.broken and spec.walks_brk:
                # C04 under -d: a configured maildir that cannot be read is an error of the run, and it is said which one
                if r.status == 0:
                    probs.append('-d over a maildir that cannot be read (%s): exit status 0' % spec.shape)
                if b'brk' not in r.err:
                    probs.append('-d over a maildir that cannot be read (%s): no diagnostic names it: %r' % (spec.shape, r.err[-200:]))
            out.append({'scenario': spec.name, 'flag': flag, 'status': r.status, 'problems': probs, 'conform': conform,
                        'ncalls': len(calls), 'config': scen.config.replace(scen.root, '@R@')[:600], 'fault_plan': fail,
                        'stderr': r.err[-300:].decode('latin-1').replace(scen.root, '@R@'),
                        'explained': flag == '-d' and b'^' in r.out and b'$\n' in r.out})
        return out
    finally:
        scen.args = list(spec.args)
        scen.cleanup()


def random_specs(rng, n):
    specs = []
    for i in range(n):
        g = gen_rules.Gen(rng, depth=rng.choice([0, 1, 2]), rules_max=3)
        conf = g.config().replace('~/md', '@R@/home/md').replace('~/dst', '@R@/home/dst').replace('~/yes', '@R@/home/yes').replace('~/no', '@R@/home/no')
        # exec actions must be observable
        conf = re.sub(r'(exec (?:stdin )?(?:body )?(?:\{ )?)"(?:true|echo)"', r'\1"@HELPER@"', conf)
        tree = {}
        msgs = {}
        for k in range(1, 4):
            truth = [rng.random() < 0.6 for _ in range(gen_rules.ATOMS)]
            m = gen_rules.message(rng, truth, mime=rng.random() < 0.3)
            msgs[(rng.choice(['new', 'cur']), '%d.host' % k)] = b'X-Id: %d\n' % k + m
        tree.update(proc.maildir_tree('home/md', msgs))
        for d in 'abc':
            tree.update(proc.maildir_tree('home/dst/' + d, {}))
        tree['home/yes'] = None
        specs.append((ws.Spec('random-%d' % i, conf, list(g.patterns), tree=tree), not re.search(r'command|isdirectory|date', conf)))
    return specs


# --------------------------------------------------------------------------
# (a) -d on message CONTENT that drives the explanation printer (expr_inspect) into its corner cases, in stdin mode
#     (where a run that dies leaves the spool behind) and in maildir mode
# --------------------------------------------------------------------------

LONG = 5000
BODIES = [
    b'Hello,\n    indented paragraph word\nBye\n',
    b'\tword on a tabbed line\n \t mixed blanks word\n',
    b'first\n\n\n   word after empty lines\n',
    b'   word at the very start of the body\n',
    b'no newline at the end   word',
    b'a\n \n  \n   \nword\n\t\n',
    b'caf\xc3\xa9 \xe2\x82\xac\n  \xc3\xa9word \xf0\x9f\x98\x80 tail\n\xe2\x80\x83word\n',
    b'\xff\xfe   word \x80\n  \xc3word\n',
    b'x' * LONG + b'   word ' + b'y' * LONG + b'\n   word\n',
    b' ' * 3000 + b'word\n' + b'\t' * 700 + b'word\n',
    b'word\n' * 300,
    b'line\r\n   word\r\n\r\n',
    b'\n',
    b'',
    b'  \n',
    b'word',
]
HEADERS = [
    b'X-Fold: first\n\tword second\n   third word\n',
    b'X-Fold:    word\n',
    b'X-Fold:\n',
    b'X-Fold: \n\tword\n',
    b'X-Fold: ' + b'z' * 3000 + b'\n word\n',
    b'X-Fold: =?UTF-8?Q?caf=C3=A9?=\n =?UTF-8?Q?_word?= \xc3\xa9 word\n',
    b'X-Fold: one\nX-Fold:   word two\n',
]
# (pattern, flags): matches that begin in the leading blanks of a line, at a newline, empty matches, whole value, sub-expressions
PATTERNS = [
    ('^[[:space:]]*word', ''), ('[[:space:]]+word', ''), ('^ +indented', ''), ('( *)(word)', ''), ('(^|[[:space:]])word', ''),
    ('[[:space:]]*$', ''), ('^[[:space:]]+', ''), ('^', ''), ('$', ''), ('x*', ''), ('()', ''), ('(a|)(word|)', ''), ('.*', ''),
    ('(.*)word(.*)', ''), ('[[:space:]]word[[:space:]]', ''), ('WORD', 'i'), ('([[:space:]]*)(W)(ORD)', 'il'), ('word', 'u'),
    ('[^a-z]+word', ''), ('(\t| )+word', ''), ('^.{0,6000}word', ''), ('[[:space:]]{2,}', ''), ('\xc3\xa9', ''), ('[\x80-\xff]+', ''),
]
CORE = [0, 1, 3, 7]


def content_message(i, body=None, header=b''):
    return ws.msg(i, extra=header, body=body if body is not None else b'plain body word\n')


def content_conf(rng, conds, mode):
    """conds: list of ('body'|'header', pattern, flags)"""
    parts, pats = [], []
    for kind, p, f in conds:
        parts.append(('body /%s/%s' % (p, f)) if kind == 'body' else ('header "X-Fold" /%s/%s' % (p, f)))
        pats.append((p, f))
    expr = parts[0]
    for q in parts[1:]:
        expr += rng.choice([' and ', ' or ']) + q
    action = rng.choice(['move "@R@/dst"', 'move "@R@/dst"', 'label "l" move "@R@/dst"', 'flags "F" move "@R@/dst"', 'exec "@HELPER@" move "@R@/dst"',
                         'add-header "X-A" "\\\\0" move "@R@/dst"', 'discard'])
    head = 'stdin' if mode == 'stdin' else 'maildir "@R@/src"'
    return '%s {\n\tmatch %s %s\n}\n' % (head, expr, action), pats


def content_specs(rng, tier):
    cases = []
    for b in range(len(BODIES)):
        for p in CORE:
            cases.append((b, None, [('body',) + PATTERNS[p]]))
    for h in range(len(HEADERS)):
        for p in CORE[:3]:
            cases.append((None, h, [('header',) + PATTERNS[p]]))
    for _ in range(40 if tier == 'quick' else 1500):
        conds = []
        for _k in range(rng.choice([1, 1, 2])):
            conds.append((rng.choice(['body', 'body', 'header']),) + rng.choice(PATTERNS))
        cases.append((rng.randrange(len(BODIES)) if rng.random() < 0.8 else None, rng.randrange(len(HEADERS)) if rng.random() < 0.6 else None, conds))
    specs = []
    for n, (b, h, conds) in enumerate(cases):
        mode = 'stdin' if n % 4 != 3 else 'maildir'
        conf, pats = content_conf(rng, conds, mode)
        m = content_message(7, BODIES[b] if b is not None else None, HEADERS[h] if h is not None else b'')
        tree = {}
        tree.update(proc.maildir_tree('dst', {}))
        if mode == 'stdin':
            sp = ws.Spec('content-%d' % n, conf, pats, tree=tree, stdin=m, args=['-'], kind='stdin')
        else:
            tree.update(proc.maildir_tree('src', {('new', '7.host'): m, ('cur', '8.host:2,S'): m.replace(b'X-Id: 7', b'X-Id: 8')}))
            sp = ws.Spec('content-%d' % n, conf, pats, tree=tree)
        sp.what = {'mode': mode, 'body': b, 'header': h, 'conditions': [list(c) for c in conds]}
        specs.append(sp)
    return specs


# --------------------------------------------------------------------------
# (b) single faults while -d runs (stdin mode: while the spool is set up, read and torn down)
# (c) TMPDIR so long that <spool>/new does not fit PATH_MAX
# --------------------------------------------------------------------------

def abnormal(status):
    """Killed by a signal (abort, segmentation fault), hung, or an exit status a shell would report as such."""
    return not isinstance(status, int) or status < 0 or status >= 126


def new_tmp_entries(scen, final):
    return [rel for rel in ws.tmp_entries(final) if rel not in scen.initial]


def judge_dry(scen, r, excused_cleanup=False):
    probs = tree_equal(scen.initial, r.final)
    left = new_tmp_entries(scen, r.final)
    excused = False
    if left:
        if excused_cleanup:
            excused = True     # failures of the best-effort removal itself: known finding F17e (C01/C04 treat it the same way)
        else:
            probs.append('left behind in TMPDIR: %s' % [l[-60:] for l in left[:4]])
    if r.helper:
        probs.append('a command was executed: %s' % r.helper[:2])
    if abnormal(r.status):
        probs.append('abnormal termination (exit status %r): %s' % (r.status, r.err[-200:].decode('latin-1')))
    elif r.status not in (0, 1, 75):
        probs.append('exit status %r (must be 0, 1 or 75)' % (r.status,))
    return probs, excused


def dry_fault_sweep(tools, spec, tier):
    out = []
    scen = spec.build(tools)
    try:
        scen.args = ['-d'] + list(spec.args)
        clean = scen.run()
        calls = clean.calls()
        probs, _ = judge_dry(scen, clean)
        out.append({'scenario': spec.name, 'plan': None, 'status': clean.status, 'problems': probs, 'fired': False, 'excused': False,
                    'ncalls': len(calls), 'call': ''})
        for k, c in enumerate(calls):
            errs = ws.ERRNOS.get(c['name'], ['EIO'])
            for e in (errs[:2] if tier == 'quick' else errs):
                scen.reset()
                r = scen.run(fail='%d:%s' % (k, e))
                fired = any(t.get('fault') for t in r.trace if t['kind'] == 'call')
                cleanup = spec.kind == 'stdin' and any(calls[j]['name'] == 'rewinddir' for j in range(0, k + 1))
                probs, excused = judge_dry(scen, r, excused_cleanup=cleanup)
                out.append({'scenario': spec.name, 'plan': '%d:%s' % (k, e), 'call': c['raw'].replace(scen.root, '@R@')[:160], 'status': r.status,
                            'problems': probs, 'fired': fired, 'excused': excused, 'config': scen.config.replace(scen.root, '@R@')[:300]})
        return out
    finally:
        scen.args = list(spec.args)
        scen.cleanup()


def deep_dir(prefix, total):
    """A path below `prefix` of exactly `total` characters, components of at most 200 characters (cf. c18.deep)."""
    rem = total - len(prefix)
    assert rem >= 2
    p, k = prefix, 0
    while rem > 202:
        p += '/' + ('d%d' % (k % 10)) + 'y' * 198
        rem -= 201
        k += 1
    for part in ([rem] if rem <= 201 else [101, 101]):
        p += '/' + 'e' * (part - 1)
    assert len(p) == total, (len(p), total)
    return p


def long_tmpdir(tools, spec, total):
    """-d - with TMPDIR an existing directory whose path has exactly `total` characters."""
    import os
    scen = spec.build(tools)
    try:
        T = deep_dir(os.path.join(scen.root, 'tmp'), total)
        os.makedirs(T)
        scen.initial = proc.snapshot(scen.root, skip=('conf',))
        scen.env_extra = dict(scen.env_extra, TMPDIR=T)
        scen.args = ['-d'] + list(spec.args)
        r = scen.run(trace=False)
        probs, _ = judge_dry(scen, r)
        fits = total + 1 + len('mdsort-XXXXXXXX') + 4 < 4096
        if not fits and r.status == 0:
            probs.append('TMPDIR of %d characters: the spool path does not fit PATH_MAX but the exit status is 0' % total)
        return {'scenario': spec.name, 'plan': 'TMPDIR of %d characters' % total, 'status': r.status, 'problems': probs, 'fired': not fits,
                'excused': False, 'call': '', 'config': scen.config.replace(scen.root, '@R@')[:300], 'stderr': r.err[-160:].decode('latin-1')}
    finally:
        scen.args = list(spec.args)
        scen.cleanup()


def run(rep):
    rng = random.Random(rep.seed)
    sc = vlib.Scratch()
    tools = proc.Tools(sc)
    W = world.WorldCheck(sc, tools)
    vlib.lean_gate(rep, 'C05', sc, [
        'file-system observation: snapshot (names, contents, mtimes) before/after, the shim trace of every libc call, the exec helper log',
    ])
    specs = [(s, True) for s in ws.corpus()]
    # configurations whose real run would fail
    R = '@R@'
    specs.append((ws.Spec('missing-destination', 'maildir "%s/src" {\n\tmatch all move "%s/nonexistent"\n}\n' % (R, R)), True))
    specs.append((ws.Spec('bad-backref', 'maildir "%s/src" {\n\tmatch all label "\\\\1" exec "@HELPER@"\n}\n' % R), True))
    specs.append((ws.Spec('pass-then-nomatch', 'maildir "%s/src" {\n\tmatch all label "x" exec "@HELPER@" pass\n\tmatch header "X-Id" /nomatch/ move "%s/dst"\n}\n' % (R, R),
                          [('nomatch', '')]), True))
    t = ws.base_tree(1, 0)
    t['src/new/9.host'] = ws.MIME
    specs.append((ws.Spec('attachment-last-nomatch', 'maildir "%s/src" {\n\tmatch all attachment { match header "Content-Type" /plain/ exec stdin "@HELPER@" }\n}\n' % R,
                          [('plain', '')], tree=t), True))
    nrandom = 25 if rep.tier == 'quick' else 600
    specs += random_specs(rng, nrandom)
    # the same configurations over maildirs IN USE: remains of deliveries of several ages in tmp/, dot files and empty files in new/ and
    # cur/, other files and directories in the maildir (worldscen.clutter), every directory with a modification time in the past
    cluttered = [(ws.with_clutter(s), c) for s, c in specs]
    specs += cluttered
    cspecs = content_specs(rng, rep.tier)
    what = {s.name: s.what for s in cspecs}
    stdin_msg = {s.name: s.stdin for s in cspecs if s.kind == 'stdin'}
    specs += [(s, True) for s in cspecs]
    # maildirs that are not complete maildirs (a sub-directory missing, a file or a link in its place, unreadable), alone, next to a
    # healthy maildir and as a destination: -d / -n leave them exactly as they are
    sspecs = mdshapes.specs(rep.tier)
    shape_of = {s.name: {'shape': s.shape, 'layout': s.layout, 'action': s.action,
                         'tree': sorted(k + ('/' if v is None else ' -> ' + v[1] if isinstance(v, tuple) else '') for k, v in s.tree.items()
                                        if k.split('/')[0] in ('brk', 'real', 'elsewhere'))} for s in sspecs}
    specs += [(s, s.conformable) for s in sspecs]
    results = []
    with cf.ThreadPoolExecutor(vlib.NCPU) as ex:
        for res in ex.map(lambda sp: one(tools, W, sp[0], sp[1]), specs):
            results.extend(res)
        sreal = list(ex.map(lambda sp: mdshapes.run_real(tools, sp), sspecs))
    results.extend(sreal)
    # (b) single faults under -d: every stdin scenario (spool set-up, reading, tear-down), two with explanations to print, and maildir ones
    corpus = ws.corpus()
    fspecs = [s for s in corpus if s.kind == 'stdin'] + [s for s in cspecs if s.kind == 'stdin'][:2]
    fspecs += [s for s in corpus if s.kind != 'stdin' and (rep.tier != 'quick' or s.name in ('move', 'label', 'exec-body'))]
    fres = []
    with cf.ThreadPoolExecutor(vlib.NCPU) as ex:
        for res in ex.map(lambda s: dry_fault_sweep(tools, s, rep.tier), fspecs):
            fres.extend(res)
    # (c) TMPDIR length around the point where <TMPDIR>/mdsort-XXXXXXXX fits PATH_MAX and <spool>/new does not
    limit = 4096 - 1 - len('mdsort-XXXXXXXX') - 4
    lspec = [s for s in corpus if s.name == 'stdin-move'][0]
    with cf.ThreadPoolExecutor(vlib.NCPU) as ex:
        # second window: where the path of the spooled message itself (<spool>/new/<22-character name>) stops fitting: there the spool
        # has been written before the run fails
        lengths = list(range(limit - 23 - 8, limit - 23 + 9)) + list(range(limit - 8, limit + 9))
        lres = list(ex.map(lambda t: long_tmpdir(tools, lspec, t), lengths))
    corr_bad = []
    for r in results:
        if r['problems']:
            rep.finding('unlisted', dict({'scenario': r['scenario'], 'option': r['flag'], 'exit_status': r['status'], 'what': r['problems'][:6],
                                          'config': r['config']},
                                         **({'content_case': what[r['scenario']], 'stdin_message': repr(stdin_msg.get(r['scenario'], b''))[:1500]}
                                            if r['scenario'] in what else {}),
                                         **({'maildir_shape': shape_of[r['scenario']], 'fault_plan': r.get('fault_plan'), 'stderr': r.get('stderr')}
                                            if r['scenario'] in shape_of else {}),
                                         **({'every_maildir_also_holds': {rel[2:]: 'mtime = pinned clock %+d s' % (t // 10**9 - ws.NOW)
                                                                          for rel, t in sorted(ws.clutter('M')[1].items())}}
                                            if r['scenario'].endswith('+clutter') else {})))
        elif r['conform'] not in ('ok', 'skipped'):
            corr_bad.append(r)
    for r in fres + lres:
        if r['problems']:
            rep.finding('unlisted', {'scenario': r['scenario'], 'option': '-d', 'fault_plan': r['plan'], 'call': r['call'], 'exit_status': r['status'],
                                     'what': r['problems'][:6], 'config': r.get('config', ''), 'stderr': r.get('stderr', '')})
    # (d) every value taken from the environment at lengths around the buffer it is copied into (tools/envlen.py): -d changes nothing, -n opens nothing
    import envlen; rep.coverage['environment_length'] = envlen.stage(rep, sc, tools, modes=('dry', 'syntax', 'dry-stdin', 'syntax-stdin'), tier=rep.tier, focus='dry')
    if corr_bad and not rep.violations:
        rep.violation({'obligation': 'correspondence: a -d / -n run does not follow Model.mainP', 'disagreements': len(corr_bad),
                       'examples': corr_bad[:6]}, False)
    rep.coverage['command_line_modes'] = cmdline.stage(rep, sc, tools, W, accepted_only=True)      # which mode the options select (tools/cmdline.py)
    vlib.lean_conclude(rep)
    rep.coverage.update({
        'evaluations': len(results),
        'distinct_nontrivial': len([r for r in results if r['flag'] == '-d' and r['ncalls'] > 6]),
        'rule': '%d configurations (the C01 scenario corpus incl. stdin mode, four whose real run fails or ends early, %d generated rule trees '
                'with exec actions over 3-message populations, the explanation-content family below), each run with -d and with -n on the '
                'real binary: tree snapshot (names, contents, '
                'mtimes) unchanged, TMPDIR empty, no command executed, no mutating libc call inside a maildir (-d) / no call beyond the '
                'configuration file (-n); where the configuration is within the world model, call-by-call conformance with Model.mainP; '
                'every one of these also over maildirs in use (worldscen.clutter: files of several ages, a dot file, a directory and a dangling '
                'link in tmp/, dot files and empty files in new/ and cur/, files, a Maildir++ sub-folder and another directory in the maildir '
                'itself, every directory backdated) - the snapshot includes the modification times of all directories outside TMPDIR; '
                'non-trivial = dry runs that actually walked messages' % (len(specs), nrandom),
        'samples': results[:2],
        'correspondence_mismatches': len(corr_bad),
        'maildirs_in_use': {'configurations': len(cluttered),
                            'conform_ok': len([r for r in results if r['scenario'].endswith('+clutter') and r['conform'] == 'ok'])},
        'maildir_shapes': {
            'configurations': len(sspecs), 'shapes': sorted(mdshapes.SHAPES), 'layouts': sorted(mdshapes.LAYOUTS),
            'dry_runs_reporting_the_unreadable_maildir': len([r for r in results if r['scenario'] in shape_of and r['flag'] == '-d' and r['status'] == 1]),
            'real_runs': len(sreal), 'real_runs_reporting_an_error': len([r for r in sreal if r['status'] not in (0,)]),
            'real_runs_that_moved_messages_of_the_healthy_maildir': len([r for r in sreal if r.get('moved')]),
            'conform_ok': len([r for r in results if r['scenario'] in shape_of and r['conform'] == 'ok']),
            'rule': 'a configured maildir in %d shapes (new/, cur/, both or tmp/ missing; a regular file, a link to a directory or a dangling '
                    'link in the place of a sub-directory; the root missing, a file, a link to a maildir; opendir of new/ or cur/ failing with '
                    'EACCES from the shim) x %d layouts (alone; first / last of two maildirs of one block; in a block before / after the block of a '
                    'healthy maildir; as the destination of a move) x move / flag: -d and -n judged like every other configuration - the tree '
                    'incl. the modification times of all directories (backdated) is exactly as before, no mutating call, -n opens nothing - and -d '
                    'exits non-zero with a diagnostic naming the maildir it could not read; the real run of the same scenario: non-zero exit and a '
                    'diagnostic iff mdsort needs a directory that is not there, no directory or link created, removed or changed, every message '
                    'exactly once and unchanged, the messages of the healthy maildir at their destination' % (len(mdshapes.SHAPES), len(mdshapes.LAYOUTS)),
        },
        'explanation_content': {
            'configurations': len(cspecs), 'stdin_mode': len([s for s in cspecs if s.kind == 'stdin']),
            'dry_runs_that_printed_an_explanation': len([r for r in results if r['scenario'] in what and r['flag'] == '-d' and r.get('explained')]),
            'rule': '%d bodies x %d header blocks x %d patterns (every body/header with 4 core patterns, the rest sampled; 3 of 4 in stdin mode, '
                    '1 of 4 as a maildir): matches beginning in the leading blanks of a line, at a newline, empty matches, lines of %d bytes, '
                    'thousands of leading blanks, multibyte and invalid UTF-8, CRLF, folded / empty / repeated headers; judged like every other '
                    'configuration (tree unchanged, TMPDIR empty, nothing executed, no mutating call, -d/-n conformance with Model.mainP) and the '
                    'run must not end by a signal' % (len(BODIES), len(HEADERS), len(PATTERNS), LONG),
        },
        'dry_faults': {
            'scenarios': [s.name for s in fspecs], 'runs': len(fres), 'faults_fired': len([r for r in fres if r['fired']]),
            'spool_left_by_failing_cleanup_call_F17e': len([r for r in fres if r['excused']]),
            'exit_status_histogram': {str(k): len([r for r in fres if r['status'] == k]) for k in sorted(set(r['status'] for r in fres), key=str)},
            'rule': 'one -d run per (call index, errno/short) of the call sequence of the fault-free -d run: maildirs identical (names, contents, '
                    'mtimes), nothing new below TMPDIR unless the failing call is at or after the rewinddir of the best-effort spool removal '
                    '(known finding F17e, as in C01/C04), nothing executed, exit status 0/1/75 and never a signal',
        },
        'long_tmpdir': {
            'lengths': [int(r['plan'].split()[2]) for r in lres], 'rejected': len([r for r in lres if r['status'] == 75]),
            'rule': '-d - with TMPDIR an existing directory of every length within +-8 of the points where the path of the spooled message and '
                    'where <TMPDIR>/mdsort-XXXXXXXX/new stop fitting PATH_MAX: nothing new below TMPDIR, maildirs identical, exit status 0/75 and '
                    '75 when the spool directory does not fit',
        },
    })
    rep.coverage['evaluations'] += len(fres) + len(lres)
    rep.coverage['distinct_nontrivial'] += len([r for r in fres if r['fired']]) + len([r for r in lres if r['fired']])


def replay(rep, path):
    import json
    j = json.load(open(path))
    print(json.dumps(j, indent=1)[:3000])
    sc = vlib.Scratch()
    vlib.lean_gate(rep, 'C05', sc, [])
    rep.coverage.update({'evaluations': 1, 'distinct_nontrivial': 1})
