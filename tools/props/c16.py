"""C16 - the transfer decoders are correct and total."""
import itertools
import random
import base64
import vlib

ALPHABET = [b'A', b'Q', b'g', b'=', b'?', b'_', b' ', b'\n', b'\t', b'/', b'+', b'-', b'0', b'F']
OPS = ['b64', 'b64raw', 'qp', 'qph', 'r2047']


def exhaustive(maxlen):
    for n in range(maxlen + 1):
        for t in itertools.product(ALPHABET, repeat=n):
            yield b''.join(t)


def nonul(bs):
    return bytes(b if b else 1 for b in bs)


def structured(rng, count):
    """Valid encodings of random bytes with injected defects, encoded words, soft breaks."""
    out = []
    for _ in range(count):
        kind = rng.randrange(6)
        raw = bytes(rng.randrange(256) for _ in range(rng.randrange(0, 40)))
        if kind == 0:      # base64 with white space and defects
            s = bytearray(base64.b64encode(raw))
            for _ in range(rng.randrange(0, 4)):
                s.insert(rng.randrange(len(s) + 1), rng.choice(b' \n\t\r\x0b\x0c'))
            if rng.random() < 0.5 and s:
                i = rng.randrange(len(s))
                what = rng.randrange(4)
                if what == 0:
                    del s[i]
                elif what == 1:
                    s[i] = rng.choice(b'=*-_~\x80\xff')
                elif what == 2:
                    s.insert(i, ord('='))
                else:
                    s[i] = rng.choice(b'ABCDEFGHIJKLMNOPQRSTUVWXYZabcdefghijklmnopqrstuvwxyz0123456789+/')
            out.append(nonul(s))
        elif kind == 1:    # quoted printable
            s = bytearray()
            for b in raw:
                r = rng.random()
                if r < 0.4:
                    s += b'=%02X' % b
                elif r < 0.5:
                    s += b'=%02x' % b
                elif r < 0.6:
                    s += b'=\n'
                elif r < 0.65:
                    s += b'='
                elif r < 0.7:
                    s += b'_'
                else:
                    s.append(b)
            out.append(nonul(s))
        else:              # RFC 2047 mixtures
            s = bytearray()
            for _ in range(rng.randrange(1, 5)):
                r = rng.random()
                w = bytes(rng.randrange(256) for _ in range(rng.randrange(0, 8)))
                if r < 0.35:
                    s += b'=?' + rng.choice([b'utf-8', b'', b'iso-8859-1', b'x y']) + b'?' + rng.choice([b'B', b'b']) + b'?' + base64.b64encode(w) + (b'' if rng.random() < 0.9 else b'*') + b'?='
                elif r < 0.7:
                    q = b''.join((b'=%02X' % c) if rng.random() < 0.5 else (b'_' if rng.random() < 0.2 else bytes([c])) for c in w)
                    s += b'=?' + rng.choice([b'utf-8', b'', b'a?b'[:rng.randrange(1, 4)]]) + b'?' + rng.choice([b'Q', b'q', b'X']) + b'?' + q.replace(b'?', b'=3F') + b'?='
                elif r < 0.8:
                    s += rng.choice([b'=?', b'?=', b'=?a?Q', b'=?a?Q?', b'=?a?', b'=?a'])
                else:
                    s += rng.choice([b' ', b'  ', b'\t', b'\n ', b'plain', b' x '])
            out.append(nonul(s))
    return out


def eightbit():
    """Every byte 0x80..0xff where a decoder must not take it for a 7-bit character (tools/gen_msg.py: replacing the first / a middle /
    the last character of valid base64 of three paddings, in and around the padding, as a group of four; literal, behind `=` and
    around soft breaks in quoted-printable) - deterministic, whatever the seed.  The exhaustive alphabet above is 7-bit."""
    import gen_msg
    out = []
    for b in gen_msg.EIGHTBIT:
        for text in (b'hello world, x\n', b'hello world, xy\n', b'hello world, xyz\n'):
            out += [body.replace(b'\n', b'') for _, body in gen_msg.b64_with_8bit(text, b)]      # (one C string, no line structure: the `b64` op)
            out += [body for _, body in gen_msg.b64_with_8bit(text, b)[:3]]
        out += [body for _, body in gen_msg.qp_with_8bit(b'caf\xe9 = 1 \n long ' + b'x' * 70 + b'\n', b)]
        out += [b'=?utf-8?B?' + bytes([b]) + b'GVsbG8=?=', b'=?utf-8?B?aGVs' + bytes([b]) + b'G8=?=', b'=?utf-8?Q?a' + bytes([b]) + b'=41?=']
    return sorted(set(nonul(s) for s in out))


def H(req):
    return all(0 not in a for a in req[1:])


def run(rep):
    rng = random.Random(rep.seed)
    sc = vlib.Scratch()
    harness = sc.unit_harness('h_decode', ['decode.c'])
    vlib.lean_gate(rep, 'C16', sc, [
        'modelled, not verified: isspace/toupper (ASCII, C and C.utf8 locales), libks buffer growth, malloc',
        'out-of-bounds reads/writes of the C code are observed by ASan+UBSan in the harness, not proved',
    ])
    L = 4 if rep.tier == 'quick' else 5
    nrand = 40000 if rep.tier == 'quick' else 1000000
    strings = list(exhaustive(L))
    n_ex = len(strings)
    strings += structured(rng, nrand)
    n_8bit = len(eightbit())
    strings += eightbit()
    reqs = [(op, s) for s in strings for op in OPS]
    d = vlib.Differential(rep, [harness], name='h_decode')
    impl, model, spec = d.run(reqs, H=H)
    d.conclude('decode.c <-> Model/Decode.lean')
    vlib.lean_conclude(rep)
    distinct = len(set((r[0], i) for r, i in zip(reqs, impl)))
    nontriv = set()
    for r, i in zip(reqs, impl):
        if i not in ('NONE', '-') and vlib.hexs(r[1]) != i and ('OK ' + vlib.hexs(r[1])) != i:
            nontriv.add(r)
    rep.coverage.update({
        'evaluations': d.evals,
        'distinct_nontrivial': len(nontriv),
        'rule': 'all strings of length <= %d over the 14-symbol alphabet %r (exhaustive, %d strings) plus %d structured random strings '
                '(seeded) plus %d strings with every byte 0x80..0xff at the start / middle / end / padding of valid base64, inside quoted-printable '
                'and inside encoded words (deterministic), each through 5 decoder entry points; non-trivial = the implementation decoded something (output differs '
                'from input and is not empty/failure); distinct by (op, input)' % (L, b''.join(ALPHABET), n_ex, nrand, n_8bit),
        'exhaustive': True,
        'samples': [{'request': d.line(reqs[i]), 'implementation': impl[i], 'model': model[i], 'specification': spec[i]}
                    for i in rng.sample(range(len(reqs)), 6)],
        'correspondence_mismatches': len(d.corr_mismatch),
        'spec_failures': len(d.spec_fail),
        'sanitizer_faults': len(d.faults),
        'outcome_histogram': {'NONE': sum(1 for i in impl if i == 'NONE'), 'decoded': len(nontriv)},
    })
    rep.assumptions += ['inputs are C strings (no NUL)', 'locale C or C.utf8']


def replay(rep, path):
    import json
    j = json.load(open(path))
    sc = vlib.Scratch()
    harness = sc.unit_harness('h_decode', ['decode.c'])
    vlib.lean_gate(rep, 'C16', sc, [])
    line = j['request']
    parts = line.split(' ')
    req = tuple([parts[0]] + [vlib.unhex(p) for p in parts[1:]])
    d = vlib.Differential(rep, [harness], name='h_decode')
    impl, model, spec = d.run([req], H=H, shrink=False)
    print('request        %s' % line)
    print('implementation %s' % impl[0])
    print('model          %s' % model[0])
    print('specification  %s' % spec[0])
    d.conclude('decode.c <-> Model/Decode.lean')
    rep.coverage.update({'evaluations': 1, 'distinct_nontrivial': 1})
