"""C16 - the transfer decoders are correct and total."""
import itertools
import random
import base64
import vlib

ALPHABET = [b'A', b'Q', b'g', b'=', b'?', b'_', b' ', b'\n', b'\t', b'/', b'+', b'-', b'0', b'F']
OPS = ['b64', 'b64raw', 'qp', 'qph', 'r2047']
# The same entry points against the RFC readings of Spec/DecodeRFC.lean.  The specification side answers only where
# C16_qp_vs_rfc / C16_rfc2047_vs_rfc apply (QpLFOnly / WellFormed2047; NOTWF elsewhere); outside that domain the RFC
# reading is evaluated too and the differences are COUNTED (coverage 'rfc_reading'), they are observations.
RFC_OPS = {'qprfc': 'qprfcall', 'qphrfc': 'qphrfcall', 'r2047rfc': 'r2047rfcall'}
# second alphabet for the RFC ops: CR, and enough to write `=CRLF`, `= LF`, `=?x?q?A?=` and a glued / blank-holding word
ALPHABET_RFC = [b'=', b'?', b'\r', b'\n', b' ', b'\t', b'q', b'B', b'A', b'4', b'x', b'\x0b']


def exhaustive(maxlen):
    for n in range(maxlen + 1):
        for t in itertools.product(ALPHABET, repeat=n):
            yield b''.join(t)


def nonul(bs):
    return bytes(b if b else 1 for b in bs)


def structured(rng, count):
    """Valid encodings of random bytes with injected defects, encoded words, soft breaks."""
    out = []
    for _ in range(count):
        kind = rng.randrange(6)
        raw = bytes(rng.randrange(256) for _ in range(rng.randrange(0, 40)))
        if kind == 0:      # base64 with white space and defects
            s = bytearray(base64.b64encode(raw))
            for _ in range(rng.randrange(0, 4)):
                s.insert(rng.randrange(len(s) + 1), rng.choice(b' \n\t\r\x0b\x0c'))
            if rng.random() < 0.5 and s:
                i = rng.randrange(len(s))
                what = rng.randrange(4)
                if what == 0:
                    del s[i]
                elif what == 1:
                    s[i] = rng.choice(b'=*-_~\x80\xff')
                elif what == 2:
                    s.insert(i, ord('='))
                else:
                    s[i] = rng.choice(b'ABCDEFGHIJKLMNOPQRSTUVWXYZabcdefghijklmnopqrstuvwxyz0123456789+/')
            out.append(nonul(s))
        elif kind == 1:    # quoted printable
            s = bytearray()
            for b in raw:
                r = rng.random()
                if r < 0.4:
                    s += b'=%02X' % b
                elif r < 0.5:
                    s += b'=%02x' % b
                elif r < 0.6:
                    s += b'=\n'
                elif r < 0.65:
                    s += b'='
                elif r < 0.7:
                    s += b'_'
                else:
                    s.append(b)
            out.append(nonul(s))
        else:              # RFC 2047 mixtures
            s = bytearray()
            for _ in range(rng.randrange(1, 5)):
                r = rng.random()
                w = bytes(rng.randrange(256) for _ in range(rng.randrange(0, 8)))
                if r < 0.35:
                    s += b'=?' + rng.choice([b'utf-8', b'', b'iso-8859-1', b'x y']) + b'?' + rng.choice([b'B', b'b']) + b'?' + base64.b64encode(w) + (b'' if rng.random() < 0.9 else b'*') + b'?='
                elif r < 0.7:
                    q = b''.join((b'=%02X' % c) if rng.random() < 0.5 else (b'_' if rng.random() < 0.2 else bytes([c])) for c in w)
                    s += b'=?' + rng.choice([b'utf-8', b'', b'a?b'[:rng.randrange(1, 4)]]) + b'?' + rng.choice([b'Q', b'q', b'X']) + b'?' + q.replace(b'?', b'=3F') + b'?='
                elif r < 0.8:
                    s += rng.choice([b'=?', b'?=', b'=?a?Q', b'=?a?Q?', b'=?a?', b'=?a'])
                else:
                    s += rng.choice([b' ', b'  ', b'\t', b'\n ', b'plain', b' x '])
            out.append(nonul(s))
    return out


def eightbit():
    """Every byte 0x80..0xff where a decoder must not take it for a 7-bit character (tools/gen_msg.py: replacing the first / a middle /
    the last character of valid base64 of three paddings, in and around the padding, as a group of four; literal, behind `=` and
    around soft breaks in quoted-printable) - deterministic, whatever the seed.  The exhaustive alphabet above is 7-bit."""
    import gen_msg
    out = []
    for b in gen_msg.EIGHTBIT:
        for text in (b'hello world, x\n', b'hello world, xy\n', b'hello world, xyz\n'):
            out += [body.replace(b'\n', b'') for _, body in gen_msg.b64_with_8bit(text, b)]      # (one C string, no line structure: the `b64` op)
            out += [body for _, body in gen_msg.b64_with_8bit(text, b)[:3]]
        out += [body for _, body in gen_msg.qp_with_8bit(b'caf\xe9 = 1 \n long ' + b'x' * 70 + b'\n', b)]
        out += [b'=?utf-8?B?' + bytes([b]) + b'GVsbG8=?=', b'=?utf-8?B?aGVs' + bytes([b]) + b'G8=?=', b'=?utf-8?Q?a' + bytes([b]) + b'=41?=']
    return sorted(set(nonul(s) for s in out))


LWS = [b' ', b'\t', b'  ', b'\n ', b'\r\n ', b' \t']
CHARSETS = [b'utf-8', b'ISO-8859-1', b'us-ascii', b'x', b'KOI8-R', b'utf-8*en']


def qword(rng, w):
    """A well-formed Q word for the octets w."""
    q = b''.join(b'_' if c == 32 and rng.random() < 0.7 else
                 (bytes([c]) if 33 <= c <= 126 and c not in b'=?_' and rng.random() < 0.7 else b'=%02X' % c) for c in w)
    return b'=?' + rng.choice(CHARSETS) + b'?' + rng.choice([b'Q', b'q']) + b'?' + (q or b'=20') + b'?='


def bword(rng, w):
    return b'=?' + rng.choice(CHARSETS) + b'?' + rng.choice([b'B', b'b']) + b'?' + base64.b64encode(w or b' ') + b'?='


def plain_atom(rng):
    return rng.choice([b'plain', b'Re:', b'?=', b'=', b'a=b', b'?', b'x?y', b'(c)', b'<a@b>', b'\xe4\xf6', b'=3D', b'_'])


def structured_rfc(rng, count):
    """Inputs for what C16_qp_vs_rfc / C16_rfc2047_vs_rfc talk about: RFC line ends and transport padding in
    quoted-printable; well-formed header values (words separated by linear white space, plain atoms between them) and
    the same with ONE defect of each kind the theorems' hypotheses exclude."""
    out = []
    for _ in range(count):
        kind = rng.randrange(4)
        raw = bytes(rng.randrange(256) for _ in range(rng.randrange(0, 24)))
        if kind == 0:      # quoted-printable with LF / CRLF line ends, soft breaks of every form, stray CR and blanks
            s = bytearray()
            for b in raw:
                r = rng.random()
                if r < 0.3:
                    s += b'=%02X' % b
                elif r < 0.5:
                    s += rng.choice([b'=\n', b'=\r\n', b'= \n', b'=\t\n', b'= \t \r\n', b'=\r', b'= ', b'=\t', b'=\r\r\n', b'= \r', b'==\n'])
                elif r < 0.6:
                    s += rng.choice([b'\n', b'\r\n', b' \n', b'\r', b' ', b'\t'])
                elif r < 0.65:
                    s += b'_'
                else:
                    s.append(b)
            out.append(nonul(s))
            continue
        # a well-formed value
        parts = []
        n = rng.randrange(1, 6)
        for i in range(n):
            w = bytes(rng.choice(b'abc xyz\xe4\xf6=?_') if rng.random() < 0.9 else rng.randrange(1 if kind == 1 else 0, 256)
                      for _ in range(rng.randrange(1, 7)))
            r = rng.random()
            parts.append(qword(rng, w) if r < 0.4 else bword(rng, w) if r < 0.75 else plain_atom(rng))
        seps = [rng.choice(LWS) for _ in range(n - 1)]
        if kind == 3 and rng.random() < 0.7:    # ... with one defect
            i = rng.randrange(n)
            what = rng.randrange(9)
            if what == 0 and seps:
                seps[rng.randrange(len(seps))] = rng.choice([b'', b' \x0b ', b'\x0c', b'\x0b'])     # glued / VT, FF
            elif what == 1:
                parts[i] = parts[i].replace(b'?', b'??', 1) if rng.random() < 0.5 else b'=??' + parts[i][parts[i].find(b'?', 2) + 1:]  # empty charset
            elif what == 2:
                parts[i] = rng.choice([b'x', b'(', b'"']) + parts[i]                            # glued to text before
            elif what == 3:
                parts[i] = parts[i] + rng.choice([b'x', b')', b'.', b'?=', b'='])               # glued to text behind
            elif what == 4:
                k = parts[i].rfind(b'?=')
                parts[i] = parts[i][:k] + rng.choice([b' ', b'\t', b'?', b' b', b'a b']) + parts[i][k:]   # blank / ? in the text
            elif what == 5:
                parts[i] = rng.choice([b'=?', b'=?x', b'=?x?', b'=?x?q', b'=?x?q?', b'=?x?q?a', b'=?x?q?a?', b'=?x?z?a?=', b'=?x?qq?a?=',
                                       b'=?x?q??=', b'=?a b?q?c?=', b'=?a.b?q?c?=', b'=?x?b?YQ?=', b'=?x?b?YQ=?=', b'=?x?b?YR==?='])
            elif what == 6:
                parts[i] = bword(rng, rng.choice([b'a\0b', b'\0', b'ab\0']))                     # NUL inside a B word
            elif what == 7:
                parts[i] = qword(rng, rng.choice([b'a\0b', b'\0']))                              # NUL inside a Q word
            else:
                parts[i] = parts[i].replace(b'=', b'=\r\n', 1)
        s = bytearray()
        if rng.random() < 0.3:
            s += rng.choice(LWS)
        for i, p_ in enumerate(parts):
            s += p_
            if i < len(seps):
                s += seps[i]
        if rng.random() < 0.2:
            s += rng.choice(LWS)
        out.append(nonul(s))
    return out


def rfc_stage(rep, harness, strings):
    """The three entry points against the RFC readings: violations inside the theorems' domain are failing inputs
    (through Differential.run); outside it the RFC reading is evaluated as well and agreement / difference counted."""
    reqs = [(op, s) for s in strings for op in RFC_OPS]
    d = vlib.Differential(rep, [harness], name='h_decode')
    impl, model, spec = d.run(reqs, H=H)
    d.conclude('decode.c <-> Model/Decode.lean (entry points against the RFC readings)')
    outside = [i for i, sp in enumerate(spec) if sp is None and H(reqs[i])]
    lines = ['S ' + d.line((RFC_OPS[reqs[i][0]],) + tuple(reqs[i][1:])) for i in outside]
    rfc = vlib.run_batch(d.driver, lines)
    pw = vlib.run_batch(d.driver, ['S ' + d.line(('r2047pw',) + tuple(reqs[i][1:])) for i in outside if reqs[i][0] == 'r2047rfc'])
    stat = {op: {'in_domain': 0, 'in_domain_decoding': 0, 'outside_domain': 0, 'outside_and_differs_from_rfc_reading': 0, 'samples_differing': []}
            for op in RFC_OPS}
    for i, r in enumerate(reqs):
        if spec[i] is not None:
            stat[r[0]]['in_domain'] += 1
            if impl[i] != vlib.hexs(r[1]):
                stat[r[0]]['in_domain_decoding'] += 1
    for i, v in zip(outside, rfc):
        st = stat[reqs[i][0]]
        st['outside_domain'] += 1
        if impl[i] != v:
            st['outside_and_differs_from_rfc_reading'] += 1
            if len(st['samples_differing']) < 8 and len(reqs[i][1]) <= 24:
                st['samples_differing'].append({'input': repr(reqs[i][1]), 'implementation': impl[i], 'rfc_reading': v})
    ipw = [i for i in outside if reqs[i][0] == 'r2047rfc']
    stat['r2047rfc']['outside_and_differs_from_per_word_reading'] = sum(1 for i, v in zip(ipw, pw) if impl[i] != v)
    stat['note'] = ('in_domain: QpLFOnly / WellFormed2047 holds and implementation = model = RFC reading was CHECKED (a difference is a '
                    'failing input); outside_domain: hypothesis of C16_qp_vs_rfc / C16_rfc2047_vs_rfc fails, differences are the observations '
                    'listed in Props/C16.lean (C16_*_deviation_*), counted here, never reported')
    return d, stat


def H(req):
    return all(0 not in a for a in req[1:])


def run(rep):
    rng = random.Random(rep.seed)
    sc = vlib.Scratch()
    harness = sc.unit_harness('h_decode', ['decode.c'])
    vlib.lean_gate(rep, 'C16', sc, [
        'modelled, not verified: isspace/toupper (ASCII, C and C.utf8 locales), libks buffer growth, malloc',
        'out-of-bounds reads/writes of the C code are observed by ASan+UBSan in the harness, not proved',
    ])
    L = 4 if rep.tier == 'quick' else 5
    nrand = 40000 if rep.tier == 'quick' else 1000000
    strings = list(exhaustive(L))
    n_ex = len(strings)
    strings += structured(rng, nrand)
    n_8bit = len(eightbit())
    strings += eightbit()
    reqs = [(op, s) for s in strings for op in OPS]
    d = vlib.Differential(rep, [harness], name='h_decode')
    impl, model, spec = d.run(reqs, H=H)
    # the RFC readings: exhaustive over the second alphabet (with CR, VT), the structured families of both generators
    L2 = 4 if rep.tier == 'quick' else 5
    rfc_strings = [b''.join(t) for n in range(L2 + 1) for t in itertools.product(ALPHABET_RFC, repeat=n)]
    n_ex2 = len(rfc_strings)
    rfc_strings += structured_rfc(rng, nrand // 2) + strings[n_ex:n_ex + nrand // 4]
    d.conclude('decode.c <-> Model/Decode.lean')
    d2, rfc_stat = rfc_stage(rep, harness, rfc_strings)
    vlib.lean_conclude(rep)
    distinct = len(set((r[0], i) for r, i in zip(reqs, impl)))
    nontriv = set()
    for r, i in zip(reqs, impl):
        if i not in ('NONE', '-') and vlib.hexs(r[1]) != i and ('OK ' + vlib.hexs(r[1])) != i:
            nontriv.add(r)
    rep.coverage.update({
        'evaluations': d.evals + d2.evals,
        'distinct_nontrivial': len(nontriv),
        'rule': 'all strings of length <= %d over the 14-symbol alphabet %r (exhaustive, %d strings) plus %d structured random strings '
                '(seeded) plus %d strings with every byte 0x80..0xff at the start / middle / end / padding of valid base64, inside quoted-printable '
                'and inside encoded words (deterministic), each through 5 decoder entry points; non-trivial = the implementation decoded something (output differs '
                'from input and is not empty/failure); distinct by (op, input)' % (L, b''.join(ALPHABET), n_ex, nrand, n_8bit),
        'exhaustive': True,
        'samples': [{'request': d.line(reqs[i]), 'implementation': impl[i], 'model': model[i], 'specification': spec[i]}
                    for i in rng.sample(range(len(reqs)), 6)],
        'correspondence_mismatches': len(d.corr_mismatch) + len(d2.corr_mismatch),
        'spec_failures': len(d.spec_fail) + len(d2.spec_fail),
        'sanitizer_faults': len(d.faults) + len(d2.faults),
        'outcome_histogram': {'NONE': sum(1 for i in impl if i == 'NONE'), 'decoded': len(nontriv)},
        'rfc_reading': dict(rfc_stat, rule='all strings of length <= %d over the 12-symbol alphabet %r (%d strings) plus %d structured strings '
                                           '(RFC line ends / transport padding; well-formed header values and the same with one defect), each through '
                                           'qprfc, qphrfc, r2047rfc (%d evaluations)' % (L2, b''.join(ALPHABET_RFC), n_ex2, len(rfc_strings) - n_ex2, d2.evals)),
    })
    rep.assumptions += ['inputs are C strings (no NUL)', 'locale C or C.utf8']


def replay(rep, path):
    import json
    j = json.load(open(path))
    sc = vlib.Scratch()
    harness = sc.unit_harness('h_decode', ['decode.c'])
    vlib.lean_gate(rep, 'C16', sc, [])
    line = j['request']
    parts = line.split(' ')
    req = tuple([parts[0]] + [vlib.unhex(p) for p in parts[1:]])
    d = vlib.Differential(rep, [harness], name='h_decode')
    impl, model, spec = d.run([req], H=H, shrink=False)
    print('request        %s' % line)
    print('implementation %s' % impl[0])
    print('model          %s' % model[0])
    print('specification  %s' % spec[0])
    d.conclude('decode.c <-> Model/Decode.lean')
    rep.coverage.update({'evaluations': 1, 'distinct_nontrivial': 1})
