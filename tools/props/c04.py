"""C04 - the exit status tells the truth (MDA contract, error isolation)."""
import concurrent.futures as cf
import random
import vlib
import proc
import world
import worldscen as ws

R = '@R@'
CONF = ('maildir "%(R)s/src" {\n'
        '\tmatch header "X-Kind" /date/ and date > 1 seconds move "%(R)s/dst"\n'
        '\tmatch header "X-Kind" /body/ and body /hello/ move "%(R)s/dst"\n'
        '\tmatch header "X-Kind" /mime/ and attachment body /deep/ move "%(R)s/dst"\n'
        '\tmatch header "X-Kind" /dest/ move "%(R)s/nonexistent"\n'
        '\tmatch header "X-Kind" /exec/ exec "false" move "%(R)s/dst"\n'
        '\tmatch header "X-Kind" /interp/ move "%(R)s/dst/\\\\9"\n'
        '\tmatch header "X-Kind" /good/ label "ok" move "%(R)s/dst"\n'
        '\tmatch all flag !new\n'
        '}\n'
        'maildir "%(R)s/src2" {\n\tmatch all move "%(R)s/dst2"\n}\n') % {'R': R}
PATS = [('date', ''), ('body', ''), ('hello', ''), ('mime', ''), ('deep', ''), ('dest', ''), ('exec', ''), ('interp', ''), ('good', '')]


def deep_mime(depth):
    inner = b'Content-Type: text/plain\n\ndeep text\n'
    for d in range(depth):
        b = b'b%d' % d
        inner = b'Content-Type: multipart/mixed; boundary="' + b + b'"\n\n--' + b + b'\n' + inner + b'--' + b + b'--\n'
    return inner


def defective(kind, i):
    """(file name, content, is_defective)"""
    base = b'To: u%d@x\nX-Id: %d\n' % (i, i)
    if kind == 'flags':
        return '%d.host:1,S' % i, base + b'X-Kind: good\n\nbody\n', True
    if kind == 'date':
        return '%d.host' % i, base + b'X-Kind: date\nDate: not a date at all\n\nbody\n', True
    if kind == 'body':
        return '%d.host' % i, base + b'X-Kind: body\nContent-Transfer-Encoding: base64\n\n%%%%not base64%%%%\n', True
    if kind == 'mime':
        return '%d.host' % i, base + b'X-Kind: mime\n' + deep_mime(7), True
    if kind == 'dest':
        return '%d.host' % i, base + b'X-Kind: dest\n\nbody\n', True
    if kind == 'exec':
        return '%d.host' % i, base + b'X-Kind: exec\n\nbody\n', True
    if kind == 'interp':
        return '%d.host' % i, base + b'X-Kind: interp\n\nbody\n', True
    if kind == 'good-date':
        return '%d.host' % i, base + b'X-Kind: date\nDate: Mon, 21 Sep 2026 14:13:20 +0100\n\nbody\n', False
    if kind == 'good-body':
        return '%d.host' % i, base + b'X-Kind: body\nContent-Transfer-Encoding: base64\n\naGVsbG8K\n', False
    if kind == 'good-mime':
        return '%d.host' % i, base + b'X-Kind: mime\n' + deep_mime(2), False
    return '%d.host' % i, base + b'X-Kind: good\n\nbody %d\n' % i, False


KINDS_BAD = ['flags', 'date', 'body', 'mime', 'dest', 'exec', 'interp']
KINDS_GOOD = ['good', 'good', 'good-date', 'good-body', 'good-mime', 'plain']


def population(rng):
    n = rng.randrange(1, 7)
    msgs, meta = {}, {}
    for i in range(1, n + 1):
        kind = rng.choice(KINDS_BAD) if rng.random() < 0.4 else rng.choice(KINDS_GOOD)
        name, data, bad = defective(kind, i)
        sub = rng.choice(['new', 'cur'])
        if sub == 'cur' and ':' not in name:
            name += ':2,S'
        msgs[(sub, name)] = data
        meta[i] = (kind, bad, sub, name)
    return msgs, meta


def run_population(tools, W, msgs, meta):
    tree = {}
    tree.update(proc.maildir_tree('src', msgs))
    tree.update(proc.maildir_tree('src2', {('new', '90.host'): b'To: z\nX-Id: 90\n\nsecond maildir\n'}))
    tree.update(proc.maildir_tree('dst', {}))
    tree.update(proc.maildir_tree('dst2', {}))
    tree['dst/\\9/new'] = None
    good = {k: v for k, v in msgs.items() if not meta[ws.msg_id(v)][1]}
    tree_good = dict(tree)
    for k in msgs:
        if k not in good:
            del tree_good['src/%s/%s' % k]
    spec = ws.Spec('population', CONF, PATS, tree=tree)
    spec_good = ws.Spec('population-good', CONF, PATS, tree=tree_good)
    a, b = spec.build(tools), spec_good.build(tools)
    try:
        ra, rb = a.run(), b.run()
        probs = []
        nbad = sum(1 for i, m in meta.items() if m[1])
        if rb.status != 0:
            probs.append('population without defective messages exits %r: %s' % (rb.status, rb.err[-200:].decode('latin-1')))
        if (ra.status != 0) != (nbad > 0):
            probs.append('%d defective message(s) but exit status %r' % (nbad, ra.status))
        if ra.status not in (0, 1):
            probs.append('exit status %r' % (ra.status,))
        # isolation: the good messages end exactly where the error-free run puts them
        fa, fb = ws.maildir_files(ra.final), ws.maildir_files(rb.final)
        where_a = {ws.msg_id(d): (rel, d) for rel, d in fa.items()}
        where_b = {ws.msg_id(d): (rel, d) for rel, d in fb.items()}
        for i, (rel, d) in where_b.items():
            if where_a.get(i) != (rel, d):
                probs.append('message %s: error-free run puts it at %s, run with defective neighbours at %s' % (i, rel, (where_a.get(i) or ['nowhere'])[0]))
        # defective messages are still there, unchanged (exec: command ran and failed, message stays)
        for i, (kind, bad, sub, name) in meta.items():
            if bad:
                rel = 'src/%s/%s' % (sub, name)
                if fa.get(rel) != msgs[(sub, name)]:
                    probs.append('defective message %d (%s) was changed or moved' % (i, kind))
        rq, _, nts = W.request(a, PATS, ra)
        ans = W.verdict([rq])[0]
        conform, detail = world.compare(a, ra, ans)
        return {'kinds': sorted(m[0] for m in meta.values()), 'status': ra.status, 'problems': probs,
                'conform': conform if conform == 'ok' else conform + ': ' + detail[:300], 'stderr': ra.err[-300:].decode('latin-1')}
    finally:
        a.cleanup()
        b.cleanup()


def stdin_sweep(tools, W, spec, tier):
    out = []
    scen = spec.build(tools)
    try:
        clean = scen.run()
        calls = clean.calls()
        for k, c in enumerate(calls):
            for e in ws.errnos(c['name'], tier, quick_n=1):
                scen.reset()
                r = scen.run(fail='%d:%s' % (k, e))
                fired = any(t.get('fault') for t in r.trace if t['kind'] == 'call')
                probs = []
                stored = [d for rel, d in ws.maildir_files(r.final).items() if d and ws.msg_id(d) == ws.msg_id(spec.stdin) and rel.startswith('dst')]
                is_discard = 'discard' in spec.name
                is_reject = 'reject' in spec.name
                cleanup = any(calls[j]['name'] == 'rewinddir' for j in range(0, k + 1))
                if r.status == 0:
                    if not is_discard and not stored:
                        probs.append('exit status 0 but the message is not stored at its destination')
                    if stored and not (stored[0] == spec.stdin or (b'X-Label' in stored[0] and stored[0].endswith(spec.stdin.split(b'\n\n', 1)[1]))):
                        probs.append('exit status 0 but the stored message is not intact')
                elif r.status == 1:
                    if not is_reject:
                        probs.append('exit status 1 without a reject rule')
                elif r.status != 75:
                    probs.append('exit status %r (must be 0, 1 or 75)' % (r.status,))
                if (fired and e not in ('short', 'shorthalf') and not ws.may_retry(c['name'], e) and r.status == 0
                        and c['name'] not in ('close', 'closedir', 'fclose') and not cleanup):
                    probs.append('an I/O failure at %s and exit status 0' % c['name'])
                left = ws.tmp_entries(r.final)
                if left and not cleanup:
                    probs.append('spool left in TMPDIR: %s' % left)
                out.append({'scenario': spec.name, 'plan': '%d:%s' % (k, e), 'call': c['raw'].replace(scen.root, R)[:160], 'status': r.status, 'problems': probs})
        return out
    finally:
        scen.cleanup()


def run(rep):
    rng = random.Random(rep.seed)
    sc = vlib.Scratch()
    tools = proc.Tools(sc)
    W = world.WorldCheck(sc, tools)
    vlib.lean_gate(rep, 'C04', sc, [
        'the populations are judged on the real binary; "unreadable file" is exercised as an injected openat/read failure (C01 sweep), '
        'because the checks run as root',
    ])
    npop = 40 if rep.tier == 'quick' else 1500
    pops = [population(rng) for _ in range(npop)]
    results = []
    with cf.ThreadPoolExecutor(vlib.NCPU) as ex:
        results = list(ex.map(lambda p: run_population(tools, W, p[0], p[1]), pops))
    stdin_specs = [s for s in ws.corpus() if s.kind == 'stdin']
    sres = []
    with cf.ThreadPoolExecutor(vlib.NCPU) as ex:
        for r in ex.map(lambda s: stdin_sweep(tools, W, s, rep.tier), stdin_specs):
            sres.extend(r)
    corr_bad = []
    for r in results:
        if r['problems']:
            rep.finding('unlisted', {'population': r['kinds'], 'exit_status': r['status'], 'what': r['problems'][:6], 'stderr': r['stderr']})
        elif r['conform'] != 'ok':
            corr_bad.append(r)
    for r in sres:
        if r['problems']:
            rep.finding('unlisted', {'scenario': r['scenario'], 'fault_plan': r['plan'], 'call': r['call'], 'exit_status': r['status'], 'what': r['problems']})
    if corr_bad and not rep.violations:
        rep.violation({'obligation': 'correspondence: a run over a population with defective messages does not follow Model.mainP',
                       'disagreements': len(corr_bad), 'examples': corr_bad[:6]}, False)
    vlib.lean_conclude(rep)
    kinds = {}
    for r in results:
        for k in r['kinds']:
            kinds[k] = kinds.get(k, 0) + 1
    rep.coverage.update({
        'evaluations': len(results) * 2 + len(sres),
        'distinct_nontrivial': len([r for r in results if r['status'] == 1]) + len([r for r in sres if r['status'] == 75]),
        'rule': '%d populations of 1-6 messages, each message of one of 7 defective kinds (invalid flag suffix, unparsable Date under a date '
                'rule, undecodable base64 under a body rule, MIME nested too deep under an attachment rule, missing destination, failing exec, '
                'failing interpolation) with probability 0.4, plus a second maildir: exit status 1 iff a defective message is present, the good '
                'messages end where the run without the defective ones puts them, defective ones untouched, the second maildir processed; '
                'call-by-call conformance with Model.mainP; %d single-fault runs (read/write: also EINTR) of the 5 stdin scenarios judged by the MDA contract (75 / 1 / '
                '0 only if stored intact or discarded, spool removed); non-trivial = runs that ended with an error status' % (npop, len(sres)),
        'samples': results[:2] + sres[:2],
        'kinds_exercised': kinds,
        'correspondence_mismatches': len(corr_bad),
    })


def replay(rep, path):
    import json
    print(json.dumps(json.load(open(path)), indent=1)[:3000])
    sc = vlib.Scratch()
    vlib.lean_gate(rep, 'C04', sc, [])
    rep.coverage.update({'evaluations': 1, 'distinct_nontrivial': 1})
