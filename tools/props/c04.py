"""C04 - the exit status tells the truth (MDA contract, error isolation)."""
import concurrent.futures as cf
import random
import vlib
import proc
import world
import worldscen as ws
import cmdstatus

R = '@R@'
CONF = ('maildir "%(R)s/src" {\n'
        '\tmatch header "X-Kind" /date/ and date > 1 seconds move "%(R)s/dst"\n'
        '\tmatch header "X-Kind" /body/ and body /hello/ move "%(R)s/dst"\n'
        '\tmatch header "X-Kind" /mime/ and attachment body /deep/ move "%(R)s/dst"\n'
        '\tmatch header "X-Kind" /attblk/ attachment { match body /hello/ exec stdin "%(H)s" } move "%(R)s/dst"\n'
        '\tmatch header "X-Kind" /attcond/ and attachment body /hello/ exec stdin "%(H)s" move "%(R)s/dst"\n'
        '\tmatch header "X-Kind" /dest/ move "%(R)s/nonexistent"\n'
        '\tmatch header "X-Kind" /exec/ exec "false" move "%(R)s/dst"\n'
        '\tmatch header "X-Kind" /interp/ move "%(R)s/dst/\\\\9"\n'
        '\tmatch header "X-Kind" /good/ label "ok" move "%(R)s/dst"\n'
        '\tmatch all flag !new\n'
        '}\n'
        'maildir "%(R)s/src2" {\n\tmatch all move "%(R)s/dst2"\n}\n') % {'R': R, 'H': ws.HELPER}
PATS = [('date', ''), ('body', ''), ('hello', ''), ('mime', ''), ('deep', ''), ('attblk', ''), ('hello', ''), ('attcond', ''), ('hello', ''),
        ('dest', ''), ('exec', ''), ('interp', ''), ('good', '')]


def deep_mime(depth):
    inner = b'Content-Type: text/plain\n\ndeep text\n'
    for d in range(depth):
        b = b'b%d' % d
        inner = b'Content-Type: multipart/mixed; boundary="' + b + b'"\n\n--' + b + b'\n' + inner + b'--' + b + b'--\n'
    return inner


# ---- multipart messages in which ONE part is defective, for the attachment { ... } action block and the attachment condition ----
# layout: part kinds in order; 'hit' matches body /hello/ (plain or base64), 'miss' does not, 'nest' is a harmless nested multipart,
# 'b64' has an undecodable base64 body, 'deep' nests multiparts beyond the limit of 4
LAYOUTS_BAD = {
    # attachment { } visits every part: an error in any part is an error, whatever the later parts do
    'attblk': [('b64', 'hit'), ('b64', 'hit', 'hit'), ('hit', 'b64', 'hit'), ('miss', 'b64', 'hit', 'miss'), ('hit', 'b64'), ('b64', 'miss'),
               ('deep', 'hit'), ('hit', 'deep'), ('nest', 'b64', 'hit')],
    # attachment <condition> holds iff some part matches: the parts are tried in order, the first match or error decides
    'attcond': [('b64', 'hit'), ('miss', 'b64', 'hit'), ('b64', 'miss'), ('nest', 'b64', 'hit'), ('deep', 'hit'), ('hit', 'deep'), ('miss', 'b64')],
}
LAYOUTS_GOOD = {
    'attblk': [('hit',), ('miss', 'hit'), ('hit', 'miss', 'hit'), ('nest', 'hit'), ('miss',)],
    'attcond': [('hit',), ('miss', 'hit'), ('hit', 'b64'), ('nest', 'hit'), ('hit', 'b64', 'hit'), ('miss', 'miss')],
}


def att_part(i, k, kind, rng):
    tag = b'X-Part: m%dp%d\n' % (i, k)
    if kind == 'hit':
        if rng is not None and rng.random() < 0.4:
            import base64
            return b'Content-Type: text/plain\nContent-Transfer-Encoding: base64\n' + tag + b'\n' + base64.b64encode(b'hello encoded %d\n' % k) + b'\n'
        return b'Content-Type: text/plain\n' + tag + b'\nhello from part %d\n' % k
    if kind == 'miss':
        return b'Content-Type: text/html\n' + tag + b'\n<p>nothing to see</p>\n'
    if kind == 'nest':
        return tag + deep_mime(2)
    if kind == 'b64':
        return b'Content-Type: application/octet-stream\nContent-Transfer-Encoding: base64\n' + tag + b'\n!!!! this is not base64 !!!!\n'
    if kind == 'deep':
        return tag + deep_mime(6)
    raise ValueError(kind)


def att_message(i, xkind, layout, rng=None):
    parts = [att_part(i, k + 1, p, rng) for k, p in enumerate(layout)]
    return (b'To: u%d@x\nX-Id: %d\nX-Kind: %s\nContent-Type: multipart/mixed; boundary="q"\n\n' % (i, i, xkind.encode()) +
            b''.join(b'--q\n' + p for p in parts) + b'--q--\n')


def att_expected_execs(xkind, layout):
    """Part numbers (0 = the whole message) the documented semantics hands to the command for a message that is NOT defective."""
    if xkind == 'attblk':
        return [k + 1 for k, p in enumerate(layout) if p == 'hit']
    return [0] if 'hit' in layout else []


def defective(kind, i, rng=None, layout=None):
    """(file name, content, is_defective)"""
    base = b'To: u%d@x\nX-Id: %d\n' % (i, i)
    if kind.startswith('att'):
        xkind, q = kind.split('-')
        table = LAYOUTS_BAD if q == 'bad' else LAYOUTS_GOOD
        if layout is None:
            layout = rng.choice(table[xkind]) if rng is not None else table[xkind][0]
        return '%d.host' % i, att_message(i, xkind, layout, rng), q == 'bad'
    if kind == 'flags':
        return '%d.host:1,S' % i, base + b'X-Kind: good\n\nbody\n', True
    if kind == 'date':
        return '%d.host' % i, base + b'X-Kind: date\nDate: not a date at all\n\nbody\n', True
    if kind == 'body':
        return '%d.host' % i, base + b'X-Kind: body\nContent-Transfer-Encoding: base64\n\n%%%%not base64%%%%\n', True
    if kind == 'mime':
        return '%d.host' % i, base + b'X-Kind: mime\n' + deep_mime(7), True
    if kind == 'dest':
        return '%d.host' % i, base + b'X-Kind: dest\n\nbody\n', True
    if kind == 'exec':
        return '%d.host' % i, base + b'X-Kind: exec\n\nbody\n', True
    if kind == 'interp':
        return '%d.host' % i, base + b'X-Kind: interp\n\nbody\n', True
    if kind == 'good-date':
        return '%d.host' % i, base + b'X-Kind: date\nDate: Mon, 21 Sep 2026 14:13:20 +0100\n\nbody\n', False
    if kind == 'good-body':
        return '%d.host' % i, base + b'X-Kind: body\nContent-Transfer-Encoding: base64\n\naGVsbG8K\n', False
    if kind == 'good-mime':
        return '%d.host' % i, base + b'X-Kind: mime\n' + deep_mime(2), False
    return '%d.host' % i, base + b'X-Kind: good\n\nbody %d\n' % i, False


KINDS_BAD = ['flags', 'date', 'body', 'mime', 'dest', 'exec', 'interp', 'attblk-bad', 'attcond-bad']
KINDS_GOOD = ['good', 'good', 'good-date', 'good-body', 'good-mime', 'plain', 'attblk-good', 'attcond-good']


def population(rng, kinds=None):
    """kinds: None = random population; else a list of (kind, layout or None) - the fixed populations every run contains."""
    n = rng.randrange(1, 7) if kinds is None else len(kinds)
    msgs, meta = {}, {}
    for i in range(1, n + 1):
        layout = None
        if kinds is None:
            kind = rng.choice(KINDS_BAD) if rng.random() < 0.4 else rng.choice(KINDS_GOOD)
        else:
            kind, layout = kinds[i - 1]
        if kind.startswith('att') and layout is None:
            xkind, q = kind.split('-')
            layout = rng.choice((LAYOUTS_BAD if q == 'bad' else LAYOUTS_GOOD)[xkind])
        name, data, bad = defective(kind, i, rng, layout)
        sub = rng.choice(['new', 'cur'])
        if sub == 'cur' and ':' not in name:
            name += ':2,S'
        msgs[(sub, name)] = data
        meta[i] = (kind, bad, sub, name, layout)
    return msgs, meta


def fixed_populations(rng):
    """Every defective kind (and every layout of the attachment kinds) next to good messages, whatever the seed."""
    pops = []
    for kind in KINDS_BAD:
        if kind.startswith('att'):
            for layout in LAYOUTS_BAD[kind.split('-')[0]]:
                pops.append(population(rng, [('good', None), (kind, layout), (kind.replace('bad', 'good'), None)]))
        else:
            pops.append(population(rng, [(kind, None), ('good', None)]))
    for xkind in ('attblk', 'attcond'):
        for layout in LAYOUTS_GOOD[xkind]:
            pops.append(population(rng, [(xkind + '-good', layout)]))
    return pops


def execs_by_message(r):
    """{message id: [part number the command got on stdin (0 = the whole message)]} from the helper's record."""
    import re as _re
    from props.c13 import parse_helper
    res = {}
    for line in r.helper:
        argv, stdin, fds, target = parse_helper(line)
        m = _re.search(rb'^X-Id: (\d+)$', stdin, _re.M)
        p = _re.search(rb'^X-Part: m(\d+)p(\d+)$', stdin, _re.M)
        if m:
            res.setdefault(int(m.group(1)), []).append(0)
        elif p:
            res.setdefault(int(p.group(1)), []).append(int(p.group(2)))
        else:
            res.setdefault(None, []).append(stdin[:80])
    return res


def run_population(tools, W, msgs, meta):
    tree = {}
    tree.update(proc.maildir_tree('src', msgs))
    tree.update(proc.maildir_tree('src2', {('new', '90.host'): b'To: z\nX-Id: 90\n\nsecond maildir\n'}))
    tree.update(proc.maildir_tree('dst', {}))
    tree.update(proc.maildir_tree('dst2', {}))
    tree['dst/\\9/new'] = None
    good = {k: v for k, v in msgs.items() if not meta[ws.msg_id(v)][1]}
    tree_good = dict(tree)
    for k in msgs:
        if k not in good:
            del tree_good['src/%s/%s' % k]
    spec = ws.Spec('population', CONF, PATS, tree=tree)
    spec_good = ws.Spec('population-good', CONF, PATS, tree=tree_good)
    a, b = spec.build(tools), spec_good.build(tools)
    try:
        ra, rb = a.run(), b.run()
        probs = []
        nbad = sum(1 for i, m in meta.items() if m[1])
        if rb.status != 0:
            probs.append('population without defective messages exits %r: %s' % (rb.status, rb.err[-200:].decode('latin-1')))
        if (ra.status != 0) != (nbad > 0):
            probs.append('%d defective message(s) but exit status %r' % (nbad, ra.status))
        if ra.status not in (0, 1):
            probs.append('exit status %r' % (ra.status,))
        # isolation: the good messages end exactly where the error-free run puts them
        fa, fb = ws.maildir_files(ra.final), ws.maildir_files(rb.final)
        where_a = {ws.msg_id(d): (rel, d) for rel, d in fa.items()}
        where_b = {ws.msg_id(d): (rel, d) for rel, d in fb.items()}
        for i, (rel, d) in where_b.items():
            if where_a.get(i) != (rel, d):
                probs.append('message %s: error-free run puts it at %s, run with defective neighbours at %s' % (i, rel, (where_a.get(i) or ['nowhere'])[0]))
        # defective messages are still there, unchanged (exec: command ran and failed, message stays)
        execs = execs_by_message(ra)
        for i, (kind, bad, sub, name, layout) in meta.items():
            if bad:
                rel = 'src/%s/%s' % (sub, name)
                if fa.get(rel) != msgs[(sub, name)]:
                    probs.append('defective message %d (%s%s) was changed or moved' % (i, kind, ' parts: ' + ' '.join(layout) if layout else ''))
                # an evaluation error selects no action: no command runs for that message (kind `exec` IS a command that ran and failed)
                if kind != 'exec' and execs.get(i):
                    probs.append('defective message %d (%s%s): the command was run for it (parts %s; 0 = whole message)'
                                 % (i, kind, ' parts: ' + ' '.join(layout) if layout else '', execs[i]))
            elif layout is not None:
                want = att_expected_execs(kind.split('-')[0], layout)
                if execs.get(i, []) != want:
                    probs.append('message %d (%s parts: %s): the command ran for parts %s, documented %s (0 = whole message)'
                                 % (i, kind, ' '.join(layout), execs.get(i, []), want))
        if None in execs:
            probs.append('the command ran with an input that is no message or part of the population: %r' % execs[None][:2])
        rq, _, nts = W.request(a, PATS, ra)
        ans = W.verdict([rq])[0]
        conform, detail = world.compare(a, ra, ans)
        return {'kinds': sorted(m[0] for m in meta.values()), 'status': ra.status, 'problems': probs,
                'messages': {'src/%s/%s' % k: v.decode('latin-1') for k, v in msgs.items()} if probs else None,
                'conform': conform if conform == 'ok' else conform + ': ' + detail[:300], 'stderr': ra.err[-300:].decode('latin-1')}
    finally:
        a.cleanup()
        b.cleanup()


def stdin_sweep(tools, W, spec, tier):
    out = []
    scen = spec.build(tools)
    try:
        clean = scen.run()
        calls = clean.calls()
        for k, c in enumerate(calls):
            for e in ws.errnos(c['name'], tier, quick_n=1):
                scen.reset()
                r = scen.run(fail='%d:%s' % (k, e))
                fired = any(t.get('fault') for t in r.trace if t['kind'] == 'call')
                probs = []
                stored = [d for rel, d in ws.maildir_files(r.final).items() if d and ws.msg_id(d) == ws.msg_id(spec.stdin) and rel.startswith('dst')]
                is_discard = 'discard' in spec.name
                is_reject = 'reject' in spec.name
                cleanup = any(calls[j]['name'] == 'rewinddir' for j in range(0, k + 1))
                if r.status == 0:
                    if not is_discard and not stored:
                        probs.append('exit status 0 but the message is not stored at its destination')
                    if stored and not (stored[0] == spec.stdin or (b'X-Label' in stored[0] and stored[0].endswith(spec.stdin.split(b'\n\n', 1)[1]))):
                        probs.append('exit status 0 but the stored message is not intact')
                elif r.status == 1:
                    if not is_reject:
                        probs.append('exit status 1 without a reject rule')
                elif r.status != 75:
                    probs.append('exit status %r (must be 0, 1 or 75)' % (r.status,))
                if (fired and e not in ('short', 'shorthalf') and not ws.may_retry(c['name'], e) and r.status == 0
                        and c['name'] not in ('close', 'closedir', 'fclose') and not cleanup):
                    probs.append('an I/O failure at %s and exit status 0' % c['name'])
                left = ws.tmp_entries(r.final)
                if left and not cleanup:
                    probs.append('spool left in TMPDIR: %s' % left)
                out.append({'scenario': spec.name, 'plan': '%d:%s' % (k, e), 'call': c['raw'].replace(scen.root, R)[:160], 'status': r.status, 'problems': probs})
        return out
    finally:
        scen.cleanup()


def run(rep):
    rng = random.Random(rep.seed)
    sc = vlib.Scratch()
    tools = proc.Tools(sc)
    W = world.WorldCheck(sc, tools)
    vlib.lean_gate(rep, 'C04', sc, [
        'the populations are judged on the real binary; "unreadable file" is exercised as an injected openat/read failure (C01 sweep), '
        'because the checks run as root',
        'command errors: the exec helper run through a link named cmd-exit-N / cmd-signal-N ends that way; in the unit harness a program '
        'named vstatus:... is not looked up by execvp(3), the child of the real exec() ends as the name says',
        cmdstatus.SIGNAL_NOTE,
    ])
    npop = 40 if rep.tier == 'quick' else 1500
    fixed = fixed_populations(random.Random(rep.seed + 1))
    pops = fixed + [population(rng) for _ in range(npop)]
    results = []
    with cf.ThreadPoolExecutor(vlib.NCPU) as ex:
        results = list(ex.map(lambda p: run_population(tools, W, p[0], p[1]), pops))
    stdin_specs = [s for s in ws.corpus() if s.kind == 'stdin']
    sres = []
    with cf.ThreadPoolExecutor(vlib.NCPU) as ex:
        for r in ex.map(lambda s: stdin_sweep(tools, W, s, rep.tier), stdin_specs):
            sres.extend(r)
    # command errors: every way a program run by a `command` condition or an `exec` action can end or fail to start
    # (tools/cmdstatus.py: exit status, isolation and the documented meaning of each outcome on the real binary; the real evaluator
    # in-process against Model.eval on the same outcomes)
    status_cov = cmdstatus.stage(rep, sc, tools, W, random.Random(rep.seed + 3))
    corr_bad = []
    for r in results:
        if r['problems']:
            rep.finding('unlisted', {'population': r['kinds'], 'exit_status': r['status'], 'what': r['problems'][:6], 'stderr': r['stderr'],
                                     'config': CONF, 'messages': r['messages']})
        elif r['conform'] != 'ok':
            corr_bad.append(r)
    for r in sres:
        if r['problems']:
            rep.finding('unlisted', {'scenario': r['scenario'], 'fault_plan': r['plan'], 'call': r['call'], 'exit_status': r['status'], 'what': r['problems']})
    if corr_bad and not rep.violations:
        rep.violation({'obligation': 'correspondence: a run over a population with defective messages does not follow Model.mainP',
                       'disagreements': len(corr_bad), 'examples': corr_bad[:6]}, False)
    # ---- rule-shape family: the failing condition after a pass, in nested / break-ed blocks, in and/or/!, around attachment blocks ----
    import c04shapes
    rep.coverage['rule_shapes'] = c04shapes.stage(rep, tools, W)
    import c04stdin; rep.coverage['stdin_delivery_faults'] = c04stdin.stage(rep, tools, W)     # the MDA contract under every failure of the delivery path
    rep.coverage['stdin_unmatched'] = c04stdin.unmatched_witness(rep, tools)                 # F27: an unmatched stdin message is dropped with exit 0
    import isolation; rep.coverage['isolation'] = isolation.stage(rep, tools, 'C04')     # nothing leaks from one message / maildir / rule into the next (tools/isolation.py)
    import mdshapes; rep.coverage['maildir_shapes'] = mdshapes.stage_real(rep, tools, rep.tier)   # maildirs that are not complete maildirs next to healthy ones
    vlib.lean_conclude(rep)
    kinds = {}
    for r in results:
        for k in r['kinds']:
            kinds[k] = kinds.get(k, 0) + 1
    rep.coverage.update({
        'evaluations': len(results) * 2 + len(sres),
        'distinct_nontrivial': len([r for r in results if r['status'] == 1]) + len([r for r in sres if r['status'] == 75]),
        'rule': '%d random populations of 1-6 messages, each message of one of 9 defective kinds (invalid flag suffix, unparsable Date under a date '
                'rule, undecodable base64 under a body rule, MIME nested too deep under an attachment rule, missing destination, failing exec, '
                'failing interpolation, a multipart message with ONE defective part - undecodable base64 or nesting beyond 4 - before / between / '
                'after parts that match, under an attachment { ... exec stdin } action block and under an attachment body condition) with '
                'probability 0.4, plus %d fixed populations (every defective kind and every part layout next to good messages, whatever the seed), '
                'plus a second maildir: exit status 1 iff a defective message is present, the good '
                'messages end where the run without the defective ones puts them, defective ones untouched and no command run for them, for the '
                'good multipart messages the command ran exactly for the parts the documented semantics selects (helper record), the second '
                'maildir processed; '
                'call-by-call conformance with Model.mainP; %d single-fault runs (read/write: also EINTR) of the 5 stdin scenarios judged by the MDA contract (75 / 1 / '
                '0 only if stored intact or discarded, spool removed); non-trivial = runs that ended with an error status' % (npop, len(fixed), len(sres)),
        'samples': results[:2] + sres[:2],
        'kinds_exercised': kinds,
        'correspondence_mismatches': len(corr_bad),
        'command_status_family': status_cov,
    })


def replay(rep, path):
    import isolation
    if isolation.replay_file(rep, path):
        return
    import json
    j = json.load(open(path))
    print(json.dumps(j, indent=1)[:3000])
    sc = vlib.Scratch()
    vlib.lean_gate(rep, 'C04', sc, [])
    if j.get('family') == 'rule-shape':
        import c04shapes
        tools = proc.Tools(sc)
        c04shapes.replay(rep, tools, world.WorldCheck(sc, tools), j)
    if j.get('stage') == 'cmdstatus':
        tools = proc.Tools(sc)
        cmdstatus.replay_process(tools, world.WorldCheck(sc, tools), j)
    if j.get('family') == 'stdin-delivery':
        import c04stdin
        c04stdin.replay(rep, proc.Tools(sc), j)
    rep.coverage.update({'evaluations': 1, 'distinct_nontrivial': 1})
