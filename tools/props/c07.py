"""C07 - hostile message content cannot corrupt memory, crash or hang mdsort.

Theorems (Props/C07.lean): decoder outputs fit their buffers, table indices are in bounds, scanners
return pieces of their input, the loops terminate by themselves - on the list model.  That the C
code's pointers stay where the model's suffixes are is decided here: the real parser, MIME code,
decoders and evaluator run under ASan+UBSan on hostile inputs (structured seeds, mutations, and the
inputs a coverage-guided search adds), their results are compared with the model's, and the real
binary runs every input in maildir and stdin mode with a time limit."""
import concurrent.futures as cf
import hashlib
import itertools
import json
import os
import random
import re
import shutil
import subprocess
import time
import vlib
import gen_msg
import msgcommon as mc
import evalcommon as ec
import lbuf

BATTERY = os.path.join(vlib.HARNESS, 'fuzz', 'battery.conf')
DICT = os.path.join(vlib.HARNESS, 'fuzz', 'msg.dict')
NOMODEL = re.compile(r'date (access|modified|created)|isdirectory')
PAT = re.compile(r'(?<=\s)/((?:[^/\\\n]|\\.)*)/([ilu]*)')

# commands for the process stage (conditions and actions that fork)
PROC_EXTRA = '''maildir "~/md" {
	match header "X-Control" /yes/ move "~/yes"
	match command { "sh" "-c" "exit 1" } or header "Subject" /(.+)/ exec { "true" "\\1" } pass
	match body /(.*)/ exec stdin { "sh" "-c" "cat >/dev/null" } pass
	match all exec stdin body { "sh" "-c" "cat >/dev/null" } pass
}
'''


def battery_blocks():
    """[(config text of one block, [(pattern, flags)])] for the blocks the model can evaluate."""
    text = open(BATTERY).read()
    blocks = re.findall(r'^maildir "~/md" \{\n.*?^\}\n', text, re.S | re.M)
    out = []
    for b in blocks:
        lines = [l for l in b.split('\n') if not NOMODEL.search(l)]
        b2 = '\n'.join(lines)
        pats = [(m.group(1).replace('\\/', '/'), m.group(2)) for m in PAT.finditer(b2)]
        out.append((b2, pats))
    return out


def hostile_seeds(rng, n):
    """Structured seed corpus: the shapes the property names."""
    out = []
    mp = lambda bnd, parts, term=True: (b''.join(b'--' + bnd + b'\n' + p for p in parts) + (b'--' + bnd + b'--\n' if term else b''))
    leaf = lambda i: b'Content-Type: text/plain\n\npart %d\n' % i
    # many parts, flat and nested (16 and more inside a nested multipart: the attachment table is reallocated)
    for k in (1, 15, 16, 17, 33, 64, 200, 400):
        inner = b'Content-Type: multipart/mixed; boundary="i"\n\n' + mp(b'i', [leaf(i) for i in range(k)])
        out.append(b'To: a@b.c\nContent-Type: multipart/mixed; boundary="o"\n\n' + mp(b'o', [leaf(0), inner, leaf(1)]))
        out.append(b'Subject: flat\nContent-Type: multipart/alternative; boundary="o"\n\n' + mp(b'o', [leaf(i) for i in range(k)]))
    # nesting up to and beyond the limit
    for depth in range(1, 9):
        m = leaf(depth)
        for d in range(depth, 0, -1):
            b = b'b%d' % d
            m = b'Content-Type: multipart/mixed; boundary="' + b + b'"\n\n' + mp(b, [leaf(d), m])
        out.append(b'Subject: nest %d\n' % depth + m)
    # encodings
    import base64
    for body in (b'', b'A', b'Zm9v', b'Zm9vYg==', b'Zm9vYmE=', b'Zg=', b'Zg', b'====', b'Z m 9 v\n', b'Zm9v' * 3000, b'=', b'=4', b'=41=\n', b'a=\n=\nb', b'=zz', b'\xff\xfe='):
        for enc in (b'base64', b'quoted-printable', b'BASE64', b'7bit'):
            out.append(b'Content-Transfer-Encoding: ' + enc + b'\nContent-Type: text/plain\n\n' + body)
            out.append(b'Content-Type: multipart/alternative; boundary="b"\n\n--b\nContent-Type: text/plain\nContent-Transfer-Encoding: ' + enc + b'\n\n' + body + b'\n--b--\n')
    # headers: folded, duplicated, encoded words, odd separators
    for v in (b'=?utf-8?Q?a_b=3D?=', b'=?x?B?Zm9v?= =?x?B?YmFy?=', b'=?x?B?!!?=', b'=?a?b?c', b'=?=?x?Q?a?=', b'=?x?q?=?=', b'=?x?Q?a=0Ab?=', b'a\n\tb\n c',
              b'x' * 9000, b'', b' ', b'\t\n\t', b'=?' * 3000):
        out.append(b'Subject: ' + v + b'\nSubject: ' + v + b'\nX-Label: ' + v + b'\nTo: ' + v + b'@example.com\n\nbody\n')
    out.append(b''.join(b'H%d: v%d\n' % (i % 7, i) for i in range(3000)) + b'\nbody\n')
    out.append(b'From mbox line\nTo: a\n\nb\n')
    out.append(b'From unterminated separator')
    out.append(b'NoColonHere\nTo: a\n\nb\n')
    out.append(b'To: a')               # truncated: no newline
    out.append(b'To: a\n')             # no empty line
    out.append(b'To')                  # no colon
    out.append(b':\n\n')
    out.append(b'\n\n\n')
    out.append(b'')
    out.append(b'To: a\x00b\nSub\x00ject: c\n\nbo\x00dy\n')
    out.append(b'To: a\r\nSubject: b\r\n\r\nbody\r\n')
    out.append(b'Subject: caf\xc3\xa9 \xff\xfe\x80\n\n\xc3\n')
    out.append(b'Content-Type: multipart/mixed; boundary="\nTo: a\n\n--\n')
    out.append(b'Content-Type: multipart/mixed; boundary=""\n\n----\n')
    out.append(b'Content-Type: multipart/mixed; boundary="b"\n\n--b')
    out.append(b'Content-Type: multipart/mixed; boundary="b"\n\n--b\n')
    out.append(b'Content-Type: multipart/mixed; boundary="b"\n\n--b--')
    out.append(b'Content-Type: multipart/mixed; boundary="' + b'b' * 5000 + b'"\n\n--' + b'b' * 5000 + b'\nTo: x\n\ny\n--' + b'b' * 5000 + b'--\n')
    # boundaries out of RFC 2047 encoded words (newline, CR, control bytes, "--") with delimiter look-alikes: findboundary compares bytes
    # and resumes after the text it compared (the witness that separated the former list model from message.c, and its relatives)
    out.append(gen_msg.PG2_WITNESS)
    out += gen_msg.PG2_RELATIVES
    for _ in range(40):
        out.append(gen_msg.encoded_boundary_message(rng))
    out.append(b'Date: ' + b'9' * 400 + b'\n\n')
    out.append(b'Date: Mon, 31 Feb 2025 25:61:61 +9999\n\n')
    out.append(b'Date: Thu, 01 Jan 1970 00:00:00 -9999\n\n')
    out.append(b'Subject: ' + b'a' * 65000 + b'\n\n')
    out.append(b'Subject: x\n\n' + b' \t' * 20000 + b'aab\n')
    out.append(b'Subject: x\n\n' + b'\n' * 30000 + b'aaaab\n')
    while len(out) < n:
        k = rng.random()
        if k < 0.55:
            m = gen_msg.mime_message(rng, maxdepth=rng.choice([1, 2, 3, 6, 8]), parts_max=rng.choice([3, 6, 20, 60]))
        else:
            m = gen_msg.simple_message(rng, wellformed=rng.random() < 0.6)
        out.append(m)
    return [m[:65536] for m in out]


def mutate(rng, m):
    """Byte-level mutation that keeps NUL, CR and 8-bit bytes (gen_msg.mutate avoids NUL)."""
    m = bytearray(gen_msg.mutate(rng, m)) if rng.random() < 0.5 else bytearray(m)
    for _ in range(rng.randrange(0, 4)):
        if not m:
            break
        i = rng.randrange(len(m))
        k = rng.randrange(5)
        if k == 0:
            m[i] = rng.choice([0, 13, 0x80, 0xff, 0xc3, 0x3d, 0x2d])
        elif k == 1:
            m[i:i] = bytes([rng.choice([0, 13, 0x80, 0xff])]) * rng.choice([1, 2, 70])
        elif k == 2:
            j = rng.randrange(len(m))
            a, b = min(i, j), max(i, j)
            m[a:a] = m[a:b] * rng.choice([1, 2, 5])
        elif k == 3:
            m = m[:i]
        else:
            m[i] ^= 1 << rng.randrange(8)
    return bytes(m[:65536])


def coverage_search(rep, sc, seeds, seconds, workers):
    """libFuzzer over the real code (ASan+UBSan).  Returns (artifacts, corpus inputs, stats)."""
    fz = sc.fuzz_target('fz_msg')
    seeddir = os.path.join(sc.dir, 'fz-seeds')
    os.makedirs(seeddir, exist_ok=True)
    for m in seeds:
        with open(os.path.join(seeddir, hashlib.sha1(m).hexdigest()), 'wb') as fh:
            fh.write(m)
    env = dict(os.environ, FZ_CONF=BATTERY, HARNESS_TMP=sc.dir, ASAN_OPTIONS='detect_leaks=0:abort_on_error=0', UBSAN_OPTIONS='print_stacktrace=1')

    def one(w):
        cdir = os.path.join(sc.dir, 'fz-corpus-%d' % w)
        adir = os.path.join(sc.dir, 'fz-art-%d' % w) + '/'
        os.makedirs(cdir, exist_ok=True)
        os.makedirs(adir, exist_ok=True)
        cmd = [fz, '-max_total_time=%d' % seconds, '-max_len=65536', '-timeout=10', '-rss_limit_mb=4096', '-close_fd_mask=3', '-detect_leaks=0',
               '-seed=%d' % (rep.seed * 1000 + w + 1), '-dict=' + DICT, '-artifact_prefix=' + adir, '-print_final_stats=1', cdir, seeddir]
        r = subprocess.run(cmd, env=env, capture_output=True, timeout=seconds + 600)
        err = r.stderr.decode('latin-1')
        st = {k: int(v) for k, v in re.findall(r'stat::(\w+):\s+(\d+)', err)}
        cov = re.findall(r'cov: (\d+) ft: (\d+)', err)
        st['cov'], st['ft'] = (int(cov[-1][0]), int(cov[-1][1])) if cov else (0, 0)
        arts = []
        for f in sorted(os.listdir(adir)):
            arts.append((f, open(os.path.join(adir, f), 'rb').read(), err[-6000:]))
        new = []
        for f in os.listdir(cdir):
            new.append(open(os.path.join(cdir, f), 'rb').read())
        return r.returncode, arts, new, st

    with cf.ThreadPoolExecutor(workers) as ex:
        res = list(ex.map(one, range(workers)))
    arts, corpus, stats = [], [], {'executed': 0, 'cov_edges': 0, 'features': 0, 'new_units': 0, 'workers': workers, 'seconds_each': seconds}
    for rc, a, new, st in res:
        arts += a
        corpus += new
        stats['executed'] += st.get('number_of_executed_units', 0)
        stats['new_units'] += st.get('new_units_added', 0)
        stats['cov_edges'] = max(stats['cov_edges'], st.get('cov', 0))
        stats['features'] = max(stats['features'], st.get('ft', 0))
        if rc != 0 and not a:
            raise vlib.CheckError('libFuzzer worker failed without an artifact (rc=%s)' % rc)
    return arts, corpus, stats


def classify_artifact(name, log):
    if name.startswith('timeout'):
        return 'hang (more than 10 s on one input)'
    if name.startswith('oom'):
        return 'memory exhaustion'
    m = re.search(r'(ERROR: AddressSanitizer: [^\n]*|runtime error: [^\n]*|SUMMARY: [^\n]*)', log)
    return m.group(1) if m else 'death by signal'


def stdin_conf(conf_text):
    """One stdin block holding the rules of every block (a second stdin block is a configuration error)."""
    inner = []
    for b in re.findall(r'^maildir "~/md" \{\n(.*?)^\}\n', conf_text, re.S | re.M):
        inner.append(b)
    return 'stdin {\n' + ''.join(inner).replace('flag !new', 'label "n" pass').replace('flags "F"', 'label "f" pass').replace('flags "T"', 'label "t"') + '}\n'


def process_stage(rep, sc, msgs, conf_text):
    """Every message through the real ASan/UBSan binary: maildir mode and stdin mode, with a time limit."""
    binp = sc.binary('asan')
    base = os.path.join(sc.dir, 'proc')
    os.makedirs(base, exist_ok=True)
    env0 = dict(os.environ, ASAN_OPTIONS='detect_leaks=0:abort_on_error=0:exitcode=99', UBSAN_OPTIONS='print_stacktrace=1:exitcode=99', TZ='UTC', LC_ALL='C')

    def one(arg):
        i, m = arg
        home = os.path.join(base, 'h%d' % i)
        res = []
        for mode in ('maildir', 'stdin'):
            shutil.rmtree(home, ignore_errors=True)
            for d in ('md/new', 'md/cur', 'md/tmp', 'dst/new', 'dst/cur', 'dst/tmp', 'yes/new', 'yes/cur', 'tmp'):
                os.makedirs(os.path.join(home, d))
            conf = os.path.join(home, 'conf')
            if mode == 'stdin':
                with open(conf, 'w', encoding='latin-1') as fh:
                    fh.write(stdin_conf(conf_text))
            else:
                with open(conf, 'w', encoding='latin-1') as fh:
                    fh.write(conf_text)
                with open(os.path.join(home, 'md', 'cur' if i % 2 else 'new', '1.host:2,RS' if i % 2 else '1.host'), 'wb') as fh:
                    fh.write(m)
                with open(os.path.join(home, 'md/new/0control.host'), 'wb') as fh:
                    fh.write(b'X-Control: yes\n\nc\n')
            env = dict(env0, HOME=home, TMPDIR=os.path.join(home, 'tmp'))
            cmd = [binp, '-f', conf] + (['-'] if mode == 'stdin' else [])
            t0 = time.time()
            try:
                r = subprocess.run(cmd, env=env, input=(m if mode == 'stdin' else b''), capture_output=True, timeout=30, cwd=home)
                status, err = r.returncode, r.stderr.decode('latin-1')
            except subprocess.TimeoutExpired as e:
                status, err = 'timeout', (e.stderr or b'').decode('latin-1')
            prob = None
            if status == 'timeout':
                prob = 'no termination within 30 s'
            elif status < 0:
                prob = 'death by signal %d' % -status
            elif 'AddressSanitizer' in err or 'runtime error:' in err or status == 99:
                mm = re.search(r'(ERROR: AddressSanitizer: [^\n]*|[^\n]*runtime error: [^\n]*)', err)
                prob = mm.group(1) if mm else 'sanitizer exit'
            elif status not in (0, 1, 75):
                prob = 'abnormal exit status %r' % status
            elif mode == 'maildir':
                # a malformed message is a non-match or an error for THAT message: the control message is still handled
                if not os.listdir(os.path.join(home, 'yes/new')):
                    prob = 'the well-formed control message next to the hostile one was not processed (exit %s)' % status
            res.append({'mode': mode, 'status': status, 'problem': prob, 'seconds': round(time.time() - t0, 2), 'stderr': err[-800:] if prob else ''})
        shutil.rmtree(home, ignore_errors=True)
        return i, res

    with cf.ThreadPoolExecutor(vlib.NCPU) as ex:
        return list(ex.map(one, enumerate(msgs)))


L0_ALPHABET = [b'=', b'?', b'Q', b'b', b'Z', b'g', b'4', b'A', b' ', b'\n', b'\t', b'_', b':', b'-']


def l0_requests(rng, pool, quick):
    """Requests `op hexargs...` on which the index-level (L0) transcription and the list model (L1) must agree."""
    cut = lambda b: b.split(b'\0')[0]
    reqs = []
    # every string up to length 3 over the alphabet, and random longer ones, through the decoders and unfoldheader
    small = [b'']
    for n in (1, 2, 3):
        small += [b''.join(t) for t in itertools.product(L0_ALPHABET, repeat=n)]
    for _ in range(2000 if quick else 60000):
        small.append(b''.join(rng.choice(L0_ALPHABET) for _ in range(rng.randrange(4, 24))))
    small += [b'Zm9v', b'Zm9vYg==', b'Zm9vYmE=', b'Zg=', b'Zg= =', b'Zg==  ', b'=?utf-8?Q?a_b=3D?=', b'=?x?B?Zm9v?= =?x?b?YmFy?=', b'=?x?B?!!?=',
              b'=?a?b?c', b'=?=?x?Q?a?=', b'=?x?q?=?=', b'=41=\n', b'a=\n=\nb', b'a\n\tb\n c', b'\t\n\t', b'\xff\xfe=', b'=?' * 50]
    for s in small:
        for op in ('b64raw', 'qp', 'qph', 'r2047raw', 'unfold'):
            reqs.append((op, s))
        reqs.append(('b64n', s, b'x' * rng.randrange(0, 8)))
    # isbackref / ismacro / pathslice on strings over their own alphabets
    balpha = [b'\\', b'1', b'0', b'9', b'.', b'-', b'+', b' ', b'a', b'$', b'{', b'}', b'/']
    for _ in range(3000 if quick else 60000):
        s = b''.join(rng.choice(balpha) for _ in range(rng.randrange(0, 9)))
        reqs.append(('isbackref', s))
        reqs.append(('ismacro', s))
        path = b''.join(rng.choice([b'/', b'/', b'a', b'bc', b'.']) for _ in range(rng.randrange(1, 9)))
        reqs.append(('pslice', path, b'%d' % rng.choice([0, 1, 2, 3, 5, 8, 64]), b'%d' % rng.randrange(-4, 5), b'%d' % rng.randrange(-4, 5)))
    reqs += [('isbackref', b'\\99999999999'), ('isbackref', b'\\1.99999999999'), ('isbackref', b'\\1\\.'), ('isbackref', b'\\1.-0'),
             ('isbackref', b'\\2147483647'), ('isbackref', b'\\2147483648'), ('ismacro', b'${'), ('ismacro', b'${}'), ('ismacro', b'$')]
    # the messages of this run: header table, lookups, part tables; their lines as decoder inputs
    names = [b'Content-Type', b'content-type', b'Subject', b'To', b'X-Label', b'H3', b'Content-Transfer-Encoding', b'zz', b'A']
    msgs = list(pool)
    rng.shuffle(msgs)
    for m in msgs[:(700 if quick else 20000)]:
        m = m[:20000]
        reqs.append(('hparse', m))
        reqs.append(('nparts', m))
        reqs.append(('hget', rng.choice(names), m))
        lines = [l for l in cut(m).split(b'\n') if l]
        for l in rng.sample(lines, min(len(lines), 3)):
            v = l.split(b':', 1)[-1].strip()
            reqs.append((rng.choice(['b64raw', 'b64', 'qp', 'r2047', 'r2047raw']), cut(v)))
        body = cut(m).split(b'\n\n', 1)[-1][:4000]
        reqs.append((rng.choice(['b64raw', 'qp', 'unfold']), body))
    return reqs


def l0_stage(rep, rng, pool, quick):
    """Model layers: the index-level transcription (every access bounds-checked, `C07_L0_*`) must return without
    a fault and agree with the list model that is compared with the C code above."""
    reqs = l0_requests(rng, pool, quick)
    lines = [vlib.Differential.line(r) for r in reqs]
    drv = [vlib.driver_path()]
    l1 = vlib.run_batch(drv, ['M ' + l for l in lines])
    l0 = vlib.run_batch(drv, ['l0 ' + l for l in lines])
    bad = [(l, a, b) for l, a, b in zip(lines, l1, l0) if b != 'OK ' + a]
    if bad and not rep.violations:
        faults = [x for x in bad if x[2].startswith('FAULT')]
        rep.violation({'obligation': 'model layers: the index-level model (Model/L0, bounds-checked accesses) and the list model '
                                     '(Model/Decode, Header, Mime) must agree and the index-level model must not fault',
                       'disagreements': len(bad), 'faults': len(faults),
                       'examples': [{'request': l[:4000], 'list_model': a[:2000], 'index_model': b[:2000]} for l, a, b in (faults + bad)[:6]]}, False)
    ops = {}
    for r in reqs:
        ops[r[0]] = ops.get(r[0], 0) + 1
    return {'requests': len(reqs), 'by_op': ops, 'disagreements': len(bad)}


def run(rep):
    rng = random.Random(rep.seed)
    sc = vlib.Scratch()
    vlib.lean_gate(rep, 'C07', sc, [
        'memory safety of the C code itself is NOT a theorem: the model is over byte lists, where a read past the terminator cannot be '
        'expressed; it is observed with AddressSanitizer/UndefinedBehaviorSanitizer on the inputs of this run, while the results of the same '
        'executions are compared with the model whose bounds/progress theorems are proved',
        'libFuzzer (coverage-guided search), clang/gcc sanitizer runtimes, glibc regcomp/regexec; libks vector as far as Model/L0/Vector.lean goes; '
        'libks buffer: modelled at index level (Model/L0/Buffer.lean, C07_L0_buffer_*) and compared with the real buffer.c on operation sequences '
        'at every capacity boundary; realloc/calloc failure and size_t overflow are not modelled',
    ])
    quick = rep.tier == 'quick'
    nseed = 500 if quick else 3000
    seeds = hostile_seeds(rng, nseed)
    # 1. coverage-guided search for a failing input, from the structured seeds
    arts, grown, fstats = coverage_search(rep, sc, seeds, 30 if quick else 900, min(vlib.NCPU, 8 if quick else 16))
    seen = set()
    for name, data, log in arts:
        cls = classify_artifact(name, log)
        if cls in seen:
            continue
        seen.add(cls)
        rep.finding('sanitizer-fault', {'stage': 'coverage-guided search (harness/fuzz/fz_msg.c)', 'what': cls, 'input_hex': data.hex()[:200000],
                                        'input_len': len(data), 'log_tail': log[-3000:],
                                        'replay_cmd': 'python3 tools/check.py C07 --replay <this file>'})
    # 2. model <-> implementation on hostile inputs
    grown = sorted(set(grown), key=lambda b: hashlib.sha1(b).digest())
    rng.shuffle(grown)
    muts = [mutate(rng, rng.choice(seeds)) for _ in range(1500 if quick else 40000)]
    pool = seeds + muts + grown[:(1500 if quick else 40000)]
    h, env = mc.harness(sc)
    reqs = mc.corpus('C07')
    for m in pool:
        reqs.append(('hparse', m))
        reqs.append(('parts', m))
        reqs.append(('body', m))
    d = vlib.Differential(rep, [h], env=env, spec_ops=set(), name='h_message')
    impl, model, spec = d.run(reqs, shrink=False)
    d.conclude('message.c (message_parse, parseattachments, message_get_body, decoders) <-> Model/Header.lean, Mime.lean, Decode.lean on hostile inputs')
    # 2b. the index-level model (bounds-checked accesses, C07_L0_*) against the list model just compared with the C code
    l0stats = l0_stage(rep, rng, pool, quick)
    # 2c. the growable buffer every string is built in: real libks/buffer.c under ASan+UBSan <-> index-level model <-> append statement,
    # operation sequences landing on, below and above every capacity (tools/lbuf.py); its own random stream
    bstage = lbuf.stage(rep, sc, random.Random(rep.seed * 7919 + 7), 4000 if quick else 60000, big=True)
    # evaluator with the battery
    h2, env2 = ec.harness(sc)
    env2 = dict(env2, LC_ALL='C')     # the model's regex oracle runs in the C locale
    blocks = battery_blocks()
    esample = pool if not quick else (seeds[:250] + muts[:300] + grown[:300])
    cases = []
    for m in esample:
        if len(m) > 20000 and quick:
            continue
        conf, pats = blocks[rng.randrange(len(blocks))]
        cases.append(ec.Case(conf, pats, m, rng.choice(['new', 'cur']), rng.choice(['1.host', '2.host:2,S', '3.host:2,FRS', '4.host:2,abcXYZ']), '1'))
    ec.run_cases(h2, env2, cases, want_spec=False, denv=dict(os.environ, LC_ALL='C'))
    ebad, efault, enoeval = [], 0, 0
    tri = {}
    for c in cases:
        if c.note == 'fault':
            efault += 1
            if efault <= 3:
                rep.finding('sanitizer-fault', dict(c.readable(), implementation=c.impl, stage='evaluator harness (h_expr.c)'))
            continue
        if c.note in ('noeval', 'pattern-count'):
            enoeval += 1
            continue
        t = (c.impl or '').split(' ')[0]
        tri[t] = tri.get(t, 0) + 1
        if c.model is not None and c.impl != c.model:
            ebad.append(c)
    if enoeval:
        rep.violation({'obligation': 'the battery must be accepted by the real parser', 'cases': enoeval,
                       'example': [c.impl for c in cases if c.note in ('noeval', 'pattern-count')][:2]}, False)
    if ebad and not rep.violations:
        rep.violation({'obligation': 'correspondence expr_eval/matches_interpolate/matches_inspect <-> Model/Eval.lean, Inspect.lean on hostile inputs',
                       'disagreements': len(ebad),
                       'examples': [dict(c.readable(), implementation=c.impl[:2000], model=(c.model or '')[:2000]) for c in ebad[:4]]}, False)
    # 3. the real binary
    psample = (seeds[:150] + muts[:120] + grown[:130]) if quick else (seeds + muts[:3000] + grown[:3000])
    conf_text = PROC_EXTRA + open(BATTERY).read()
    pres = process_stage(rep, sc, psample, conf_text)
    pstat, nprob = {}, 0
    for i, res in pres:
        for r in res:
            pstat['%s:%s' % (r['mode'], r['status'])] = pstat.get('%s:%s' % (r['mode'], r['status']), 0) + 1
            if r['problem']:
                nprob += 1
                if nprob <= 4:
                    rep.finding('sanitizer-fault' if 'control message' not in r['problem'] else 'unlisted',
                                {'stage': 'real binary (ASan+UBSan), %s mode' % r['mode'], 'what': r['problem'], 'exit_status': r['status'],
                                 'message_hex': psample[i].hex()[:200000], 'stderr': r['stderr'], 'config': conf_text,
                                 'replay_cmd': 'python3 tools/check.py C07 --replay <this file>'})
    vlib.lean_conclude(rep)
    sizes = {'<256': 0, '<4k': 0, '<64k': 0, '64k': 0}
    for m in pool:
        sizes['<256' if len(m) < 256 else '<4k' if len(m) < 4096 else '<64k' if len(m) < 65536 else '64k'] += 1
    nparts = {}
    for r, i in zip(reqs, impl):
        if r[0] == 'parts':
            k = 'fault' if i.startswith('FAULT') else 'error' if i == 'NONE' else ('0' if i == 'P0' else '1-15' if int(i.split(' ')[0][1:]) < 16 else '16+')
            nparts[k] = nparts.get(k, 0) + 1
    rep.coverage.update({
        'evaluations': d.evals + len(cases) + 2 * len(psample) + fstats['executed'],
        'distinct_nontrivial': len(set(pool)),
        'rule': '%d structured seeds (nested multiparts with 1-400 parts, nesting 1-8, every encoding with malformed payloads, folded/duplicated/'
                'encoded headers, NUL/CR/8-bit, truncations, 64 KiB lines), %d byte-level mutants of them, %d inputs added by a coverage-guided '
                'search (libFuzzer, %d workers x %d s, %d executions under ASan+UBSan of parser+MIME+decoders+evaluator+interpolation+dry-run '
                'rendering+message_write with the battery); every pooled input is parsed, split into parts and body-decoded by the real code under '
                'ASan/UBSan and compared with the Lean model; %d of them are evaluated with a battery block by the real evaluator and compared '
                'with the model; %d run through the real ASan binary in maildir and stdin mode (exec/command included) with a 30 s limit and a '
                'well-formed control message that must still be handled; non-trivial = distinct pooled inputs'
                % (len(seeds), len(muts), len(grown), fstats['workers'], fstats['seconds_each'], fstats['executed'], len(cases), len(psample)),
        'samples': [{'request': d.line(reqs[i])[:200], 'implementation': impl[i][:120]} for i in rng.sample(range(len(reqs)), 3)],
        'input_sizes': sizes,
        'parts_histogram': nparts,
        'evaluator_outcomes': tri,
        'process_outcomes': pstat,
        'coverage_search': fstats,
        'index_level_model_vs_list_model': l0stats,
        'libks_buffer': bstage,
        'correspondence_mismatches': len(d.corr_mismatch) + len(ebad) + l0stats['disagreements'] + bstage['model_mismatches'],
        'sanitizer_faults': len(d.faults) + efault + len(arts),
    })
    rep.assumptions += ['C locale; inputs up to 64 KiB; one hostile message per run next to one control message',
                        'the battery (harness/fuzz/battery.conf plus exec/command rules) is fixed']


def replay(rep, path):
    j = json.load(open(path))
    sc = vlib.Scratch()
    vlib.lean_gate(rep, 'C07', sc, [])
    data = bytes.fromhex(j.get('input_hex') or j.get('message_hex') or '')
    if str(j.get('stage', '')).startswith('libks buffer'):
        lbuf.replay(rep, sc, j)
    elif 'request' in j and not data:
        h, env = mc.harness(sc)
        print(vlib.run_batch([h], [j['request']], env))
    else:
        fz = sc.fuzz_target('fz_msg')
        f = os.path.join(sc.dir, 'replay-input')
        open(f, 'wb').write(data)
        env = dict(os.environ, FZ_CONF=BATTERY, HARNESS_TMP=sc.dir, ASAN_OPTIONS='detect_leaks=0')
        r = subprocess.run([fz, '-timeout=10', f], env=env, capture_output=True)
        print(r.stderr.decode('latin-1')[-4000:])
        print('exit', r.returncode)
    rep.coverage.update({'evaluations': 1, 'distinct_nontrivial': 1})
