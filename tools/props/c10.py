"""C10 - header conditions see headers the way a mail reader does."""
import random
import vlib
import gen_msg
import msgcommon as mc

SPEC_OPS = {'hget', 'unfold'}


def run(rep):
    rng = random.Random(rep.seed)
    sc = vlib.Scratch()
    h, env = mc.harness(sc)
    vlib.lean_gate(rep, 'C10', sc, [
        'POSIX regcomp/regexec (platform library) is outside the model: the theorems fix the value handed to it',
        'modelled, not verified: qsort stability, strcasecmp/isspace in the C locale',
    ])
    n = 8000 if rep.tier == 'quick' else 200000
    msgs = mc.messages(rng, n, wf_share=0.85)
    reqs = mc.corpus('C10')
    for m in msgs:
        for _ in range(2):
            reqs.append(('hget', rng.choice(gen_msg.NAMES + [b'nosuch', b'']), m))
        reqs.append(('unfold', gen_msg.value(rng)))
        # lookups must still work after a rewrite (table order)
        reqs.append(mc.set_requests(rng, m))
    d = vlib.Differential(rep, [h], env=env, spec_ops=SPEC_OPS, name='h_message')
    impl, model, spec = d.run(reqs)
    d.conclude('message.c (message_get_header, searchheader, unfoldheader) <-> Model/Header.lean')
    vlib.lean_conclude(rep)
    nontriv = set(r for r, i, s in zip(reqs, impl, spec) if s is not None and r[0] == 'hget' and i.startswith('V'))
    multi = sum(1 for r, i in zip(reqs, impl) if r[0] == 'hget' and i.count(',') > 1)
    rep.coverage.update({
        'evaluations': d.evals,
        'distinct_nontrivial': len(nontriv),
        'rule': '%d generated messages; 2 lookups each by a random name (any case) compared with the decoded logical values of the '
                'line-based reading, 1 unfolding, 1 rewrite followed by a lookup; non-trivial = well-formed message and the field is '
                'present; distinct by (name, message)' % n,
        'samples': [{'request': d.line(reqs[i])[:300], 'implementation': impl[i][:200], 'specification': (spec[i] or 'outside domain')[:200]}
                    for i in rng.sample(range(len(reqs)), 4)],
        'lookups_with_several_occurrences': multi,
        'correspondence_mismatches': len(d.corr_mismatch),
        'spec_failures': len(d.spec_fail),
        'sanitizer_faults': len(d.faults),
    })
    rep.assumptions += ['C locale / C.utf8', 'message well-formed in the sense of Spec.read for the specification side']


def replay(rep, path):
    mc.generic_replay(rep, path, 'C10', SPEC_OPS, {})
