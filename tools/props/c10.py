"""C10 - header conditions see headers the way a mail reader does."""
import concurrent.futures as cf
import random
import vlib
import gen_msg
import msgcommon as mc
import proc
import localeproc as lp
import mbtext

SPEC_OPS = {'hget', 'unfold'}


def locale_stage(rep, sc, rng):
    """Header conditions on the real binary under LC_ALL=C and LC_ALL=C.utf8 (tools/localeproc.py): a message is moved by a real
    run, and listed by -d, iff the platform's regexec under that locale matches the pattern on the decoded value of a Subject
    field (reference: `Spec.headerCands`/`firstNonNomatch` in the Lean driver run under the same LC_ALL)."""
    tools = proc.Tools(sc)
    fams = [f for f in lp.families(rng, rep.tier) if f.kind == 'header']
    with cf.ThreadPoolExecutor(min(8, vlib.NCPU)) as ex:
        list(ex.map(lambda f: lp.run_family(tools, f), fams))
    st = {'configurations': len(fams), 'messages_each': len(fams[0].msgs) if fams else 0, 'decisions_compared': 0, 'matching': 0,
          'locale_sensitive_decisions': 0, 'disagreements': 0}
    refs = {l: lp.reference(fams, l) for l in mbtext.LOCALES}
    bad = []
    for fi, f in enumerate(fams):
        for l in mbtext.LOCALES:
            res = f.result[l]
            for k, m in f.msgs:
                ref = refs[l].get((fi, k))
                if ref is None:
                    st['no_reference_verdict'] = st.get('no_reference_verdict', 0) + 1
                    if res['status'] != (0, 0) and k == f.msgs[0][0]:
                        st.setdefault('rejected_patterns', []).append('%s under LC_ALL=%s: regcomp and mdsort both reject it' % (f.readable()['rule'], l))
                    continue
                if res['status'] != (0, 0):
                    what = ['mdsort exits %r (-d) / %r (real run) on a configuration the platform regcomp accepts: %s' % (res['status'] + (res['stderr'],))]
                else:
                    listed, moved = k in res['dry'], k in res['moved']
                    st['decisions_compared'] += 1
                    st['matching'] += 1 if ref[0] else 0
                    other = refs['C' if l != 'C' else 'C.utf8'].get((fi, k))
                    if other is not None and other[0] != ref[0]:
                        st['locale_sensitive_decisions'] += 1
                    what = []
                    if moved != ref[0]:
                        what.append('real run under LC_ALL=%s %s the message; regexec under that locale on the decoded value %r says %s' %
                                    (l, 'moves' if moved else 'does not move', ref[1] if ref[0] else '(see message)', 'match' if ref[0] else 'no match'))
                    if listed != ref[0]:
                        what.append('-d under LC_ALL=%s %s the message; regexec under that locale says %s' %
                                    (l, 'lists' if listed else 'does not list', 'match' if ref[0] else 'no match'))
                    if listed != moved:
                        what.append('-d %s the message, the real run %s it (same locale)' % ('lists' if listed else 'does not list', 'moves' if moved else 'does not move'))
                    if res['dry_changed_tree']:
                        what.append('-d changed the tree')
                if what:
                    st['disagreements'] += 1
                    bad.append((f, l, m, what))
                    if res['status'] != (0, 0):
                        break

    def plain(x):
        # well-formed UTF-8 pattern and message first: the easiest failing inputs to read
        f, l, m, what = x
        try:
            f.patb.decode('utf-8'), m.decode('utf-8')
            return (0, len(m))
        except UnicodeDecodeError:
            return (1, len(m))
    for f, l, m, what in sorted(bad, key=plain)[:6]:
        rep.finding('unlisted', dict(f.readable(), locale='LC_ALL=' + l, message=repr(m), what=what, stage='locale (real binary)',
                                     reproduce='LC_ALL=%s mdsort [-d] -f conf with: maildir "src" { %s }' % (l, f.readable()['rule'])))
    st['unit'] = locale_unit_stage(rep, sc, rng, fams, refs)
    return st


def locale_unit_stage(rep, sc, rng, fams, refs):
    """The same rules through the real parser and evaluator in-process (harness h_expr, which selects the locale of its environment
    like main() does) under both locales: result, recorded sub-match offsets and the interpolated capture compared with the Lean
    model run under the same LC_ALL (correspondence) and with the reference verdict and offsets (failing input)."""
    import evalcommon as ec
    import os
    h, env = ec.harness(sc)
    st = {'evaluations': 0, 'matching': 0, 'sub_matches_compared': 0, 'correspondence_mismatches': 0, 'disagreements': 0}
    corr, bad = [], []
    for l in mbtext.LOCALES:
        cases, keys = [], []
        for fi, f in enumerate(fams):
            for k, m in f.msgs:
                if rep.tier == 'quick' and rng.random() < 0.5:
                    continue
                lu = rng.choice(['', '', 'l', 'u'])
                src = f.patb.decode('latin-1')
                conf = 'maildir "~/md" {\n\tmatch header "%s" /%s/%s move "~/dst/\\0"\n}\n' % (f.hname.decode('latin-1'), src, f.flags + lu)
                c = ec.Case(conf, [(src, f.flags + lu)], m, 'new', '%d.host' % k, '0')
                c.locale = l
                cases.append(c)
                keys.append((fi, k))
        ec.run_cases(h, dict(env, LC_ALL=l), cases, want_spec=False, denv=dict(os.environ, LC_ALL=l))
        st['evaluations'] += len(cases)
        for c, key in zip(cases, keys):
            if c.note == 'fault':
                rep.finding('sanitizer-fault', dict(c.readable(), implementation=c.impl))
                continue
            ref = refs[l].get(key)
            if c.model is None:
                if ref is not None and not (c.impl or '').startswith('CONFERR'):
                    bad.append((c, ['the harness gives no evaluation: %r' % (c.impl or '')[:80]]))
                continue
            if ec.impl_core(c) != ec.model_core(c):
                corr.append(c)
            if ref is None:
                continue
            e = c.impl.split(' ')
            what = []
            if (e[0] == 'MATCH') != ref[0]:
                what.append('the evaluator says %s; regexec under LC_ALL=%s on the decoded value says %s' % (e[0], l, 'match' if ref[0] else 'no match'))
            elif ref[0]:
                hdr = [x for x in ec.parse_ml(e[1]) if x[0] == 'header']
                subs = [None if t.split('/')[1] == '-' else (int(t.split('/')[1]), int(t.split('/')[2])) for t in hdr[0][6].split('+')] if hdr and hdr[0][6] else []
                st['matching'] += 1
                st['sub_matches_compared'] += len(subs)
                if subs != ref[2]:
                    what.append('recorded sub-matches %r, regexec gives %r on %r' % (subs, ref[2], ref[1]))
            if what:
                bad.append((c, what))
    st['correspondence_mismatches'], st['disagreements'] = len(corr), len(bad)
    for c, what in bad[:5]:
        rep.finding('unlisted', dict(c.readable(), what=what, implementation=c.impl[:600], stage='locale (evaluator in-process)'))
    if corr and not rep.violations:
        rep.violation({'obligation': 'correspondence expr_eval_header/expr_regexec/match_copy <-> Model/Eval.lean under LC_ALL=C and C.utf8',
                       'disagreements': len(corr),
                       'examples': [dict(c.readable(), implementation=c.impl[:600], model=(c.model or '')[:600]) for c in corr[:4]]}, False)
    return st


def run(rep):
    rng = random.Random(rep.seed)
    sc = vlib.Scratch()
    h, env = mc.harness(sc)
    vlib.lean_gate(rep, 'C10', sc, [
        'POSIX regcomp/regexec (platform library) is outside the model: the theorems fix the value handed to it',
        'modelled, not verified: qsort stability, strcasecmp/isspace in the C locale',
        'the call setlocale(LC_CTYPE, "") of main() is not part of the model: that the regex engine of a real run and of -d works in the '
        'locale of the environment is observed on the real binary (LC_ALL=C and C.utf8, the only UTF-8 locale of this image) against the '
        'platform regexec called under the same LC_ALL through the FFI',
    ])
    n = 8000 if rep.tier == 'quick' else 200000
    msgs = mc.messages(rng, n, wf_share=0.85)
    reqs = mc.corpus('C10')
    for m in msgs:
        for _ in range(2):
            reqs.append(('hget', rng.choice(gen_msg.NAMES + [b'nosuch', b'']), m))
        reqs.append(('unfold', gen_msg.value(rng)))
        # lookups must still work after a rewrite (table order)
        reqs.append(mc.set_requests(rng, m))
    d = vlib.Differential(rep, [h], env=env, spec_ops=SPEC_OPS, name='h_message')
    impl, model, spec = d.run(reqs)
    d.conclude('message.c (message_get_header, searchheader, unfoldheader) <-> Model/Header.lean')
    lst = locale_stage(rep, sc, rng)
    import isolation; rep.coverage['isolation'] = isolation.stage(rep, proc.Tools(sc), 'C10')     # nothing leaks from one message / maildir / rule into the next (tools/isolation.py)
    vlib.lean_conclude(rep)
    nontriv = set(r for r, i, s in zip(reqs, impl, spec) if s is not None and r[0] == 'hget' and i.startswith('V'))
    multi = sum(1 for r, i in zip(reqs, impl) if r[0] == 'hget' and i.count(',') > 1)
    rep.coverage.update({
        'evaluations': d.evals + 4 * lst['configurations'] + lst['unit']['evaluations'],
        'distinct_nontrivial': len(nontriv),
        'rule': '%d generated messages; 2 lookups each by a random name (any case) compared with the decoded logical values of the '
                'line-based reading, 1 unfolding, 1 rewrite followed by a lookup; non-trivial = well-formed message and the field is '
                'present; distinct by (name, message); locale stage: %d single-rule configurations (`.`/intervals counting characters, bracket '
                'expressions and classes with non-ASCII members, the i flag on non-ASCII letters, repeated multibyte characters) x %d messages '
                '(raw 8-bit UTF-8 and Latin-1, B/Q encoded words, adjacent words cut inside a character, folded) on the real binary, real run '
                'and -d, under LC_ALL=C and LC_ALL=C.utf8: moved = listed = the documented header condition with the platform regexec under '
                'the same LC_ALL (Lean driver); the same rules through the real evaluator in-process under both locales against the model '
                '(result, sub-match offsets, interpolated capture)' % (n, lst['configurations'], lst['messages_each']),
        'samples': [{'request': d.line(reqs[i])[:300], 'implementation': impl[i][:200], 'specification': (spec[i] or 'outside domain')[:200]}
                    for i in rng.sample(range(len(reqs)), 4)],
        'lookups_with_several_occurrences': multi,
        'locale_stage': lst,
        'correspondence_mismatches': len(d.corr_mismatch),
        'spec_failures': len(d.spec_fail),
        'sanitizer_faults': len(d.faults),
    })
    rep.assumptions += ['locales C and C.utf8 (no other locale is installed in this image)', 'message well-formed in the sense of Spec.read for the specification side']


def replay(rep, path):
    import isolation
    if isolation.replay_file(rep, path):
        return
    mc.generic_replay(rep, path, 'C10', SPEC_OPS, {})
