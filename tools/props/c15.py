"""C15 - date conditions compare the true age of the message."""
import os
import random
import re
import time
import concurrent.futures as cf
import vlib
import evalcommon as ec
import conffam
import proc
import c15locale
import c15date

UNITS = [('seconds', 1), ('minutes', 60), ('hours', 3600), ('days', 86400), ('weeks', 604800), ('months', 2592000), ('years', 31536000)]
TZS = ['UTC', 'Europe/Stockholm', 'America/New_York', 'Asia/Kolkata', 'Australia/Lord_Howe', 'Pacific/Auckland', 'America/St_Johns',
       'Africa/Casablanca', 'Europe/London', 'Asia/Tokyo', 'America/Sao_Paulo', 'Pacific/Chatham', '', '~']
# instants around DST switches of the zones above (UTC seconds) and other landmarks
LANDMARKS = [0, 1, 86399, 951782400, 1079654400, 1711846800 - 1, 1711846800, 1711846800 + 1, 1729990800 - 1, 1729990800, 1729990800 + 3600,
             1710054000, 1730613600, 1743901200, 1759593600, 2145916799, 1790000000 - 86400 * 200, 1768478400]


def A(s):
    return s.encode('latin-1') if isinstance(s, str) else s


def tzoff_oracle(s):
    m = re.match(rb'^([+-])(\d\d)(\d\d)', s)
    if not m:
        return 'NONE'
    hh, mm = int(m.group(2)), int(m.group(3))
    if hh > 23 or mm > 59:
        return 'NONE'
    v = 3600 * hh + 60 * mm
    return 'OK %d' % (v if m.group(1) == b'+' else -v)


def unit_oracle(lexeme):
    ms = [v for n, v in UNITS if n.startswith(lexeme)]
    return ms[0] if len(ms) == 1 else None


ABBRS = ['EST', 'EDT', 'CEST', 'CET', 'PDT', 'PST', 'MST', 'HST', 'UTC', 'GMT', 'UT', 'Z', 'XYZ', 'EST5EDT', 'Europe/Stockholm', 'A', 'abc',
         'WET', 'EET', 'NZDT', '+0100', '-0500', '(CEST)', 'CEST (x)']
AMBIENT = ['~', '', 'UTC', 'Europe/Stockholm', 'America/New_York', ':garbage', 'EST5EDT', 'Asia/Kolkata']


def abbreviation_family():
    reqs = []
    for ab in ABBRS:
        for t in (1768478400, 1752580800, 951782400):          # a January, a July, a leap-day instant
            for fmt in ('%a, %d %b %Y %H:%M:%S', '%d %b %Y %H:%M:%S'):
                date = time.strftime(fmt, time.gmtime(t)) + ' ' + ab
                for now in (1790000000, 1768478400 + 86400):   # September (summer time) and January
                    for amb in AMBIENT:
                        reqs.append(('tparse', A(date), A(str(now)), A(amb)))
    return reqs, len(ABBRS)


def run(rep):
    rng = random.Random(rep.seed)
    sc = vlib.Scratch()
    h, env = ec.harness(sc)
    vlib.lean_gate(rep, 'C15', sc, [
        'tparse: strptime (three layouts from the regenerated table) and the zone-name lookup (tzset/localtime) are the platform\'s on both sides',
        'the specification side of tparse uses the platform timegm; the model its own civil-date arithmetic (theorem C15_civil)',
        'strp / timeparse / tparsec / rfcdate: strptime is the executable model Model/Strptime.lean (C locale, glibc 2.36 behaviour) on the model '
        'side, tied to the platform\'s strptime and to timeparse() / time_parse() by differential execution; the theorems from the header text on '
        '(C15_layouts, C15_rfc5322_*) are about that model; only the zone-NAME lookup remains the platform\'s',
    ])
    n = 3000 if rep.tier == 'quick' else 200000
    reqs = []
    for _ in range(n):
        z = rng.choice(['+', '-', '', 'x', ' ']) + ''.join(rng.choice('0123456789 :a') for _ in range(rng.randrange(0, 6))) + rng.choice(['', ' (UTC)', 'x'])
        reqs.append(('tzoff', A(z)))
        t = rng.choice(LANDMARKS) + rng.choice([0, 0, 1, -1, 3599, 3600, 7200, rng.randrange(-10 ** 6, 10 ** 6)]) if rng.random() < 0.5 else rng.randrange(0, 2145916800)
        t = max(0, t)
        fmt = rng.choice(['%a, %d %b %Y %H:%M:%S', '%a, %d %b %Y %H:%M', '%d %b %Y %H:%M:%S'])
        off = rng.choice([0, 0, 3600, -12600, 86340, -86340, 49500, 19800, -16200, rng.randrange(-1439, 1440) * 60])
        zone = '%s%02d%02d' % ('+' if off >= 0 else '-', abs(off) // 3600, abs(off) % 3600 // 60)
        if rng.random() < 0.2:
            zone, off = rng.choice([('GMT', 0), ('UT', 0), ('UTC', 0), ('-0000', 0)])
        if rng.random() < 0.05:
            zone = rng.choice(['+2400', '+0060', 'EST', 'PDT', '', 'Z'])
        d = time.strftime(fmt, time.gmtime(t + off)) + rng.choice([' ', '  ', ' ']) + zone
        now = t + rng.randrange(-100, 10 ** 6)
        reqs.append(('tparse', A(d), A(str(now)), A(rng.choice(TZS))))
    # zone ABBREVIATIONS (time.c tzabbr: setenv TZ=<abbreviation>, localtime, then put the process's own zone back) under every state of
    # the process's TZ: unset (`~`: TZ_STATE_LOCAL), empty (TZ_STATE_UTC), set to a zone / a POSIX string / garbage (TZ_STATE_SET)
    abbr_reqs, nfam = abbreviation_family()
    reqs += abbr_reqs
    d = vlib.Differential(rep, [h], env=env, spec_ops={'tparse'}, name='h_expr')
    impl, model, spec = d.run(reqs, shrink=False)
    # (1) the instant a Date header names does not depend on the zone mdsort runs in
    groups = {}
    for r, i in list(zip(reqs, impl))[-len(abbr_reqs):]:
        groups.setdefault((r[1], r[2]), {})[r[3]] = i
    ambient_bad = [(k, v) for k, v in groups.items() if len(set(v.values())) > 1]
    for (date, now), v in ambient_bad[:4]:
        rep.finding('unlisted', {'harness': 'h_expr', 'what': 'time_parse of one Date value gives different instants under different TZ settings of the process',
                                 'date': date.decode('latin-1'), 'now': now.decode(), 'by_TZ (~ = unset)': {k.decode('latin-1'): x for k, x in v.items()}})
    # (2) afterwards the process has its own zone back: the environment variable and the offset localtime() computes
    rlines = ['tzrestore ' + ' '.join(vlib.hexs(a) for a in r[1:]) for r in abbr_reqs]
    rout = vlib.run_batch([h], rlines, env)
    restore_bad = 0
    for r, o in zip(abbr_reqs, rout):
        m = re.match(r'^(OK -?\d+|NONE) TZ=(\S+) OFF=(-?\d+) WAS=(-?\d+)$', o)
        want_tz = '~' if r[3] == b'~' else vlib.hexs(r[3])
        if not m or m.group(2) != want_tz or m.group(3) != m.group(4):
            restore_bad += 1
            if restore_bad <= 4:
                rep.finding('sanitizer-fault' if o.startswith('FAULT') else 'unlisted',
                            {'harness': 'h_expr', 'request': 'tzrestore ' + ' '.join(x.decode('latin-1') for x in r[1:]), 'implementation': o,
                             'what': 'after time_parse the process is not in its own time zone again: TZ must be %s and the offset of `now` unchanged'
                                     % ('unset' if r[3] == b'~' else repr(r[3].decode('latin-1')))})
    ntz = 0
    for r, i in zip(reqs, impl):
        if r[0] == 'tzoff':
            ntz += 1
            want = tzoff_oracle(r[1])
            if i != want:
                rep.finding('unlisted', {'harness': 'h_expr', 'request': d.line(r), 'implementation': i, 'specification': want,
                                         'what': 'numeric zone offset'})
    d.conclude('time.c <-> Model/Time.lean')
    rep.coverage['zone_abbreviations'] = {
        'abbreviations': ABBRS, 'process_TZ (~ = unset)': AMBIENT, 'requests': len(abbr_reqs), 'accepted': sum(1 for i in impl[-len(abbr_reqs):] if i.startswith('OK')),
        'depends_on_process_TZ': len(ambient_bad), 'zone_not_restored': restore_bad,
        'rule': 'Date values ending in a zone abbreviation / zone name / POSIX string / numeric zone, two layouts, three instants, two values '
                'of now, parsed by the real time_parse with TZ unset, empty and set to five values: implementation = model = platform '
                'specification; the result is the same under every TZ of the process; after the call getenv("TZ") is what it was (unset stays '
                'unset) and localtime(now) has the offset it had before (op tzrestore)'}

    # the text of the header: strptime and the layouts against the executable model and the RFC 5322 grammar (tools/c15date.py)
    dd, dstat = c15date.stage(rep, rng, h, dict(env, LC_ALL='C'), sc, 1500 if rep.tier == 'quick' else 60000, TZS)
    dd.conclude('strptime / timeparse / time_parse <-> Model/Strptime.lean')

    # date conditions around the true age, units, abbreviations, overflow: through the real parser and evaluator
    cases, expect = [], []
    for _ in range(n // 3):
        t = ec.NOW - rng.choice([0, 1, 59, 60, 61, 3600, 86400 * 3, 604800, 2592000 + 5, 31536000, rng.randrange(0, 10 ** 8), -1, -300, -172800])
        age = ec.NOW - t
        off = rng.choice([0, 3600, -12600, 19800, -43200, 50400])
        zone = '%s%02d%02d' % ('+' if off >= 0 else '-', abs(off) // 3600, abs(off) % 3600 // 60)
        date = ec.gm(t + off) + b' ' + A(zone)
        cmp_ = rng.choice(['<', '>'])
        thr = max(0, age + rng.choice([-1, 0, 1, -1, 0, 1, 1000, -1000]))
        conf = 'maildir "~/md" {\n\tmatch date %s%s %d seconds move "~/dst/a"\n}\n' % (rng.choice(['', 'header ']), cmp_, thr)
        cases.append(ec.Case(conf, [], b'To: a\nDate: ' + date + b'\n\nb\n', 'new', '1.host', '0', tz=rng.choice(TZS[:-2])))
        expect.append(('age', (age > thr) if cmp_ == '>' else (age < thr)))
    # file-time fields: the message file gets an old modification time; its access and change times are recent (the harness
    # reports what stat() says after the evaluation); `modified` must use st_mtim, `created` st_ctim, `access` st_atim
    for _ in range(n // 6):
        fld = rng.choice(['modified', 'modified', 'created', 'access'])
        age = rng.choice([100, 3600, 86400 * 3, 604800, 2592000 + 5, 31536000, rng.randrange(100, 10 ** 8)])
        cmp_ = rng.choice(['<', '>'])
        thr = max(0, age + rng.choice([-1, 0, 1, -1, 0, 1, 1000, -90]))
        conf = 'maildir "~/md" {\n\tmatch date %s %s %d seconds move "~/dst/a"\n}\n' % (fld, cmp_, thr)
        cases.append(ec.Case(conf, [], b'To: a\nDate: ' + ec.gm(ec.NOW - 5) + b' +0000\n\nb\n', 'new', '1.host', rng.choice(['0', '0', '1']),
                             tz=rng.choice(TZS[:-2]), mtime=ec.NOW - age))
        expect.append(('field', (fld, cmp_, thr)))
    lexemes = set()
    for name, v in UNITS:
        for k in range(1, len(name) + 1):
            lexemes.add(name[:k])
    lexemes |= {'secondss', 'x', 'mi', 'mo', 'm', 'we', 'ye', 'da', 'ho'}
    for lx in sorted(lexemes):
        for nn in (2, 136, 137, 4294967295, 4294967296, 7101, 7102):
            conf = 'maildir "~/md" {\n\tmatch date > %d %s move "~/dst/a"\n}\n' % (nn, lx)
            cases.append(ec.Case(conf, [], b'To: a\n\nb\n'))
            u = unit_oracle(lx)
            expect.append(('unit', None if (u is None or nn * u >= 2 ** 32 or nn >= 2 ** 32) else nn * u))
    # integer literals (tools/conffam.py): digit strings around 2^31, 2^32, 2^63, 2^64, k*2^64 + a valid age, 2^96, 2^128, 10^19, 10^20, 38 nines,
    # per-unit bounds, leading zeros x every unit abbreviation, through the real parser AND the real evaluator on a message that is two
    # hours old: accepted iff N x unit <= UINT32_MAX, the age in the tree is exactly N x unit and the comparison uses it
    AGE = 7200
    for lit in conffam.int_literals(rep.tier):
        for lx in conffam.unit_lexemes(rep.tier):
            if len(lit) > 100 and lx not in ('seconds', 's', 'years'):
                continue
            cmp_ = '>' if (len(cases) % 3) else '<'
            conf = 'maildir "~/md" {\n\tmatch date %s %s %s move "~/dst/a"\n}\n' % (cmp_, lit, lx)
            cases.append(ec.Case(conf, [], b'To: a\nDate: ' + ec.gm(ec.NOW - AGE) + b' +0000\n\nb\n', 'new', '1.host', '0', tz='UTC'))
            expect.append(('literal', (lit, lx, cmp_, conffam.age_oracle(lit, lx))))
    ec.run_cases(h, env, cases, want_spec=False)
    bad_corr = []
    lit_bad = []
    stat = {'age_cases': 0, 'age_true': 0, 'unit_cases': 0, 'unit_accepted': 0}
    for c, (kind, want) in zip(cases, expect):
        if c.note == 'fault':
            rep.finding('sanitizer-fault', dict(c.readable(), implementation=c.impl))
            continue
        if kind == 'field':
            fld, cmp_, thr = want
            stat['field_cases'] = stat.get('field_cases', 0) + 1
            if not c.times or len(c.times) != 6:
                rep.finding('unlisted', dict(c.readable(), implementation=(c.impl or '')[:200], what='harness did not report the file times'))
                continue
            a_, m_, c_ = (int(x) for x in c.times[:3])
            tim = {'access': a_, 'modified': m_, 'created': c_}[fld]
            agef = ec.NOW - tim
            exp = (agef > thr) if cmp_ == '>' else (agef < thr)
            got = c.impl.split(' ')[0] if c.impl else None
            # the three times must differ enough for a swapped field to be visible
            if abs(m_ - c_) > 50:
                stat['field_distinct'] = stat.get('field_distinct', 0) + 1
            if got != ('MATCH' if exp else 'NOMATCH'):
                rep.finding('unlisted', dict(c.readable(), implementation=c.impl[:200], specification='MATCH' if exp else 'NOMATCH',
                                             file_times={'atime': a_, 'mtime': m_, 'ctime': c_, 'now': ec.NOW},
                                             what='date %s does not compare the age of the file\'s %s time' % (fld, fld)))
            elif c.model is not None and (c.impl if c.dry == '1' else ec.impl_core(c)) != (c.model if c.dry == '1' else ec.model_core(c)):
                bad_corr.append(c)
            continue
        if kind == 'literal':
            lit, lx, cmp_, age = want
            stat['literal_cases'] = stat.get('literal_cases', 0) + 1
            shown = lit if len(lit) <= 60 else '%s...(%d digits)' % (lit[:40], len(lit))
            if age is None:
                if c.impl != 'CONFERR':
                    u = conffam.unit_value(lx)
                    lit_bad.append(dict(c.readable(), config=c.conf[:300], implementation=(c.impl or '')[:200], specification='rejected when the configuration is parsed',
                                                 what_='the age "%s %s" must be rejected (%s), but the configuration is accepted and a message that is %d seconds old gives %s' %
                                                      (shown, lx, 'not a unit' if u is None else 'N x %d exceeds UINT32_MAX' % u, AGE, (c.impl or '').split(' ')[0])))
                continue
            stat['literal_accepted'] = stat.get('literal_accepted', 0) + 1
            m = re.search(r' date \d+ h ([<>]) (\d+)', ' ' + (c.ast or ''))
            exp = (AGE > age) if cmp_ == '>' else (AGE < age)
            got = c.impl.split(' ')[0] if c.impl else None
            if c.ast is None or not m or (m.group(1), int(m.group(2))) != (cmp_, age):
                lit_bad.append(dict(c.readable(), implementation=(c.ast or c.impl or '')[:200], specification='age %d seconds' % age,
                                             what_='the age "%s %s" is exactly %d seconds' % (shown, lx, age)))
            elif got != ('MATCH' if exp else 'NOMATCH'):
                lit_bad.append(dict(c.readable(), implementation=c.impl[:200], specification='MATCH' if exp else 'NOMATCH',
                                             what_='a message %d seconds old against the age "%s %s" = %d seconds' % (AGE, shown, lx, age)))
            elif c.model is not None and ec.impl_core(c) != ec.model_core(c):
                bad_corr.append(c)
            continue
        if kind == 'age':
            stat['age_cases'] += 1
            got = c.impl.split(' ')[0] if c.impl else None
            stat['age_true'] += 1 if want else 0
            if got != ('MATCH' if want else 'NOMATCH'):
                rep.finding('unlisted', dict(c.readable(), implementation=c.impl[:200], specification='MATCH' if want else 'NOMATCH',
                                             what='date condition does not compare the true age'))
            elif c.model is not None and ec.impl_core(c) != ec.model_core(c):
                bad_corr.append(c)
        else:
            stat['unit_cases'] += 1
            if want is None:
                if c.impl != 'CONFERR':
                    rep.finding('unlisted', dict(c.readable(), implementation=(c.impl or '')[:200], specification='rejected',
                                                 what='ambiguous/unknown unit or overflowing age accepted'))
            else:
                stat['unit_accepted'] += 1
                m = re.search(r' date \d+ h > (\d+)', ' ' + (c.ast or ''))
                if c.ast is None or not m or int(m.group(1)) != want:
                    rep.finding('unlisted', dict(c.readable(), implementation=(c.ast or c.impl or '')[:200], specification='age %d' % want,
                                                 what='unit value / age'))
    # the date conditions once more with the executable model of strptime as the evaluator's oracle (MDSORT_STRPTIME=model makes the
    # driver use Model.timeparseC instead of the platform's strptime), and Date headers in the layouts the RFC 5322 grammar allows
    # (tools/c15date.py: odd letter case, one-digit day, several blanks / tabs, comments behind the zone, no seconds, no day of week)
    mcases, mexp = [], []
    for c, (kind, want) in zip(cases, expect):
        if kind == 'age' and len(mcases) < (300 if rep.tier == 'quick' else 5000):
            mcases.append(ec.Case(c.conf, [], c.msg, 'new', '1.host', '0', tz=c.tz))
            mexp.append(('MATCH' if want else 'NOMATCH', None))
    gen = c15date.Gen(rng)
    for _ in range(400 if rep.tier == 'quick' else 6000):
        f, lay = gen.rfc()
        if not c15date.well_formed(f, lay) or f['year'] > 9999:
            continue
        cov = c15date.covered(f, lay)
        if not cov and not (f['dow'] is None and f['sec'] is None):
            continue
        if rng.random() < 0.3:
            # what follows the zone is not looked at (theorem C15_date_text_lenient: the trailer is arbitrary): a comment holding the zone
            # name in the sender's 8-bit code page, valid and invalid UTF-8, a no-break space
            lay = dict(lay, tr=rng.choice([' (Mitteleurop\xe4ische Sommerzeit)', ' (\xc9t\xe9)', ' (\xff)', '\xa0(x)', ' (caf\xc3\xa9)', ' (\xe4', '\xe4']))
        age = ec.NOW - c15date.instant(f)
        cmp_ = rng.choice(['<', '>'])
        thr = min(2 ** 32 - 1, max(0, age + rng.choice([-1, 0, 1])))
        conf = 'maildir "~/md" {\n\tmatch date %s%s %d seconds move "~/dst/a"\n}\n' % (rng.choice(['', 'header ']), cmp_, thr)
        mcases.append(ec.Case(conf, [], b'To: a\nDate: ' + A(c15date.render(f, lay)) + b'\n\nb\n', 'new', '1.host', '0', tz=rng.choice(TZS[:-2])))
        mexp.append((('MATCH' if ((age > thr) if cmp_ == '>' else (age < thr)) else 'NOMATCH') if cov else 'ERROR', f))
    # LC_ALL is given to both sides explicitly: the harness environment (vlib.ASAN_ENV) is a snapshot taken when vlib is imported, before
    # check.py sets LC_ALL=C, and keeps the LC_CTYPE=C.UTF-8 that Python's locale coercion exports; the headers below hold 8-bit bytes
    ec.run_cases(h, dict(env, LC_ALL='C'), mcases, want_spec=False, denv=dict(os.environ, LC_ALL='C', MDSORT_STRPTIME='model'))
    stat['model_strptime_eval_cases'] = len(mcases)
    stat['rfc_header_eval_cases'] = sum(1 for w, f in mexp if f is not None)
    stat['rfc_header_eval_uncovered_errors'] = sum(1 for w, f in mexp if w == 'ERROR')
    # the headers of the grammar once more under the UTF-8 locale (mdsort does setlocale(LC_CTYPE, ""): the regex library that sees the header
    # text after the age comparison, isspace / tolower of strptime and the driver's side all follow it)
    ucases, uexp = [], []
    for c, (want, f) in zip(mcases, mexp):
        if f is not None:
            u = ec.Case(c.conf, [], c.msg, 'new', '1.host', '0', tz=c.tz)
            u.locale = 'C.utf8'
            ucases.append(u)
            uexp.append((want, f))
    ec.run_cases(h, dict(env, LC_ALL='C.utf8'), ucases, want_spec=False, denv=dict(os.environ, LC_ALL='C.utf8', MDSORT_STRPTIME='model'))
    stat['rfc_header_eval_cases_utf8_locale'] = len(ucases)
    for c, (want, f) in zip(mcases + ucases, mexp + uexp):
        if c.note == 'fault':
            rep.finding('sanitizer-fault', dict(c.readable(), implementation=c.impl))
            continue
        got = c.impl.split(' ')[0] if c.impl else None
        if got != want and want != 'ERROR':
            rep.finding('unlisted', dict(c.readable(), implementation=(c.impl or '')[:200], specification=want, fields=f,
                                         what='date condition on a Date header in a layout of the RFC 5322 grammar does not compare the true age'))
        elif c.model is None or ec.impl_core(c) != ec.model_core(c):
            bad_corr.append(c)
    for it in conffam.pick(lit_bad, key=lambda it: it['what_'][:20]):
        it = dict(it, what=it.pop('what_'), deviations_in_this_family=len(lit_bad), level='real parser and evaluator (harness h_expr)')
        rep.finding('unlisted', it)
    # the same family on the real binary (pinned clock): -n, -d and a real run on a maildir holding one message that is two hours old
    # date text x locale (tools/c15locale.py): what a Date field carries besides the date - comments in ASCII / UTF-8 / 8-bit code pages,
    # control bytes, encoded words, folds, blanks - under LC_ALL=C and C.utf8, through time_parse, the evaluator and the real binary
    lstat, ldifs, lbad = c15locale.stage(rep, sc, h, env, rng, TZS[:-2])
    bad_corr += lbad
    for ld in ldifs:
        ld.conclude('time.c <-> Model/Time.lean (%s)' % ld.name)
    tools = proc.Tools(sc)
    pcases = conffam.int_process_cases(rep.tier)
    with cf.ThreadPoolExecutor(vlib.NCPU) as ex:
        pres = list(ex.map(lambda c_: conffam.judge_int_process(tools, c_, rep.tier), pcases))
    pbad = [r for r in pres if r['problems']]
    for r in conffam.pick(pbad, key=lambda it: it['kind'].split(':')[0] + re.sub(r'^.*?\]: |^.*?: ', '', it['problems'][0])[:30]):
        rep.finding('unlisted', {'kind': r['kind'], 'config': r['config'], 'expected': r['expected'], 'what': r['problems'][:4],
                                 'level': 'real binary (mdsort under the shim)', 'deviations_in_this_family': len(pbad)})
    stat['literal_process_cases'] = len(pres)
    stat['literal_process_rejected'] = sum(1 for r in pres if r['kind'].startswith('reject:'))
    if bad_corr and not rep.violations:
        rep.violation({'obligation': 'correspondence expr_eval_date <-> Model/Eval.lean', 'disagreements': len(bad_corr),
                       'examples': [dict(c.readable(), implementation=ec.impl_core(c), model=c.model) for c in bad_corr[:5]]}, False)
    vlib.lean_conclude(rep)
    rep.coverage.update({
        'evaluations': d.evals + len(cases) + lstat.get('tparse_evaluations', 0) + lstat.get('eval_cases', 0) + lstat.get('process_decisions', 0),
        'distinct_nontrivial': len(set(r for r, i in zip(reqs, impl) if i.startswith('OK'))) + stat['age_cases'],
        'rule': '%d zone strings against the offset formula; %d dates (instants 1970-2037 incl. both sides of DST switches, three layouts, '
                'numeric zones -2359..+2359, GMT/UT/UTC, odd zones) parsed under %d TZ settings and compared with platform timegm minus zone '
                'and with the model; %d date conditions with thresholds at age-1/age/age+1 under different TZ; every prefix of every unit '
                'name x 7 counts (acceptance, value, 32-bit overflow); %d integer literals (around 2^31, 2^32, 2^63, 2^64, k*2^64 + a valid age, 2^96, 2^128, '
                '10^19, 10^20, 38 nines, per-unit bounds, leading zeros) x %d unit lexemes through the real parser and evaluator on a message two '
                'hours old (accepted iff N x unit <= UINT32_MAX, age exactly N x unit, comparison by that age) and %d of them on the real binary '
                '(-n, -d, real run: rejected with a diagnostic and the message left, or moved iff 7200 > N x unit); date text x locale: %d Date fields '
                '(three instants x %d kinds of text after the zone - nothing, blanks, comments in ASCII / UTF-8 / Latin-1, Shift_JIS, KOI8-R and other '
                'invalid UTF-8, nested and unbalanced comments, control bytes, CRLF, RFC 2047 encoded words, folded comments - and the shapes of the date '
                'proper: blanks after the colon, folds at every gap with blank and TAB continuation, letter case, zones -2359..+2359 and GMT/UT/UTC), '
                '%d texts that are no date and %d outside the quantifier, each under LC_ALL=C and LC_ALL=C.utf8 (harness / binary and Lean driver under '
                'the same LC_ALL): time_parse against model, platform timegm and an independent RFC 5322 reading; the evaluator (real and dry run '
                'alternating) with thresholds at age-1 / age / age+1 seconds (and hours) against that reading and the model; the real binary, real run '
                'and -d, %d rules x 2 locales over a maildir holding all of them: moved = listed = (age CMP threshold), exit status 0, no diagnostic; '
                'texts that are no date: left, not listed, a diagnostic each, exit status not 0; non-trivial = accepted/parsed inputs'
                % (ntz, n, len(TZS), stat['age_cases'], len(conffam.int_literals(rep.tier)), len(conffam.unit_lexemes(rep.tier)), len(pcases) +
                '; header text: %d strptime / timeparse() / time_parse() requests on structured and mutated date texts (every layout of formats[], '
                'with / without day name, full / abbreviated / odd-case / truncated names, 1-5 digit fields, out-of-range fields, seconds 60 / 61, '
                'all kinds of white space, trailing zone text) against the executable model of strptime; %d date-times of the RFC 5322 grammar '
                '(Spec.renderDate / instant / WellFormed against an independent rendering, then time_parse of the text = the instant inside '
                'Covered, rejected for the form without day of week and seconds); %d date conditions evaluated with the model of strptime as the oracle'
                % (dstat['strptime_requests'], dstat['rfc_datetimes'], stat.get('model_strptime_eval_cases', 0)),
                   sum(lstat['texts']['per_instant']), lstat['texts']['tails'], lstat['texts']['refuse'], lstat['texts']['observe'], lstat.get('process_rules', 0)),
        'samples': [{'request': d.line(reqs[i])[:200], 'implementation': impl[i], 'model': model[i], 'specification': spec[i]} for i in rng.sample(range(len(reqs)), 4)],
        'distribution': dict(stat, **dstat),
        'date_text_locale_stage': lstat,
        'correspondence_mismatches': len(d.corr_mismatch) + len(dd.corr_mismatch) + len(bad_corr) + sum(len(x.corr_mismatch) for x in ldifs),
        'spec_failures': len(d.spec_fail) + len(dd.spec_fail) + sum(len(x.spec_fail) for x in ldifs),
    })
    rep.assumptions += ['date text x locale: the locales are C and C.utf8 (no other locale is installed in this image); the call setlocale(LC_CTYPE, "") of '
                        'main() is not part of the model - that a real run and -d decide by the age alone in the locale of the environment is observed '
                        'on the real binary against an RFC 5322 reading of the Date field written in the check (tools/c15locale.py read_date)']
    rep.assumptions += ['file-time fields: the harness gives the file an old mtime and reports the stat times after the evaluation; atime and '
                        'ctime are both "now" on this file system (a swap between those two would not be seen, a swap with mtime is)']


def replay(rep, path):
    import json
    import msgcommon as mc
    j = json.load(open(path))
    if j.get('family') == c15locale.FAMILY or 'LC_ALL=' in str(j.get('harness', '')):
        sc = vlib.Scratch()
        vlib.lean_gate(rep, 'C15', sc, [])
        if 'locale' not in j:
            j['locale'] = str(j['harness']).split(' ')[-1]
        c15locale.replay(rep, j, sc)
        rep.coverage.update({'evaluations': 1, 'distinct_nontrivial': 1})
        return
    if str(j.get('level', '')).startswith('real binary'):
        sc = vlib.Scratch()
        vlib.lean_gate(rep, 'C15', sc, [])
        conffam.replay(j, sc)
        rep.coverage.update({'evaluations': 1, 'distinct_nontrivial': 1})
        return
    if str(j.get('request', '')).startswith('eval ') and j.get('specification') in ('MATCH', 'NOMATCH') and 'file_times' not in j:
        # a date condition evaluated on a message (families `age` and RFC 5322 headers): the real evaluator under the recorded locale
        # against the recorded expectation and against the model with Model.timeparseC as its strptime
        sc = vlib.Scratch()
        h, env = ec.harness(sc)
        vlib.lean_gate(rep, 'C15', sc, [])
        t = j['request'].split(' ')
        un = lambda x: vlib.unhex(x).decode('latin-1')    # noqa: E731
        c = ec.Case(un(t[1]), [], vlib.unhex(t[2]), un(t[3]), un(t[4]), un(t[5]), tz=un(t[7]) if len(t) > 7 else None)
        loc = str(j.get('locale') or 'LC_ALL=C').split('=')[-1]
        c.locale = loc
        ec.run_cases(h, dict(env, LC_ALL=loc), [c], want_spec=False, denv=dict(os.environ, LC_ALL=loc, MDSORT_STRPTIME='model'))
        got = c.impl.split(' ')[0] if c.impl else None
        print('locale         LC_ALL=%s\nimplementation %s\nmodel          %s\nspecification  %s' % (loc, (c.impl or '')[:300], (c.model or '')[:300], j['specification']))
        if got != j['specification']:
            rep.finding('unlisted', dict(c.readable(), implementation=(c.impl or '')[:200], specification=j['specification'],
                                         what=j.get('what', 'date condition does not compare the true age')))
        elif c.model is None or ec.impl_core(c) != ec.model_core(c):
            rep.violation({'obligation': 'correspondence expr_eval_date <-> Model/Eval.lean', 'examples': [dict(c.readable(), implementation=c.impl, model=c.model)]}, False)
        vlib.lean_conclude(rep)
        rep.coverage.update({'evaluations': 1, 'distinct_nontrivial': 1})
        return
    mc.generic_replay(rep, path, 'C15', {'tparse', 'tparsec', 'strp', 'timeparse'}, {}, included=ec.INCLUDED, hname='h_expr')
