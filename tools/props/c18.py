"""C18 - over-long paths are rejected, never truncated."""
import concurrent.futures as cf
import os
import random
import subprocess
import vlib
import proc
import world
import worldscen as ws

R = '@R@'
PATH_MAX, NAME_MAX = 4096, 255      # replaced in run() by the limits the tree under check is compiled against (gen_tables.platform_macros)


def deep(prefix, total):
    """A path starting with `prefix` of exactly `total` characters, components of <= 200 characters."""
    p = prefix
    k = 0
    while len(p) < total:
        room = total - len(p) - 1
        if room <= 0:
            p += 'x' * (total - len(p))
            break
        n = min(200, room)
        if 0 < room - n < 2:
            n = room - 2 if room > 2 else room
        p += '/' + ('d%d' % (k % 10)) + 'y' * (n - 2)
        k += 1
    assert len(p) == total, (len(p), total)
    return p


def listing(root):
    """All regular files below root with sizes, through find (handles paths beyond PATH_MAX)."""
    r = subprocess.run(['find', '.', '-type', 'f', '-printf', '%p\t%s\n'], cwd=root, capture_output=True)
    out = {}
    for line in r.stdout.decode('latin-1').split('\n'):
        if '\t' in line:
            p, s = line.rsplit('\t', 1)
            out[p] = int(s)
    return out


def mk(path):
    subprocess.run(['mkdir', '-p', path], check=False, capture_output=True)
    return os.path.isdir(path) if len(path) < PATH_MAX else False


MSG = ws.msg(1)


def case_destination(tools, total, how):
    """move to a destination whose path has `total` characters; how = literal | tilde | macro | interp"""
    box = tools.box()
    src = os.path.join(box, 'src')
    for d in ('new', 'cur', 'tmp'):
        os.makedirs(os.path.join(src, d))
    os.makedirs(os.path.join(box, 'tmp'))
    home = os.path.join(box, 'home')
    os.makedirs(home)
    base = home if how == 'tilde' else os.path.join(box, 'dst')
    D = deep(base, total)
    exists = False
    if total + 4 < PATH_MAX:
        exists = mk(D + '/new') and mk(D + '/cur')
    # decoys: every truncation of D + "/new" that is itself a creatable directory ending in a maildir subdirectory name
    if how == 'literal':
        conf = 'maildir "%s" {\n\tmatch all move "%s"\n}\n' % (src, D)
    elif how == 'tilde':
        conf = 'maildir "%s" {\n\tmatch all move "~%s"\n}\n' % (src, D[len(home):])
    elif how == 'macro':
        cut = len(box) + 5
        conf = 'tail = "%s"\nmaildir "%s" {\n\tmatch all move "%s${tail}"\n}\n' % (D[cut:], src, D[:cut])
    else:
        cut = len(D) - 40
        conf = 'maildir "%s" {\n\tmatch header "X-Tail" /^(.*)$/ move "%s\\1"\n}\n' % (src, D[:cut])
    m = MSG if how != 'interp' else MSG.replace(b'\n\n', b'\nX-Tail: ' + D[len(D) - 40:].encode() + b'\n\n', 1)
    with open(os.path.join(src, 'new', '1.host'), 'wb') as fh:
        fh.write(m)
    with open(os.path.join(box, 'conf'), 'w') as fh:
        fh.write(conf)
    before = listing(box)
    env = {'PATH': os.environ.get('PATH', ''), 'HOME': home, 'TMPDIR': os.path.join(box, 'tmp'), 'LD_PRELOAD': tools.shim,
           'VSHIM_LOG': box + '.log', 'LC_ALL': 'C'}
    env.update(proc.PIN)
    r = subprocess.run([tools.mdsort, '-f', os.path.join(box, 'conf')], capture_output=True, env=env, cwd=box)
    after = listing(box)
    trace = proc.parse_trace(open(box + '.log', encoding='latin-1').read()) if os.path.exists(box + '.log') else []
    if os.path.exists(box + '.log'):
        os.unlink(box + '.log')
    probs = []
    fits = total + 4 < PATH_MAX            # D + "/new" must fit PATH_MAX including the terminator
    moved = [p for p in after if p not in before]
    gone = [p for p in before if p not in after]
    rel_dst = './' + os.path.relpath(D, box)
    if not fits:
        if r.returncode == 0:
            probs.append('destination of %d characters does not fit but exit status is 0' % total)
        if moved or gone:
            probs.append('over-long destination: files appeared %s / disappeared %s' % ([m[:60] + '...' for m in moved], gone))
    else:
        for p in moved:
            if not p.startswith(rel_dst + '/'):
                probs.append('message delivered outside the intended destination: %s...%s' % (p[:80], p[-60:]))
        if exists and r.returncode == 0 and not moved:
            probs.append('exit status 0 but the message was not delivered')
    # no call may use a proper prefix of the intended path in place of it
    intended = D.encode()
    for t in trace:
        if t['kind'] != 'call':
            continue
        for key in ('path', 'dir', 'newdir'):
            v = t['args'].get(key)
            if v is None:
                continue
            pv = proc.unescape(v)
            if len(pv) > len(box) + 8 and intended.startswith(pv) and pv != intended and not intended[len(pv):].startswith(b'/') and pv.startswith((base).encode()):
                probs.append('call %s uses %d characters of the %d-character destination' % (t['name'], len(pv), total))
    shutil_rm(box)
    return {'family': 'destination-' + how, 'length': total, 'status': r.returncode, 'problems': probs, 'stderr': r.stderr.decode('latin-1')[-160:]}


def shutil_rm(box):
    subprocess.run(['rm', '-rf', box], check=False)


def case_move_flag(tools, plen, flag):
    """`move "D" flag ...` where a prefix of D of `plen` characters is itself a maildir (decoy): the message
    must land below D whatever the lengths are (the two actions are merged by matches_merge)."""
    box = tools.box()
    for d in ('src/new', 'src/cur', 'tmp', 'home'):
        os.makedirs(os.path.join(box, d))
    P = deep(os.path.join(box, 'lists'), plen)
    D = P + '/announce'
    for base in (P, D):
        mk(base + '/new'); mk(base + '/cur')
    with open(os.path.join(box, 'src/new/1.host'), 'wb') as fh:
        fh.write(MSG)
    with open(os.path.join(box, 'conf'), 'w') as fh:
        fh.write('maildir "%s/src" {\n\tmatch all move "%s" flag %s\n}\n' % (box, D, flag))
    env = {'PATH': os.environ.get('PATH', ''), 'HOME': box + '/home', 'TMPDIR': box + '/tmp', 'LD_PRELOAD': tools.shim, 'LC_ALL': 'C'}
    env.update(proc.PIN)
    before = listing(box)
    r = subprocess.run([tools.mdsort, '-f', os.path.join(box, 'conf')], capture_output=True, env=env, cwd=box)
    after = listing(box)
    probs = []
    rel = './' + os.path.relpath(D, box)
    new = [p for p in after if p not in before]
    for p in new:
        if not p.startswith(rel + '/'):
            probs.append('delivered to a truncation of the destination: ...%s (destination has %d characters)' % (p[-70:], len(D)))
    if r.returncode == 0 and not new:
        probs.append('exit status 0 but not delivered')
    shutil_rm(box)
    return {'family': 'move-then-flag', 'length': len(D), 'status': r.returncode, 'problems': probs, 'stderr': r.stderr.decode('latin-1')[-160:]}


def case_hostname(tools, hostlen):
    box = tools.box()
    for d in ('src/new', 'src/cur', 'dst/new', 'dst/cur', 'tmp', 'home'):
        os.makedirs(os.path.join(box, d))
    with open(os.path.join(box, 'src/new/1.host'), 'wb') as fh:
        fh.write(MSG)
    with open(os.path.join(box, 'conf'), 'w') as fh:
        fh.write('maildir "%s/src" {\n\tmatch all flags "FRST" move "%s/dst"\n}\n' % (box, box))
    host = 'h' * hostlen
    env = {'PATH': os.environ.get('PATH', ''), 'HOME': box + '/home', 'TMPDIR': box + '/tmp', 'LD_PRELOAD': tools.shim, 'LC_ALL': 'C'}
    env.update(proc.PIN)
    env['VSHIM_HOST'] = host
    before = listing(box)
    r = subprocess.run([tools.mdsort, '-f', os.path.join(box, 'conf')], capture_output=True, env=env, cwd=box)
    after = listing(box)
    probs = []
    full = '1790000000.4242_8.%s:2,FRST' % host[:255]
    new = [p for p in after if p not in before]
    for p in new:
        name = os.path.basename(p)
        if name != full:
            probs.append('generated name differs from the intended one (%d vs %d characters): ...%s' % (len(name), len(full), name[-12:]))
    if len(full) > NAME_MAX and r.returncode == 0:
        probs.append('generated name of %d characters does not fit NAME_MAX but exit status is 0' % len(full))
    if len(before) + 0 != len(after):
        probs.append('number of files changed from %d to %d' % (len(before), len(after)))
    shutil_rm(box)
    return {'family': 'hostname', 'length': len(full), 'status': r.returncode, 'problems': probs, 'stderr': r.stderr.decode('latin-1')[-160:]}


def case_long_name(tools, n, sub):
    """A message whose FILE NAME has n bytes (NAME_MAX - 1, NAME_MAX; one more cannot exist on this platform, which is why the size test
    of message_parse on me_name - a buffer of NAME_MAX + 1 - cannot fire here): it is parsed, matched and moved like any other."""
    box = tools.box()
    for d in ('src/new', 'src/cur', 'dst/new', 'dst/cur', 'tmp', 'home'):
        os.makedirs(os.path.join(box, d))
    suffix = ':2,FS' if sub == 'cur' else ''
    name = 'n' * (n - len(suffix)) + suffix
    probs = []
    try:
        with open(os.path.join(box, 'src', sub, name), 'wb') as fh:
            fh.write(MSG)
    except OSError as e:
        shutil_rm(box)
        if n <= NAME_MAX:
            probs.append('cannot create a name of %d bytes: %s' % (n, e))
        return {'family': 'long-name', 'length': n, 'status': 'not-creatable', 'problems': probs, 'stderr': str(e)[-100:]}
    with open(os.path.join(box, 'conf'), 'w') as fh:
        fh.write('maildir "%s/src" {\n\tmatch header "Subject" /./ flags "T" move "%s/dst"\n}\n' % (box, box))
    env = {'PATH': os.environ.get('PATH', ''), 'HOME': box + '/home', 'TMPDIR': box + '/tmp', 'LD_PRELOAD': tools.shim, 'LC_ALL': 'C'}
    env.update(proc.PIN)
    r = subprocess.run([tools.mdsort, '-f', os.path.join(box, 'conf')], capture_output=True, env=env, cwd=box)
    after = listing(box)
    got = [p for p in after if p.startswith('./dst/')]
    want = '1790000000.4242_8.host:2,' + ('FST' if sub == 'cur' else 'T')
    if r.returncode != 0:
        probs.append('exit status %d for a message whose name has %d bytes' % (r.returncode, n))
    if [p[2:] for p in got] != ['dst/%s/%s' % (sub, want)]:
        probs.append('expected exactly dst/%s/%s, found %s' % (sub, want, [p[-60:] for p in got]))
    if any(p.startswith('./src/') and p.endswith(name[-20:]) for p in after):
        probs.append('the message is still in src')
    shutil_rm(box)
    return {'family': 'long-name', 'length': n, 'status': r.returncode, 'problems': probs, 'stderr': r.stderr.decode('latin-1')[-160:]}


def case_tmpdir(tools, total):
    box = tools.box()
    for d in ('dst/new', 'dst/cur', 'home'):
        os.makedirs(os.path.join(box, d))
    T = deep(os.path.join(box, 'tmp'), total)
    ok = mk(T) if total < PATH_MAX else False
    with open(os.path.join(box, 'conf'), 'w') as fh:
        fh.write('stdin {\n\tmatch all move "%s/dst"\n}\n' % box)
    env = {'PATH': os.environ.get('PATH', ''), 'HOME': box + '/home', 'TMPDIR': T, 'LD_PRELOAD': tools.shim, 'LC_ALL': 'C',
           'VSHIM_LOG': box + '.log'}
    env.update(proc.PIN)
    before = listing(box)
    r = subprocess.run([tools.mdsort, '-f', os.path.join(box, 'conf'), '-'], input=MSG, capture_output=True, env=env, cwd=box)
    after = listing(box)
    probs = []
    # the spool is TMPDIR/mdsort-XXXXXXXX (mkdtemp) and its new/ below: no call may name a truncation of either
    trace = read_trace(box)
    intended = [T + '/mdsort-XXXXXXXX']
    for t in trace:
        if t['kind'] == 'call' and t['name'] == 'mkdtemp' and t['result'].startswith('/'):
            intended.append(proc.unescape(t['result']).decode('latin-1') + '/new')
    probs += truncated_calls(trace, intended, len(box) + 8)
    fits = total + 1 + len('mdsort-XXXXXXXX') + 4 < PATH_MAX
    if r.returncode not in (0, 75, 1):
        probs.append('abnormal exit status %r' % r.returncode)
    if not fits and r.returncode == 0:
        probs.append('TMPDIR of %d characters does not fit but exit status is 0' % total)
    new = [p for p in after if p not in before]
    if r.returncode == 0:
        if not any(p.startswith('./dst/') for p in new):
            probs.append('exit status 0 but nothing delivered')
    stray = [p for p in new if not p.startswith('./dst/')]
    if stray:
        probs.append('files left outside the destination: %s' % [s[:50] + '...' for s in stray])
    left = subprocess.run(['find', '.', '-name', 'mdsort-*'], cwd=box, capture_output=True).stdout.decode('latin-1').strip()
    if left:
        probs.append('spool directory left behind (%d characters)' % len(left))
    shutil_rm(box)
    return {'family': 'tmpdir', 'length': total, 'status': r.returncode, 'problems': probs, 'stderr': r.stderr.decode('latin-1')[-160:]}


# --------------------------------------------------------------------------
# boundary sweep of every site that joins or copies a path (limit-3 .. limit+3), with decoys at the truncations
# --------------------------------------------------------------------------

OLD = 1790000000 - 3 * 86400          # three days before the pinned clock (proc.PIN)
GENNAME = '1790000000.4242_8.host'    # name maildir_genname produces under proc.PIN (count = 7 % 128 + 1)


def chain(prefix, total, width=180):
    """prefix + '/c/c...' of exactly `total` characters; components of 1..width characters; never ends in '/'."""
    p, k = prefix, 0
    assert total == len(p) or total - len(p) >= 2, (len(p), total)
    while len(p) < total:
        room = total - len(p) - 1
        n = min(width, room)
        if room - n == 1:
            n -= 1
        p += '/' + str(k % 10) + 'q' * (n - 1)
        k += 1
    assert len(p) == total, (len(p), total)
    return p


def dopen(path):
    """Descriptor of the directory `path` (absolute, ANY length: walked component by component), created when missing."""
    fd = os.open('/', os.O_RDONLY | os.O_DIRECTORY)
    for c in path.split('/'):
        if not c:
            continue
        try:
            try:
                os.mkdir(c, 0o700, dir_fd=fd)
            except FileExistsError:
                pass
            nfd = os.open(c, os.O_RDONLY | os.O_DIRECTORY, dir_fd=fd)
        except OSError:
            os.close(fd)
            return None
        os.close(fd)
        fd = nfd
    return fd


def dmkdir(path, mtime=None):
    fd = dopen(path.rstrip('/'))
    if fd is None:
        return False
    os.close(fd)
    if mtime is not None:
        d, name = path.rstrip('/').rsplit('/', 1)
        pfd = dopen(d)
        os.utime(name, (mtime, mtime), dir_fd=pfd)
        os.close(pfd)
    return True


def dwrite(path, data, mtime=None):
    d, name = path.rsplit('/', 1)
    fd = dopen(d)
    if fd is None:
        return False
    try:
        f = os.open(name, os.O_WRONLY | os.O_CREAT | os.O_TRUNC, 0o600, dir_fd=fd)
        os.write(f, data)
        os.close(f)
        if mtime is not None:
            os.utime(name, (mtime, mtime), dir_fd=fd)
        return True
    except OSError:
        return False
    finally:
        os.close(fd)


def maildir_at(root):
    return dmkdir(root + '/new') and dmkdir(root + '/cur')


def read_trace(box):
    p = box + '.log'
    if not os.path.exists(p):
        return []
    tr = proc.parse_trace(open(p, encoding='latin-1').read())
    os.unlink(p)
    return tr


def truncated_calls(trace, intended, floor, legit=()):
    """Problems for every traced call one of whose path arguments is a truncation of an intended path: a proper prefix that does not
    end at a component boundary (a prefix ending at a boundary is an ancestor directory, which is legitimate to name).  `legit`:
    paths of other objects of the scenario that happen to be such prefixes (a sibling message used as decoy)."""
    ints = [i.encode('latin-1') for i in intended]
    legit = [x.encode('latin-1') for x in legit]
    out = []
    for t in trace:
        if t['kind'] != 'call':
            continue
        for key, v in t['args'].items():
            if not v.startswith('/'):
                continue
            pv = proc.unescape(v)
            if len(pv) <= floor or pv in legit:
                continue
            for i in ints:
                if len(pv) < len(i) and i.startswith(pv) and i[len(pv):len(pv) + 1] != b'/':
                    out.append('call %s %s= names the first %d characters of the %d-character path ...%s' %
                               (t['name'], key, len(pv), len(i), i[-24:].decode('latin-1')))
                    break
    return out[:3]


def spell(how, P, home):
    """How path P is written in the configuration: (macro definitions, text between the quotes, extra header of the message,
    condition that captures the tail)."""
    if how == 'literal':
        return '', P, b'', ''
    if how == 'tilde':
        assert P.startswith(home + '/')
        return '', '~' + P[len(home):], b'', ''
    if how == 'macro':
        cut = len(P) - 60
        return 'tail = "%s"\n' % P[cut:], P[:cut] + '${tail}', b'', ''
    cut = len(P) - 40
    return '', P[:cut] + '\\1', b'X-Tail: ' + P[cut:].encode() + b'\n', 'header "X-Tail" /^(.*)$/'


class Box:
    """One sandbox: src and dst maildirs, home, tmp, a helper record; runs the real binary under the shim."""

    def __init__(self, tools):
        self.tools = tools
        self.box = tools.box()
        for d in ('src/new', 'src/cur', 'src/tmp', 'dst/new', 'dst/cur', 'tmp', 'home'):
            os.makedirs(os.path.join(self.box, d))
        self.home = self.box + '/home'
        self.tmp = self.box + '/tmp'

    def run(self, conf, args=(), stdin=None, tmpdir=None, home=None, default_conf=False):
        """default_conf: no -f option - the configuration is the one defaultconf() derives from HOME (the caller has put it there)."""
        with open(self.box + '/conf', 'w', encoding='latin-1') as fh:
            fh.write(conf)
        self.conf = conf
        env = {'PATH': os.environ.get('PATH', ''), 'HOME': home or self.home, 'TMPDIR': tmpdir or self.tmp, 'LD_PRELOAD': self.tools.shim,
               'VSHIM_LOG': self.box + '.log', 'LC_ALL': 'C', 'EXECHELPER_OUT': self.box + '/helper.out'}
        env.update(proc.PIN)
        self.before = listing(self.box)
        try:
            r = subprocess.run([self.tools.mdsort] + ([] if default_conf else ['-f', self.box + '/conf']) + list(args), input=stdin if stdin is not None else b'',
                               capture_output=True, env=env, cwd=self.box, timeout=30)
            self.status, self.err = r.returncode, r.stderr.decode('latin-1')
        except subprocess.TimeoutExpired:
            self.status, self.err = 'timeout', ''
        self.trace = read_trace(self.box)
        self.helper = []
        hp = self.box + '/helper.out'
        if os.path.exists(hp):
            for line in open(hp, encoding='latin-1').read().split('\n')[:-1]:
                kv = dict(x.split('=', 1) for x in line.split(' ') if '=' in x)
                argv = [] if kv.get('argv') == 'none' else [vlib.unhex(a) for a in kv.get('argv', '').split(',')]
                self.helper.append((argv, vlib.unhex(kv.get('stdin', '-'))))
            os.unlink(hp)
        self.after = listing(self.box)
        self.appeared = sorted(p for p in self.after if p not in self.before)
        self.gone = sorted(p for p in self.before if p not in self.after)

    def rel(self, path):
        return './' + path[len(self.box) + 1:]

    def rejected(self, what, probs):
        """The oracle of a path that does not fit: an error is reported, the exit status is non-zero and nothing was delivered,
        removed or run - neither at the intended place nor at a decoy."""
        if self.status == 0:
            probs.append('%s does not fit but the exit status is 0' % what)
        if self.status != 0 and not self.err.strip():
            probs.append('%s does not fit but nothing is reported on stderr' % what)
        if self.appeared or self.gone:
            probs.append('%s does not fit but files appeared %s / disappeared %s' %
                         (what, ['...' + p[-60:] for p in self.appeared[:3]], ['...' + p[-60:] for p in self.gone[:3]]))
        if self.helper:
            probs.append('%s does not fit but a command was run (%d times)' % (what, len(self.helper)))

    def result(self, family, length, probs, **kw):
        res = dict({'family': family, 'length': length, 'status': self.status, 'problems': probs, 'stderr': self.err[-200:],
                    'config': self.conf if len(self.conf) < 400 else self.conf[:150] + ' ...(%d characters)... ' % len(self.conf) + self.conf[-200:]}, **kw)
        shutil_rm(self.box)
        return res


def case_maildir_root(tools, n, how):
    """maildir "R" with len(R) = n: md_root = R (strlcpy, PATH_MAX), md_path = R + "/new", then R + "/cur" (pathjoin, PATH_MAX).
    The real maildir R exists whatever its length (built through descriptors); when R/new does not fit, a directory holding a decoy
    message stands at the truncation of R/new and of R/cur to PATH_MAX - 1 characters."""
    b = Box(tools)
    R = chain(b.home if how == 'tilde' else b.box + '/m', n)
    maildir_at(R)
    fits = n + 4 < PATH_MAX
    decoys = []
    if not fits:
        # the real maildir holds a message (unreachable: no message path below R/new fits when R/new is this long)
        dwrite(R + '/new/1.host', MSG)
        for sub in ('/new', '/cur'):
            t = (R + sub)[:PATH_MAX - 1].rstrip('/')
            if dmkdir(t) and dwrite(t + '/7.decoy', ws.msg(7)):
                decoys.append(t)
    macros, text, _, _ = spell(how, R, b.home)
    b.run('%smaildir "%s" {\n\tmatch all move "%s/dst"\n}\n' % (macros, text, b.box))
    probs = []
    if fits:
        # an empty maildir: it is walked (new, then cur) under exactly its path and there is nothing to report
        if b.status != 0 or b.err.strip():
            probs.append('maildir path of %d characters fits (with /new: %d) but exit status %r, stderr %r' % (n, n + 4, b.status, b.err[-120:]))
        opened = [proc.unescape(t['args'].get('path', '')).decode('latin-1') for t in b.trace
                  if t['kind'] == 'call' and t['name'] == 'opendir' and t['errno'] is None]
        if opened != [R + '/new', R + '/cur']:
            probs.append('maildir path fits but the directories walked are %s' % ['%d characters ...%s' % (len(o), o[-8:]) for o in opened])
        if b.appeared or b.gone:
            probs.append('files appeared %s / disappeared %s' % (b.appeared[:2], b.gone[:2]))
    else:
        b.rejected('maildir path of %d characters (with /new: %d)' % (n, n + 4), probs)
    probs += truncated_calls(b.trace, [R + '/new', R + '/cur'], len(b.box) + 8)
    return b.result('maildir-root-' + how, n, probs, decoys=len(decoys))


def case_message_path(tools, total, decoy):
    """A message whose path dir + "/" + name has `total` characters (message_parse, pathjoin into me_path).  me_path is what
    date modified stat()s and what ${path} expands to: a fresh message must never match `date modified > 1 days`, and the helper
    must get exactly the path.  Decoy at the truncation of the path: an old directory, or a sibling message."""
    b = Box(tools)
    name = '1700000000.1_1.' + 'h' * 25
    R = chain(b.box + '/m', total - 1 - len(name) - 4)
    maildir_at(R)
    full = R + '/new/' + name
    dwrite(full, MSG)
    over = max(total - (PATH_MAX - 1), 1)
    trunc = full[:len(full) - over]
    if decoy == 'dir':
        dmkdir(trunc, mtime=OLD)
    else:
        dwrite(trunc, ws.msg(7))
    b.run('maildir "%s" {\n\tmatch date modified > 1 days move "%s/dst"\n\tmatch all exec { "%s" "${path}" }\n}\n' % (R, b.box, tools.helper))
    fits = total < PATH_MAX
    probs = []
    want = sorted(([full.encode()] if fits else []) + ([trunc.encode()] if decoy == 'file' else []))
    got = sorted(a[0] if a else b'' for a, _ in b.helper)
    if got != want:
        probs.append('${path} given to the command: %s, expected %s (message path of %d characters)' %
                     (['%d characters ...%s' % (len(g), g[-12:].decode('latin-1')) for g in got],
                      ['%d characters ...%s' % (len(g), g[-12:].decode('latin-1')) for g in want], total))
    if b.appeared or b.gone:
        probs.append('no message is older than a day, yet files appeared %s / disappeared %s' %
                     (['...' + p[-50:] for p in b.appeared[:2]], ['...' + p[-50:] for p in b.gone[:2]]))
    if fits and b.status != 0:
        probs.append('message path of %d characters fits but exit status %r' % (total, b.status))
    if not fits:
        if b.status == 0:
            probs.append('message path of %d characters does not fit but the exit status is 0' % total)
        elif not b.err.strip():
            probs.append('message path does not fit but nothing is reported')
    probs += truncated_calls(b.trace, [full], len(b.box) + 8, legit=[trunc] if decoy == 'file' else [])
    return b.result('message-path-decoy-' + decoy, total, probs)


def case_destination_decoy(tools, over, how):
    """move "D" where D + "/new" exceeds PATH_MAX - 1 by `over` characters and its truncation to PATH_MAX - 1 characters is
    E + "/new" for an existing, empty maildir E (D = E/new, E/new/, E/new/a, ...): nothing may be delivered there."""
    b = Box(tools)
    E = chain(b.home if how == 'tilde' else b.box + '/lists', PATH_MAX - 5)
    maildir_at(E)
    D = E + '/new' + {4: '', 5: '/', 6: '/a', 7: '/ab', 8: '/abc'}[over]
    assert (D + '/new')[:PATH_MAX - 1] == E + '/new' and len(D) + 4 == PATH_MAX - 1 + over
    maildir_at(D.rstrip('/'))
    macros, text, hdr, cond = spell(how, D, b.home)
    dwrite(b.box + '/src/new/1.host', MSG.replace(b'\n\n', b'\n' + hdr + b'\n', 1))
    b.run('%smaildir "%s/src" {\n\tmatch %s move "%s"\n}\n' % (macros, b.box, cond or 'all', text))
    probs = []
    b.rejected('destination of %d characters (with /new: %d)' % (len(D), len(D) + 4), probs)
    probs += truncated_calls(b.trace, [D + '/new'], len(b.box) + 8)
    return b.result('destination-decoy-' + how, len(D), probs, over=over)


def case_set_file(tools, total):
    """move "D" where D/new fits but the NEW path of the message, D + "/new/" + generated name (message_set_file), has `total`
    characters: the message is either delivered under exactly that name or left alone, and failure is reported."""
    b = Box(tools)
    moved = GENNAME + ':2,'            # a flag-less message delivered by a move gets the (empty) info part
    D = chain(b.box + '/d', total - 1 - len(moved) - 4)
    maildir_at(D)
    dwrite(b.box + '/src/new/1.host', MSG)
    b.run('maildir "%s/src" {\n\tmatch all move "%s"\n}\n' % (b.box, D))
    probs = []
    fits = total < PATH_MAX
    want = b.rel(D + '/new/' + moved)
    if b.appeared not in ([], [want]):
        probs.append('message delivered under another name than the intended one: ...%s' % b.appeared[0][-40:])
    if len(b.after) != len(b.before):
        probs.append('number of files changed from %d to %d' % (len(b.before), len(b.after)))
    if fits and (b.status != 0 or b.appeared != [want]):
        probs.append('new message path of %d characters fits but exit status %r, delivered %s' % (total, b.status, bool(b.appeared)))
    if not fits and b.status == 0:
        probs.append('new message path of %d characters does not fit but the exit status is 0' % total)
    probs += truncated_calls(b.trace, [D + '/new/' + moved], len(b.box) + 8)
    return b.result('message-set-file', total, probs)


def case_isdirectory(tools, total, how):
    """match isdirectory "I" with len(I) = total (expr_eval_stat: strlcpy into mh_path; match_interpolate: strlcpy after
    interpolation; expandtilde at configuration time).  Within the limit I is a directory (the rule applies); beyond it a directory
    stands at the first PATH_MAX - 1 characters of I."""
    b = Box(tools)
    base = b.home if how == 'tilde' else b.box + '/w'
    if total < PATH_MAX:
        I = chain(base, total)
        dmkdir(I)
    else:
        I = chain(base, PATH_MAX - 1)
        dmkdir(I)
        I += 'z' * (total - (PATH_MAX - 1))
    macros, text, hdr, cond = spell(how, I, b.home)
    dwrite(b.box + '/src/new/1.host', MSG.replace(b'\n\n', b'\n' + hdr + b'\n', 1))
    b.run('%smaildir "%s/src" {\n\tmatch %sisdirectory "%s" move "%s/dst"\n}\n' % (macros, b.box, cond + ' and ' if cond else '', text, b.box))
    probs = []
    if total < PATH_MAX:
        if b.status != 0 or b.gone != ['./src/new/1.host'] or len(b.appeared) != 1 or not b.appeared[0].startswith('./dst/new/'):
            probs.append('isdirectory path of %d characters fits and is a directory, but exit status %r, appeared %s, disappeared %s' %
                         (total, b.status, b.appeared[:2], b.gone[:2]))
    else:
        b.rejected('isdirectory path of %d characters' % total, probs)
    probs += truncated_calls(b.trace, [I], len(b.box) + 8)
    return b.result('isdirectory-' + how, total, probs)


def case_exec_tmp(tools, total):
    """exec stdin body: the body goes through a temporary file TMPDIR + "/mdsort-XXXXXXXX" (writefd, pathjoin) of `total` characters."""
    b = Box(tools)
    T = chain(b.box + '/t', total - 1 - len('mdsort-XXXXXXXX'))
    dmkdir(T)
    dwrite(b.box + '/src/new/1.host', MSG)
    b.run('maildir "%s/src" {\n\tmatch all exec stdin body "%s"\n}\n' % (b.box, tools.helper), tmpdir=T)
    probs = []
    body = MSG.split(b'\n\n', 1)[1]
    if total < PATH_MAX:
        if b.status != 0 or [h[1] for h in b.helper] != [body]:
            probs.append('temporary file path of %d characters fits but exit status %r, command got %r' % (total, b.status, [h[1][:20] for h in b.helper]))
    else:
        b.rejected('temporary file path of %d characters' % total, probs)
    if b.appeared or b.gone:
        probs.append('files appeared %s / disappeared %s' % (['...' + p[-40:] for p in b.appeared[:2]], b.gone[:2]))
    probs += truncated_calls(b.trace, [T + '/mdsort-XXXXXXXX'], len(b.box) + 8)
    return b.result('exec-tempfile', total, probs)


def case_spool_message(tools, total):
    """stdin mode: the spooled message TMPDIR/mdsort-XXXXXXXX/new/<generated name> has `total` characters (message_parse)."""
    b = Box(tools)
    T = chain(b.box + '/t', total - 1 - len(GENNAME) - 4 - 1 - len('mdsort-XXXXXXXX'))
    dmkdir(T)
    b.run('stdin {\n\tmatch all move "%s/dst"\n}\n' % b.box, args=['-'], stdin=MSG, tmpdir=T)
    probs = []
    if total < PATH_MAX:
        if b.status != 0 or len(b.appeared) != 1 or not b.appeared[0].startswith('./dst/new/'):
            probs.append('spooled message path of %d characters fits but exit status %r, delivered %s' % (total, b.status, b.appeared[:1]))
    else:
        b.rejected('spooled message path of %d characters' % total, probs)
    left = subprocess.run(['find', '.', '-name', 'mdsort-*'], cwd=b.box, capture_output=True).stdout.decode('latin-1').strip()
    if left:
        probs.append('spool directory left behind')
    intended = [T + '/mdsort-XXXXXXXX']
    for t in b.trace:
        if t['kind'] == 'call' and t['name'] == 'mkdtemp' and t['result'].startswith('/'):
            root = proc.unescape(t['result']).decode('latin-1')
            intended += [root + '/new', root + '/new/' + GENNAME]
    probs += truncated_calls(b.trace, intended, len(b.box) + 8)
    return b.result('spool-message', total, probs)


CONF_NAME = '.mdsort.conf'


def case_default_conf(tools, hlen, mode):
    """No -f option: the configuration path is HOME + "/.mdsort.conf" (mdsort.c defaultconf: snprintf into PATH_MAX bytes), HOME a real
    directory of exactly `hlen` characters that holds the real configuration (moves the message to dst) and, under EVERY name that is a
    proper prefix of ".mdsort.conf" (".mdsort.con", ".mdsort.co", ... ".m": whatever a truncated path would name), a decoy
    configuration that moves the message to a decoy maildir.  mode: run (sort the maildir) | syntax (-n) | dry (-d).
    Fits (hlen + 13 < PATH_MAX): the real configuration is read under exactly its path and obeyed.  Does not fit: an error is
    reported, non-zero exit, nothing moves, and no call names a truncation of the intended path."""
    b = Box(tools)
    H = chain(b.box + '/h', hlen)
    dmkdir(H)
    for d in ('decoy/new', 'decoy/cur'):
        os.makedirs(os.path.join(b.box, d))
    full = H + '/' + CONF_NAME
    real = 'maildir "%s/src" {\n\tmatch all move "%s/dst"\n}\n' % (b.box, b.box)
    decoy = 'maildir "%s/src" {\n\tmatch all move "%s/decoy"\n}\n' % (b.box, b.box)
    dwrite(full, real.encode())
    ndecoys = 0
    for k in range(2, len(CONF_NAME)):
        ndecoys += bool(dwrite(H + '/' + CONF_NAME[:k], decoy.encode()))
    dwrite(b.box + '/src/new/1.host', MSG)
    args = {'run': [], 'syntax': ['-n'], 'dry': ['-d']}[mode]
    b.run(real, args=args, home=H, default_conf=True)
    fits = hlen + 1 + len(CONF_NAME) < PATH_MAX
    probs = []
    opened = [proc.unescape(t['args'].get('path', '')).decode('latin-1') for t in b.trace if t['kind'] == 'call' and t['name'] == 'fopen']
    if fits:
        if opened[:1] != [full]:
            probs.append('the default configuration path of %d characters fits, but the file opened is %s' %
                         (len(full), ['%d characters ...%s' % (len(o), o[-16:]) for o in opened[:2]]))
        if mode == 'run':
            if b.status != 0 or b.gone != ['./src/new/1.host'] or len(b.appeared) != 1 or not b.appeared[0].startswith('./dst/new/'):
                probs.append('HOME of %d characters: the default configuration fits and must be obeyed, but exit status %r, appeared %s, disappeared %s; %s' %
                             (hlen, b.status, ['...' + p[-40:] for p in b.appeared[:2]], b.gone[:2], b.err[-120:]))
        else:
            if b.status != 0 or b.appeared or b.gone:
                probs.append('HOME of %d characters, %s: exit status %r, appeared %s, disappeared %s; %s' %
                             (hlen, args[0], b.status, b.appeared[:2], b.gone[:2], b.err[-120:]))
    else:
        b.rejected('the default configuration path HOME/.mdsort.conf of %d characters (HOME: %d)' % (len(full), hlen), probs)
        if opened:
            probs.append('the default configuration path does not fit, yet a configuration file was opened: %s' %
                         ['%d characters ...%s' % (len(o), o[-16:]) for o in opened[:2]])
    probs += truncated_calls(b.trace, [full], len(b.box) + 8)
    return b.result('default-conf-' + mode, hlen, probs, decoys=ndecoys)


def case_env_copy(tools, var, n):
    """readenv(): HOME and TMPDIR are copied into PATH_MAX-byte buffers whatever the mode of the run (strlcpy, >= siz is an error).
    The value has `n` characters; a maildir run with -f that needs neither.  Shorter than PATH_MAX: the run proceeds as configured.
    Otherwise: error, non-zero exit, nothing touched."""
    b = Box(tools)
    V = chain(b.box + '/e', n)
    dwrite(b.box + '/src/new/1.host', MSG)
    kw = {'home': V} if var == 'HOME' else {'tmpdir': V}
    b.run('maildir "%s/src" {\n\tmatch all move "%s/dst"\n}\n' % (b.box, b.box), **kw)
    probs = []
    if n < PATH_MAX:
        if b.status != 0 or b.gone != ['./src/new/1.host'] or len(b.appeared) != 1 or not b.appeared[0].startswith('./dst/new/'):
            probs.append('%s of %d characters fits, but exit status %r, appeared %s, disappeared %s; %s' %
                         (var, n, b.status, b.appeared[:2], b.gone[:2], b.err[-120:]))
    else:
        b.rejected('%s of %d characters' % (var, n), probs)
    probs += truncated_calls(b.trace, [V], len(b.box) + 8)
    return b.result('readenv-' + var, n, probs)


def unit_start(rep, sc):
    """defaultconf() and readenv() in-process (harness/unit/h_main.c: mdsort.c with main renamed, ASan + UBSan, one child per request)
    against Model.defaultconf / Model.readenv (M dconf, M renv) and against the statement of C18_defaultconf_exact / C18_readenv_exact:
    accepted iff the result is shorter than PATH_MAX, and then it is the complete string."""
    h = sc.unit_harness('h_main', ['mdsort.c'])
    reqs, want = [], []
    suffix = ('/' + CONF_NAME).encode()
    for n in sorted(set(range(0, 20)) | {100, 255, 256, 1024, 2048, 4000} | set(range(PATH_MAX - 30, PATH_MAX + 6)) | {5000, 8192, 70000}):
        for fill in (b'h', b'/d'):
            home = (fill * (n // len(fill) + 1))[:n]
            reqs.append(('dconf', home))
            want.append('OK ' + vlib.hexs(home + suffix) if n + len(suffix) < PATH_MAX else 'EXIT 1')
    for n in sorted({1, 2, 100, 4000} | set(range(PATH_MAX - 4, PATH_MAX + 5)) | {9000}):
        v = (b'/v' * (n // 2 + 1))[:n]
        reqs.append(('renv', v, b'/t'))
        want.append('OK %s %s' % (vlib.hexs(v), vlib.hexs(b'/t')) if n < PATH_MAX else 'EXIT 1')
        reqs.append(('renv', b'/h', v))
        want.append('OK %s %s' % (vlib.hexs(b'/h'), vlib.hexs(v)) if n < PATH_MAX else 'EXIT 1')
    reqs.append(('renv', b'/h', b''))
    want.append('OK %s %s' % (vlib.hexs(b'/h'), vlib.hexs(b'/tmp/')))
    reqs.append(('renv', b'/h', b'~'))
    want.append('OK %s %s' % (vlib.hexs(b'/h'), vlib.hexs(b'/tmp/')))
    lines = [vlib.Differential.line(r) for r in reqs]
    impl = vlib.run_batch([h], lines, vlib.ASAN_ENV)
    model = vlib.run_batch([vlib.driver_path()], ['M ' + l for l in lines])
    bad_spec, bad_model = [], []
    for r, l, i, m, w in zip(reqs, lines, impl, model, want):
        if i != w:
            bad_spec.append((r, l, i, m, w))
        elif i != m:
            bad_model.append((r, l, i, m, w))
    for r, l, i, m, w in bad_spec[:4]:
        arg = r[1] if r[0] == 'dconf' or len(r[1]) > len(r[2]) else r[2]
        got = vlib.unhex(i[3:].split(' ')[0]) if i.startswith('OK ') else None
        what = ('%s with a value of %d characters: implementation %s, expected %s' %
                ({'dconf': 'defaultconf(home)', 'renv': 'readenv()'}[r[0]], len(arg),
                 'exit' if got is None else 'a path of %d characters ending ...%s' % (len(got), got[-16:].decode('latin-1')),
                 'exit status 1' if w.startswith('EXIT') else 'the complete path of %d characters' % len(vlib.unhex(w[3:].split(' ')[0]))))
        rep.finding('sanitizer-fault' if i.startswith('FAULT') else 'unlisted',
                    {'family': 'unit-' + r[0], 'harness': 'h_main', 'request': l[:300] + ('...' if len(l) > 300 else ''), 'value_length': len(arg), 'what': [what],
                     'implementation': i[:80] + '...' + i[-40:] if len(i) > 130 else i, 'model': m[:80] + '...' + m[-40:] if len(m) > 130 else m})
    return {'requests': len(reqs), 'dconf': sum(1 for r in reqs if r[0] == 'dconf'), 'renv': sum(1 for r in reqs if r[0] == 'renv'),
            'rejected': sum(1 for w in want if w.startswith('EXIT')), 'spec_failures': len(bad_spec), 'model_mismatches': len(bad_model),
            'model_examples': [{'request': l[:200], 'implementation': i[:100], 'model': m[:100]} for r, l, i, m, w in bad_model[:5]]}


def pslice_spec(path, siz, beg, end):
    """pathslice: the components beg..end of the path (negative: from the end; in a range -1 excludes the last component), in a range
    each preceded by '/' - except the first component of a path WITHOUT a leading slash, which has none; it fits iff it is shorter than
    the buffer.  A relative path counts its first component like any other (`src/new/1.host`: 0 = `src`)."""
    isabs = path.startswith(b'/')
    comps = (path[1:] if isabs else path).split(b'/')
    n = len(comps)
    rng = 0 if beg == end else 1
    if end < 0:
        end = n + end - rng
    if beg < 0:
        beg = n + beg - rng
    if beg < 0 or beg > end or end < 0 or end >= n:
        return None
    if rng:
        res = b''.join((b'' if (i == 0 and not isabs) else b'/') + c for i, c in list(enumerate(comps))[beg:end + 1])
    else:
        res = comps[beg]
    return res if len(res) < siz else None


def unit_paths(rep, sc):
    """pathjoin / pathslice in-process (ASan + UBSan) at exactly bufsiz, bufsiz - 1 and around, against the Lean model (M pjoin,
    M pslice) and against the statement `accepted iff the result is shorter than the buffer, and then it is the whole result`."""
    import evalcommon as ec
    h, env = ec.harness(sc)
    reqs, want = [], []
    for siz in (0, 1, 2, 3, 4, 5, 8, 16, 17, 64, 255, 256, 257, 1024, 4095, 4096, 4097):
        for total in range(max(1, siz - 3), siz + 4):
            for dl in sorted({0, 1, (total - 1) // 2, max(total - 2, 0), total - 1}):
                fl = total - 1 - dl
                if fl < 0:
                    continue
                d = (b'/' + b'd' * 300 + b'/' + b'e' * 5000)[:dl]
                f = (b'f' * 200 + b'/' + b'g' * 5000)[:fl]
                reqs.append(('pjoin', str(siz).encode(), d, f))
                s = d + b'/' + f
                want.append('OK ' + vlib.hexs(s) if len(s) < siz else 'NONE')
    shapes = [[3, 4, 3], [1, 1, 1, 1], [200, 3, 24], [250, 255, 3, 255], [180] * 22 + [100, 3, 22], [5], [255], [256, 2],
              [180] * 22 + [112, 3], [180] * 22 + [113, 3], [180] * 22 + [112, 3, 22], [180] * 22 + [113, 3, 22]]
    for shape in shapes:
        path = b''.join(b'/' + bytes([97 + i % 26]) * n for i, n in enumerate(shape))
        for beg, end in ((0, -1), (0, -2), (-1, -1), (-2, -2), (0, 0), (1, 2), (0, 1), (1, -1), (-3, -1), (2, 1), (0, 9)):
            full = pslice_spec(path, 1 << 30, beg, end)
            r = len(full) if full is not None else 4
            for siz in sorted(set(range(max(0, r - 3), r + 4)) | {256, 4096}):
                reqs.append(('pslice', path, str(siz).encode(), str(beg).encode(), str(end).encode()))
                s = pslice_spec(path, siz, beg, end)
                want.append('NONE' if s is None else 'OK ' + vlib.hexs(s))
    # paths WITHOUT a leading slash (maildirs named relative to the working directory): `src/new/1.host`, `./src/new/x`, `src//new/x`,
    # `../b/src/cur/x`, a single component, trailing slashes, the empty path - with the slices mdsort takes (maildir 0..-2, subdirectory
    # -2, last component -1) and others, at every buffer size around the result
    rels = [b'src/new/1.host', b'./src/new/1.host', b'src//new/1.host', b'src///cur/x', b'../box/src/cur/2.host:2,S', b'sub/../src/new/x', b'a', b'ab/c',
            b'a/', b'a//', b'', b'.', b'..', b'x/new/' + b'n' * 255, b'd' * 300 + b'/new/1', b'.//src/new/1.host']
    nrel = 0
    for path in rels:
        for beg, end in ((0, -2), (-2, -2), (-1, -1), (0, -1), (0, 0), (1, 1), (1, 2), (0, 1), (1, -1), (-3, -1), (-3, -3), (2, 1), (0, 9), (-9, -1)):
            full = pslice_spec(path, 1 << 30, beg, end)
            r = len(full) if full is not None else 4
            for siz in sorted(set(range(max(0, r - 2), r + 3)) | {0, 1, 256, 4096}):
                reqs.append(('pslice', path, str(siz).encode(), str(beg).encode(), str(end).encode()))
                s = pslice_spec(path, siz, beg, end)
                want.append('NONE' if s is None else 'OK ' + vlib.hexs(s))
                nrel += 1
    lines = [vlib.Differential.line(r) for r in reqs]
    impl = vlib.run_batch([h], lines, env)
    model = vlib.run_batch([vlib.driver_path()], ['M ' + l for l in lines])
    bad_spec, bad_model = [], []
    for r, l, i, m, w in zip(reqs, lines, impl, model, want):
        if i != w:
            bad_spec.append((r, l, i, m, w))
        elif i != m:
            bad_model.append((r, l, i, m, w))
    for r, l, i, m, w in bad_spec[:4]:
        siz = int(r[1] if r[0] == 'pjoin' else r[2])
        full = r[2] + b'/' + r[3] if r[0] == 'pjoin' else pslice_spec(r[1], 1 << 30, int(r[3]), int(r[4]))
        what = ('%s with a %d-byte buffer and a full result of %s characters: implementation %s, expected %s' %
                (r[0], siz, len(full) if full is not None else 'no', i[:40], w[:40]))
        rep.finding('sanitizer-fault' if i.startswith('FAULT') else 'unlisted',
                    {'family': 'unit-' + r[0], 'harness': 'h_expr', 'request': l[:300], 'what': [what], 'implementation': i[:200], 'model': m[:200],
                     'specification': w[:200]})
    return {'requests': len(reqs), 'pjoin': sum(1 for r in reqs if r[0] == 'pjoin'), 'pslice': sum(1 for r in reqs if r[0] == 'pslice'),
            'pslice_relative_paths': nrel, 'rejected': sum(1 for w in want if w == 'NONE'), 'spec_failures': len(bad_spec), 'model_mismatches': len(bad_model),
            'model_examples': [{'request': l[:300], 'implementation': i[:100], 'model': m[:100]} for r, l, i, m, w in bad_model[:5]]}


def run(rep):
    rng = random.Random(rep.seed)
    sc = vlib.Scratch()
    global PATH_MAX, NAME_MAX
    try:
        import gen_tables
        lim = gen_tables.platform_macros(sc.src, ['PATH_MAX', 'NAME_MAX'])
        PATH_MAX, NAME_MAX = lim['PATH_MAX'], lim['NAME_MAX']
    except Exception as e:                    # the translator reports the same failure as a broken obligation (lean_gate)
        vlib.log('platform limits not read from the headers (%s): windows placed around %d / %d' % (e, PATH_MAX, NAME_MAX))
    tools = proc.Tools(sc)
    vlib.lean_gate(rep, 'C18', sc, [
        'platform limits PATH_MAX = %d, NAME_MAX = %d as cc -E -dM reports them for the translation units of the tree (regenerated into Gen.pathMax / Gen.nameMax, which the model is defined with; C18_limits)' % (PATH_MAX, NAME_MAX),
        'the file listing uses find(1) because paths beyond PATH_MAX cannot be named in one system call',
    ])
    jobs = []
    win = range(-8, 9) if rep.tier != 'quick' else range(-8, 9, 1)
    for how in ('literal', 'tilde', 'macro', 'interp'):
        for dlt in win:
            jobs.append(('dest', PATH_MAX - 4 + dlt, how))
    for dlt in win:
        jobs.append(('mf', NAME_MAX + dlt, 'new'))
        jobs.append(('mf', NAME_MAX + dlt, '!new'))
    for dlt in win:
        jobs.append(('host', 255 - len('1790000000.4242_8.') - len(':2,FRST') + dlt, None))
        jobs.append(('tmp', PATH_MAX - 1 - len('mdsort-XXXXXXXX') - 4 + dlt, None))
    # every joining / copying site at limit-3 .. limit+3 (exactly the limit and limit-1 included), decoys at the truncations
    near = range(-3, 4)
    for how in ('literal', 'tilde', 'macro'):
        for n in range(PATH_MAX - 4 - 3, PATH_MAX + 4):          # R + "/new" around PATH_MAX ... R itself around PATH_MAX
            jobs.append(('root', n, how))
    for dlt in near:
        for decoy in ('dir', 'file'):
            jobs.append(('msg', PATH_MAX + dlt, decoy))
        for how in ('literal', 'tilde', 'macro', 'interp'):
            jobs.append(('isdir', PATH_MAX + dlt, how))
        jobs.append(('setfile', PATH_MAX + dlt, None))
        jobs.append(('exectmp', PATH_MAX + dlt, None))
        jobs.append(('spoolmsg', PATH_MAX + dlt, None))
    for over in (4, 5, 6, 7, 8):
        for how in ('literal', 'tilde', 'macro', 'interp'):
            jobs.append(('destdecoy', over, how))
    # the default configuration path (no -f): HOME + "/.mdsort.conf" at PATH_MAX-3 .. PATH_MAX+3, decoy configurations at every truncation;
    # HOME and TMPDIR themselves at PATH_MAX-2 .. PATH_MAX+2 (readenv copies both in every mode)
    for hlen in range(PATH_MAX - 16, PATH_MAX - 9):
        for mode in ('run', 'syntax', 'dry'):
            jobs.append(('defconf', hlen, mode))
    jobs.append(('defconf', 300, 'run'))
    for n in range(PATH_MAX - 2, PATH_MAX + 3):
        jobs.append(('envcopy', 'HOME', n))
        jobs.append(('envcopy', 'TMPDIR', n))
    for n in (NAME_MAX - 1, NAME_MAX, NAME_MAX + 1):
        for sub in ('new', 'cur'):
            jobs.append(('longname', n, sub))
    NEW = {'longname': case_long_name, 'root': case_maildir_root, 'msg': case_message_path, 'isdir': case_isdirectory, 'destdecoy': case_destination_decoy,
           'defconf': case_default_conf}

    def do(j):
        if j[0] in NEW:
            return NEW[j[0]](tools, j[1], j[2])
        if j[0] == 'envcopy':
            return case_env_copy(tools, j[1], j[2])
        if j[0] == 'setfile':
            return case_set_file(tools, j[1])
        if j[0] == 'exectmp':
            return case_exec_tmp(tools, j[1])
        if j[0] == 'spoolmsg':
            return case_spool_message(tools, j[1])
        if j[0] == 'dest':
            return case_destination(tools, j[1], j[2])
        if j[0] == 'mf':
            return case_move_flag(tools, j[1], j[2])
        if j[0] == 'host':
            return case_hostname(tools, j[1])
        return case_tmpdir(tools, j[1])
    with cf.ThreadPoolExecutor(vlib.NCPU) as ex:
        results = list(ex.map(do, jobs))
    fam = {}
    for r in results:
        fam[r['family']] = fam.get(r['family'], 0) + 1
        if r['problems']:
            rep.finding('unlisted', {'family': r['family'], 'length': r['length'], 'exit_status': r['status'], 'what': r['problems'][:4], 'stderr': r['stderr'],
                                     'config': r.get('config', '')})
    __import__('c18seq').stage(rep, tools, sc, rng)     # position family: the failing path in the middle of an action list
    pairs_cov = None
    if rep.tier == 'thorough':
        # two path-carrying inputs near their limits in the same run, every combination of lengths (tools/c18pairs.py)
        pairs_cov = __import__('c18pairs').stage(rep, tools, int(os.environ.get('VERIF_C18_WINDOW', '0')) or 6)
    import envlen; envcov = envlen.stage(rep, sc, tools, tier=rep.tier); envcov['unit'] = envlen.unit(rep, sc, rep.tier)   # HOME / TMPDIR / TZ / host name around their buffer sizes
    unit = unit_paths(rep, sc)
    if unit['model_mismatches'] and not rep.violations:
        rep.violation({'obligation': 'correspondence util.c (pathjoin, pathslice) <-> Model/Flags.lean', 'disagreements': unit['model_mismatches'],
                       'examples': unit['model_examples']}, False)
    ustart = unit_start(rep, sc)
    if ustart['model_mismatches'] and not rep.violations:
        rep.violation({'obligation': 'correspondence mdsort.c (defaultconf, readenv) <-> Model/Start.lean', 'disagreements': ustart['model_mismatches'],
                       'examples': ustart['model_examples']}, False)
    if envcov['unit']['model_mismatches'] and not rep.violations:
        rep.violation({'obligation': 'correspondence mdsort.c (readenv incl. TZ) <-> Model/Start.lean', 'disagreements': envcov['unit']['model_mismatches'],
                       'examples': envcov['unit']['model_examples']}, False)
    vlib.lean_conclude(rep)
    rep.coverage.update({
        'environment_length': envcov,
        'unit_start': ustart,
        'start_rule': 'no -f option: HOME a real directory of PATH_MAX-16 .. PATH_MAX-10 characters holding the real .mdsort.conf and a decoy configuration '
                      'under every proper prefix of that name, in a normal run, with -n and with -d: fits (HOME + 13 < PATH_MAX) => exactly that file is '
                      'opened and obeyed; does not fit => error reported, non-zero exit, nothing moves, no configuration file opened, no call names a '
                      'truncation; HOME and TMPDIR of PATH_MAX-2 .. PATH_MAX+2 characters in a maildir run (readenv copies both); unit: defaultconf() '
                      'and readenv() of the real mdsort.c in-process against Model.defaultconf / Model.readenv and "accepted iff shorter than PATH_MAX, '
                      'then complete"',
        'evaluations': len(results) + unit['requests'] + ustart['requests'] + (pairs_cov['runs'] if pairs_cov else 0),
        'distinct_nontrivial': len([r for r in results if r['status'] != 0]),
        'rule': 'every length in a window of +-8 around the limit for: destination path literal / after ~ expansion / after macro expansion / '
                'after interpolation (PATH_MAX), generated file name through the host name (NAME_MAX), TMPDIR of the stdin spool (PATH_MAX); real '
                'binary under the shim with deep directory chains; judged: over the limit => non-zero exit and no file appears or disappears; '
                'within => delivered exactly at the intended path; no libc call uses a proper prefix of the intended path; non-trivial = runs '
                'that were rejected',
        'boundary_rule': 'every site that joins or copies a path, total length limit-3 .. limit+3 (limit-1 must be accepted, limit rejected): maildir '
                         'root + /new, /cur (literal / ~ / macro; root length up to PATH_MAX+3), message path dir + name (me_path: date modified and '
                         '${path} witness it), new message path after a move, isdirectory path (literal / ~ / macro / back-reference), temporary file '
                         'of exec stdin body in TMPDIR, spooled stdin message; destinations whose truncation IS an existing maildir (E/new, E/new/, '
                         'E/new/a..); a decoy of the expected kind stands at the PATH_MAX-1 truncation (maildir with a message, old directory, '
                         'sibling message, directory); judged: fits => carried out at exactly the intended path, exit 0; does not fit => non-zero '
                         'exit, something on stderr, no file appears or disappears, no command run; no traced call names a truncation (prefix cut '
                         'inside a component) of an intended path; unit: pathjoin/pathslice at bufsiz-3..bufsiz+3 for 17 buffer sizes against '
                         'Model.pathjoin/pathslice and the statement "accepted iff shorter than the buffer"',
        'unit_paths': unit,
        'samples': results[:2] + [r for r in results if r['status'] != 0][:2],
        'families': fam,
        'single_input_sweeps': {'runs': len(results), 'exhaustive': True},
    })
    if pairs_cov:
        rep.coverage['pairs_of_inputs_near_their_limits'] = pairs_cov


def replay(rep, path):
    import json
    print(json.dumps(json.load(open(path)), indent=1)[:3000])
    sc = vlib.Scratch()
    vlib.lean_gate(rep, 'C18', sc, [])
    rep.coverage.update({'evaluations': 1, 'distinct_nontrivial': 1})
