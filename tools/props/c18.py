"""C18 - over-long paths are rejected, never truncated."""
import concurrent.futures as cf
import os
import random
import subprocess
import vlib
import proc
import world
import worldscen as ws

R = '@R@'
PATH_MAX, NAME_MAX = 4096, 255


def deep(prefix, total):
    """A path starting with `prefix` of exactly `total` characters, components of <= 200 characters."""
    p = prefix
    k = 0
    while len(p) < total:
        room = total - len(p) - 1
        if room <= 0:
            p += 'x' * (total - len(p))
            break
        n = min(200, room)
        if 0 < room - n < 2:
            n = room - 2 if room > 2 else room
        p += '/' + ('d%d' % (k % 10)) + 'y' * (n - 2)
        k += 1
    assert len(p) == total, (len(p), total)
    return p


def listing(root):
    """All regular files below root with sizes, through find (handles paths beyond PATH_MAX)."""
    r = subprocess.run(['find', '.', '-type', 'f', '-printf', '%p\t%s\n'], cwd=root, capture_output=True)
    out = {}
    for line in r.stdout.decode('latin-1').split('\n'):
        if '\t' in line:
            p, s = line.rsplit('\t', 1)
            out[p] = int(s)
    return out


def mk(path):
    subprocess.run(['mkdir', '-p', path], check=False, capture_output=True)
    return os.path.isdir(path) if len(path) < PATH_MAX else False


MSG = ws.msg(1)


def case_destination(tools, total, how):
    """move to a destination whose path has `total` characters; how = literal | tilde | macro | interp"""
    box = tools.box()
    src = os.path.join(box, 'src')
    for d in ('new', 'cur', 'tmp'):
        os.makedirs(os.path.join(src, d))
    os.makedirs(os.path.join(box, 'tmp'))
    home = os.path.join(box, 'home')
    os.makedirs(home)
    base = home if how == 'tilde' else os.path.join(box, 'dst')
    D = deep(base, total)
    exists = False
    if total + 4 < PATH_MAX:
        exists = mk(D + '/new') and mk(D + '/cur')
    # decoys: every truncation of D + "/new" that is itself a creatable directory ending in a maildir subdirectory name
    if how == 'literal':
        conf = 'maildir "%s" {\n\tmatch all move "%s"\n}\n' % (src, D)
    elif how == 'tilde':
        conf = 'maildir "%s" {\n\tmatch all move "~%s"\n}\n' % (src, D[len(home):])
    elif how == 'macro':
        cut = len(box) + 5
        conf = 'tail = "%s"\nmaildir "%s" {\n\tmatch all move "%s${tail}"\n}\n' % (D[cut:], src, D[:cut])
    else:
        cut = len(D) - 40
        conf = 'maildir "%s" {\n\tmatch header "X-Tail" /^(.*)$/ move "%s\\1"\n}\n' % (src, D[:cut])
    m = MSG if how != 'interp' else MSG.replace(b'\n\n', b'\nX-Tail: ' + D[len(D) - 40:].encode() + b'\n\n', 1)
    with open(os.path.join(src, 'new', '1.host'), 'wb') as fh:
        fh.write(m)
    with open(os.path.join(box, 'conf'), 'w') as fh:
        fh.write(conf)
    before = listing(box)
    env = {'PATH': os.environ.get('PATH', ''), 'HOME': home, 'TMPDIR': os.path.join(box, 'tmp'), 'LD_PRELOAD': tools.shim,
           'VSHIM_LOG': box + '.log', 'LC_ALL': 'C'}
    env.update(proc.PIN)
    r = subprocess.run([tools.mdsort, '-f', os.path.join(box, 'conf')], capture_output=True, env=env, cwd=box)
    after = listing(box)
    trace = proc.parse_trace(open(box + '.log', encoding='latin-1').read()) if os.path.exists(box + '.log') else []
    if os.path.exists(box + '.log'):
        os.unlink(box + '.log')
    probs = []
    fits = total + 4 < PATH_MAX            # D + "/new" must fit PATH_MAX including the terminator
    moved = [p for p in after if p not in before]
    gone = [p for p in before if p not in after]
    rel_dst = './' + os.path.relpath(D, box)
    if not fits:
        if r.returncode == 0:
            probs.append('destination of %d characters does not fit but exit status is 0' % total)
        if moved or gone:
            probs.append('over-long destination: files appeared %s / disappeared %s' % ([m[:60] + '...' for m in moved], gone))
    else:
        for p in moved:
            if not p.startswith(rel_dst + '/'):
                probs.append('message delivered outside the intended destination: %s...%s' % (p[:80], p[-60:]))
        if exists and r.returncode == 0 and not moved:
            probs.append('exit status 0 but the message was not delivered')
    # no call may use a proper prefix of the intended path in place of it
    intended = D.encode()
    for t in trace:
        if t['kind'] != 'call':
            continue
        for key in ('path', 'dir', 'newdir'):
            v = t['args'].get(key)
            if v is None:
                continue
            pv = proc.unescape(v)
            if len(pv) > len(box) + 8 and intended.startswith(pv) and pv != intended and not intended[len(pv):].startswith(b'/') and pv.startswith((base).encode()):
                probs.append('call %s uses %d characters of the %d-character destination' % (t['name'], len(pv), total))
    shutil_rm(box)
    return {'family': 'destination-' + how, 'length': total, 'status': r.returncode, 'problems': probs, 'stderr': r.stderr.decode('latin-1')[-160:]}


def shutil_rm(box):
    subprocess.run(['rm', '-rf', box], check=False)


def case_move_flag(tools, plen, flag):
    """`move "D" flag ...` where a prefix of D of `plen` characters is itself a maildir (decoy): the message
    must land below D whatever the lengths are (the two actions are merged by matches_merge)."""
    box = tools.box()
    for d in ('src/new', 'src/cur', 'tmp', 'home'):
        os.makedirs(os.path.join(box, d))
    P = deep(os.path.join(box, 'lists'), plen)
    D = P + '/announce'
    for base in (P, D):
        mk(base + '/new'); mk(base + '/cur')
    with open(os.path.join(box, 'src/new/1.host'), 'wb') as fh:
        fh.write(MSG)
    with open(os.path.join(box, 'conf'), 'w') as fh:
        fh.write('maildir "%s/src" {\n\tmatch all move "%s" flag %s\n}\n' % (box, D, flag))
    env = {'PATH': os.environ.get('PATH', ''), 'HOME': box + '/home', 'TMPDIR': box + '/tmp', 'LD_PRELOAD': tools.shim, 'LC_ALL': 'C'}
    env.update(proc.PIN)
    before = listing(box)
    r = subprocess.run([tools.mdsort, '-f', os.path.join(box, 'conf')], capture_output=True, env=env, cwd=box)
    after = listing(box)
    probs = []
    rel = './' + os.path.relpath(D, box)
    new = [p for p in after if p not in before]
    for p in new:
        if not p.startswith(rel + '/'):
            probs.append('delivered to a truncation of the destination: ...%s (destination has %d characters)' % (p[-70:], len(D)))
    if r.returncode == 0 and not new:
        probs.append('exit status 0 but not delivered')
    shutil_rm(box)
    return {'family': 'move-then-flag', 'length': len(D), 'status': r.returncode, 'problems': probs, 'stderr': r.stderr.decode('latin-1')[-160:]}


def case_hostname(tools, hostlen):
    box = tools.box()
    for d in ('src/new', 'src/cur', 'dst/new', 'dst/cur', 'tmp', 'home'):
        os.makedirs(os.path.join(box, d))
    with open(os.path.join(box, 'src/new/1.host'), 'wb') as fh:
        fh.write(MSG)
    with open(os.path.join(box, 'conf'), 'w') as fh:
        fh.write('maildir "%s/src" {\n\tmatch all flags "FRST" move "%s/dst"\n}\n' % (box, box))
    host = 'h' * hostlen
    env = {'PATH': os.environ.get('PATH', ''), 'HOME': box + '/home', 'TMPDIR': box + '/tmp', 'LD_PRELOAD': tools.shim, 'LC_ALL': 'C'}
    env.update(proc.PIN)
    env['VSHIM_HOST'] = host
    before = listing(box)
    r = subprocess.run([tools.mdsort, '-f', os.path.join(box, 'conf')], capture_output=True, env=env, cwd=box)
    after = listing(box)
    probs = []
    full = '1790000000.4242_8.%s:2,FRST' % host[:255]
    new = [p for p in after if p not in before]
    for p in new:
        name = os.path.basename(p)
        if name != full:
            probs.append('generated name differs from the intended one (%d vs %d characters): ...%s' % (len(name), len(full), name[-12:]))
    if len(full) > NAME_MAX and r.returncode == 0:
        probs.append('generated name of %d characters does not fit NAME_MAX but exit status is 0' % len(full))
    if len(before) + 0 != len(after):
        probs.append('number of files changed from %d to %d' % (len(before), len(after)))
    shutil_rm(box)
    return {'family': 'hostname', 'length': len(full), 'status': r.returncode, 'problems': probs, 'stderr': r.stderr.decode('latin-1')[-160:]}


def case_tmpdir(tools, total):
    box = tools.box()
    for d in ('dst/new', 'dst/cur', 'home'):
        os.makedirs(os.path.join(box, d))
    T = deep(os.path.join(box, 'tmp'), total)
    ok = mk(T) if total < PATH_MAX else False
    with open(os.path.join(box, 'conf'), 'w') as fh:
        fh.write('stdin {\n\tmatch all move "%s/dst"\n}\n' % box)
    env = {'PATH': os.environ.get('PATH', ''), 'HOME': box + '/home', 'TMPDIR': T, 'LD_PRELOAD': tools.shim, 'LC_ALL': 'C'}
    env.update(proc.PIN)
    before = listing(box)
    r = subprocess.run([tools.mdsort, '-f', os.path.join(box, 'conf'), '-'], input=MSG, capture_output=True, env=env, cwd=box)
    after = listing(box)
    probs = []
    fits = total + 1 + len('mdsort-XXXXXXXX') + 4 < PATH_MAX
    if r.returncode not in (0, 75, 1):
        probs.append('abnormal exit status %r' % r.returncode)
    if not fits and r.returncode == 0:
        probs.append('TMPDIR of %d characters does not fit but exit status is 0' % total)
    new = [p for p in after if p not in before]
    if r.returncode == 0:
        if not any(p.startswith('./dst/') for p in new):
            probs.append('exit status 0 but nothing delivered')
    stray = [p for p in new if not p.startswith('./dst/')]
    if stray:
        probs.append('files left outside the destination: %s' % [s[:50] + '...' for s in stray])
    left = subprocess.run(['find', '.', '-name', 'mdsort-*'], cwd=box, capture_output=True).stdout.decode('latin-1').strip()
    if left:
        probs.append('spool directory left behind (%d characters)' % len(left))
    shutil_rm(box)
    return {'family': 'tmpdir', 'length': total, 'status': r.returncode, 'problems': probs, 'stderr': r.stderr.decode('latin-1')[-160:]}


def run(rep):
    rng = random.Random(rep.seed)
    sc = vlib.Scratch()
    tools = proc.Tools(sc)
    vlib.lean_gate(rep, 'C18', sc, [
        'platform limits PATH_MAX = 4096, NAME_MAX = 255 (the values the model is instantiated with)',
        'the file listing uses find(1) because paths beyond PATH_MAX cannot be named in one system call',
    ])
    jobs = []
    win = range(-8, 9) if rep.tier != 'quick' else range(-8, 9, 1)
    for how in ('literal', 'tilde', 'macro', 'interp'):
        for dlt in win:
            jobs.append(('dest', PATH_MAX - 4 + dlt, how))
    for dlt in win:
        jobs.append(('mf', NAME_MAX + dlt, 'new'))
        jobs.append(('mf', NAME_MAX + dlt, '!new'))
    for dlt in win:
        jobs.append(('host', 255 - len('1790000000.4242_8.') - len(':2,FRST') + dlt, None))
        jobs.append(('tmp', PATH_MAX - 1 - len('mdsort-XXXXXXXX') - 4 + dlt, None))

    def do(j):
        if j[0] == 'dest':
            return case_destination(tools, j[1], j[2])
        if j[0] == 'mf':
            return case_move_flag(tools, j[1], j[2])
        if j[0] == 'host':
            return case_hostname(tools, j[1])
        return case_tmpdir(tools, j[1])
    with cf.ThreadPoolExecutor(vlib.NCPU) as ex:
        results = list(ex.map(do, jobs))
    fam = {}
    for r in results:
        fam[r['family']] = fam.get(r['family'], 0) + 1
        if r['problems']:
            rep.finding('unlisted', {'family': r['family'], 'length': r['length'], 'exit_status': r['status'], 'what': r['problems'][:4], 'stderr': r['stderr']})
    vlib.lean_conclude(rep)
    rep.coverage.update({
        'evaluations': len(results),
        'distinct_nontrivial': len([r for r in results if r['status'] != 0]),
        'rule': 'every length in a window of +-8 around the limit for: destination path literal / after ~ expansion / after macro expansion / '
                'after interpolation (PATH_MAX), generated file name through the host name (NAME_MAX), TMPDIR of the stdin spool (PATH_MAX); real '
                'binary under the shim with deep directory chains; judged: over the limit => non-zero exit and no file appears or disappears; '
                'within => delivered exactly at the intended path; no libc call uses a proper prefix of the intended path; non-trivial = runs '
                'that were rejected',
        'samples': results[:2] + [r for r in results if r['status'] != 0][:2],
        'families': fam,
    })


def replay(rep, path):
    import json
    print(json.dumps(json.load(open(path)), indent=1)[:3000])
    sc = vlib.Scratch()
    vlib.lean_gate(rep, 'C18', sc, [])
    rep.coverage.update({'evaluations': 1, 'distinct_nontrivial': 1})
