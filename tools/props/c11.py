"""C11 - body and attachment conditions operate on the decoded MIME content."""
import random
import vlib
import gen_msg
import msgcommon as mc

SPEC_OPS = {'parts', 'body'}


def run(rep):
    rng = random.Random(rep.seed)
    sc = vlib.Scratch()
    h, env = mc.harness(sc)
    vlib.lean_gate(rep, 'C11', sc, [
        'entity reading (headers of a part) is the model\'s parseHeaders/getHeader1 on both sides of the theorems (their correctness is C08/C10)',
        'modelled, not verified: strndup/strlcpy copies, vector growth (observed under ASan)',
    ])
    n = 5000 if rep.tier == 'quick' else 150000
    msgs = mc.messages(rng, n, mime_share=0.85, mutate_share=0.2)
    reqs = mc.corpus('C11')
    for m in msgs:
        reqs.append(('parts', m))
        reqs.append(('body', m))
    d = vlib.Differential(rep, [h], env=env, spec_ops=SPEC_OPS, name='h_message')
    impl, model, spec = d.run(reqs)
    d.conclude('message.c (parseattachments, message_get_body) <-> Model/Mime.lean')
    vlib.lean_conclude(rep)
    nparts = {}
    for r, i in zip(reqs, impl):
        if r[0] == 'parts':
            k = 'error' if i == 'NONE' else ('%s parts' % ('0' if i == 'P0' else '1-3' if i[:2] in ('P1', 'P2', 'P3') and (len(i) < 3 or i[2] == ' ') else '4+'))
            nparts[k] = nparts.get(k, 0) + 1
    nontriv = set(r for r, i in zip(reqs, impl) if (r[0] == 'parts' and i.startswith('P') and i != 'P0') or (r[0] == 'body' and i.startswith('B') and vlib.hexs(r[1]).find(i[1:]) < 0))
    rep.coverage.update({
        'evaluations': d.evals,
        'distinct_nontrivial': len(nontriv),
        'rule': '%d generated messages (85%% MIME trees: quoted boundary, 0-60 parts per level, depth 0-6, preamble/epilogue, boundary '
                'look-alikes, every encoding, missing/invalid terminator or boundary parameter; 20%% mutated); part list with per-part table, '
                'raw and decoded body, and the message body, each compared with the line-based specification; non-trivial = at least one '
                'part, or a body that was actually decoded; distinct by request' % n,
        'samples': [{'request': d.line(reqs[i])[:300], 'implementation': impl[i][:200], 'specification': (spec[i] or '')[:200]}
                    for i in rng.sample(range(len(reqs)), 4)],
        'parts_histogram': nparts,
        'correspondence_mismatches': len(d.corr_mismatch),
        'spec_failures': len(d.spec_fail),
        'sanitizer_faults': len(d.faults),
    })
    rep.assumptions += ['C locale / C.utf8']


def replay(rep, path):
    mc.generic_replay(rep, path, 'C11', SPEC_OPS, {})
