"""C11 - body and attachment conditions operate on the decoded MIME content."""
import random
import vlib
import gen_msg
import msgcommon as mc

SPEC_OPS = {'parts', 'body'}

# ---- spellings of Content-Type / Content-Transfer-Encoding (RFC 2045 5.1, 6.1) ----
# Type, subtype, parameter names and encoding names are case-insensitive; a parameter value is a token or a quoted-string; the
# boundary parameter may stand anywhere in the parameter list; blanks may surround a `;`.
CASES = [lambda s: s, lambda s: s.upper(), lambda s: s.capitalize(), lambda s: b''.join(bytes([c]).upper() if i % 2 else bytes([c]) for i, c in enumerate(s))]
OTHER_PARAMS = [b'charset=utf-8', b'protocol="application/pgp-signature"', b'type="text/html"', b'micalg=pgp-sha256', b'x="a;b"', b'Report-Type=delivery-status']
CTES = [b'base64', b'quoted-printable', b'7bit', b'8bit', b'binary']


def spelling_message(rng):
    """-> (message, tags): a two-level multipart whose header spellings vary.  tags: 'token' (boundary written as a token),
    'notfirst' (another parameter precedes it): the two forms of finding F30; every other variation must make no difference."""
    cs = lambda s: rng.choice(CASES)(s)
    bnd = rng.choice([b'b1', b'frontier', b'----=_Part_12_345.678', b'a.b_c-d', b'0123456789'])
    tags = set()
    quoted = rng.random() < 0.7
    if not quoted and any(c in b'()<>@,;:\\"/[]?= ' for c in bnd):
        quoted = True               # such a boundary has no token form
    if not quoted:
        tags.add('token')
    before = rng.sample(OTHER_PARAMS, rng.choice([0, 0, 0, 1, 2]))
    after = rng.sample(OTHER_PARAMS, rng.choice([0, 0, 1, 2]))
    if before:
        tags.add('notfirst')
    val = (b'"' + bnd + b'"') if quoted else bnd
    params = before + [cs(b'boundary') + b'=' + val] + after
    sub = rng.choice([b'mixed', b'alternative', b'signed', b'related', b'report'])
    ct = cs(b'multipart') + b'/' + cs(sub)
    for prm in params:
        ct += rng.choice([b'', b' ', b'\t']) + b';' + rng.choice([b'', b' ', b'  ', b'\t']) + prm
    parts = []
    for i in range(rng.choice([1, 2, 2, 3])):
        enc = rng.choice(CTES)
        text = b'part %d caf\xc3\xa9 = done' % i
        if enc == b'base64':
            import base64
            body = base64.b64encode(text) + b'\n'
        elif enc == b'quoted-printable':
            body = text.replace(b'=', b'=3D').replace(b'\xc3', b'=C3').replace(b'\xa9', b'=A9') + b'\n'
        else:
            body = text + b'\n'
        ptype = rng.choice([b'text/plain', b'text/html', b'application/octet-stream'])
        pct = cs(ptype.split(b'/')[0]) + b'/' + cs(ptype.split(b'/')[1]) + rng.choice([b'', b'; charset=utf-8', b';charset="utf-8"'])
        hdrs = [cs(b'Content-Type') + b': ' + pct, cs(b'Content-Transfer-Encoding') + b': ' + cs(enc)]
        rng.shuffle(hdrs)
        parts.append(b'\n'.join(hdrs) + b'\n\n' + body)
    body = b'preamble\n' + b''.join(b'--' + bnd + b'\n' + p for p in parts) + b'--' + bnd + b'--\nepilogue\n'
    m = b'To: a@example.com\nMIME-Version: 1.0\n' + cs(b'Content-Type') + b': ' + ct + b'\nSubject: s\n\n' + body
    return m, tags


def spelling_stage(rep, rng, h, env, n):
    """Judge the implementation by the RFC 2045 reading (`S partsrfc`: Spec.partsRFC, boundary parameter in any position, token
    or quoted-string, names case-insensitive).  A deviation on a message whose only departure from `multipart/x; boundary="b"` is
    the F30 form is the listed finding `boundary-parameter-form`; any other deviation is unlisted."""
    fam = [spelling_message(rng) for _ in range(n)]
    lines = ['parts ' + vlib.hexs(m) for m, _ in fam]
    impl = vlib.run_batch([h], lines, env)
    rfc = vlib.run_batch([vlib.driver_path()], ['S partsrfc ' + vlib.hexs(m) for m, _ in fam])
    ndev = {}
    for (m, tags), line, im, sp in zip(fam, lines, impl, rfc):
        if im.startswith('FAULT'):
            rep.finding('sanitizer-fault', {'stage': 'ctype-spelling', 'request': line, 'implementation': im})
            continue
        if im == sp:
            continue
        cls = 'boundary-parameter-form' if (tags & {'token', 'notfirst'}) and im == 'P0' else 'unlisted'
        ndev[cls] = ndev.get(cls, 0) + 1
        if cls in rep.known and cls in rep.known_hits:
            rep.known_hits[cls][0] += 1          # one example of a listed class is enough
            continue
        if ndev[cls] <= 5:
            rep.finding(cls, {'stage': 'ctype-spelling', 'request': line, 'request_readable': [repr(m)], 'form': sorted(tags),
                              'implementation': im, 'rfc_2045_reading': sp,
                              'what': 'the parts message_get_attachments delivers differ from the parts of the MIME tree read per RFC 2045 '
                                      '(boundary parameter: any position, token or quoted-string, names case-insensitive)',
                              'replay_cmd': 'python3 tools/check.py C11 --replay <this file>'})
    return fam, {'messages': n, 'f30_forms': sum(1 for _, t in fam if t), 'deviations': ndev,
                 'agreeing_f30_free': sum(1 for (_, t), i, s in zip(fam, impl, rfc) if not t and i == s and i.startswith('P') and i != 'P0')}


def run(rep):
    rng = random.Random(rep.seed)
    sc = vlib.Scratch()
    h, env = mc.harness(sc)
    vlib.lean_gate(rep, 'C11', sc, [
        'entity reading (headers of a part) is the model\'s parseHeaders/getHeader1 on both sides of the theorems (their correctness is C08/C10)',
        'modelled, not verified: strndup/strlcpy copies, vector growth (observed under ASan)',
    ])
    n = 5000 if rep.tier == 'quick' else 150000
    msgs = mc.messages(rng, n, mime_share=0.85, mutate_share=0.2)
    reqs = mc.corpus('C11')
    fam, spell_cov = spelling_stage(rep, rng, h, env, 1500 if rep.tier == 'quick' else 40000)
    msgs += [m for m, _ in fam]
    for m in msgs:
        reqs.append(('parts', m))
        reqs.append(('body', m))
    d = vlib.Differential(rep, [h], env=env, spec_ops=SPEC_OPS, name='h_message')
    impl, model, spec = d.run(reqs)
    # 8-bit bytes inside base64 / quoted-printable / identity bodies and parts (tools/c11bytes.py): every value 0x80-0xff at every place
    # of the encoding; undecodable base64 is an error by the specification, elsewhere the byte is data; implementation != specification
    # is a failing input
    import c11bytes
    breqs, bmeta = c11bytes.requests(rep.tier)
    d8 = vlib.Differential(rep, [h], env=env, spec_ops=SPEC_OPS, name='h_message (8-bit family, tools/c11bytes.py)')
    bimpl, bmodel, bspec = d8.run(breqs, max_report=3)
    bytes_unit_cov = c11bytes.check_family(rep, breqs, bmeta, bimpl, bspec)
    bytes_unit_cov.update({'correspondence_mismatches': len(d8.corr_mismatch), 'spec_failures': len(d8.spec_fail), 'sanitizer_faults': len(d8.faults)})
    d.conclude('message.c (parseattachments, message_get_body) <-> Model/Mime.lean')
    d8.conclude('message.c (message_get_body, message_get_attachments), decode.c <-> Model/Mime.lean, Model/Decode.lean over 8-bit bytes in encoded content')
    # attachment conditions and attachment blocks through the real evaluator: "some part" / "every part", errors never match
    import base64 as b64m
    import evalcommon as ec
    h2, env2 = ec.harness(sc)
    ecases, expect = [], []
    for _ in range(400 if rep.tier == 'quick' else 20000):
        nparts = rng.randrange(1, 5)
        parts, truth = [], []
        for i in range(nparts):
            k = rng.random()
            if k < 0.25:
                parts.append(b'Content-Type: application/octet-stream\nContent-Transfer-Encoding: base64\n\n%%%not-base64%%%\n'); truth.append('err')
            elif k < 0.6:
                body = b'needle %d' % i
                if rng.random() < 0.5:
                    parts.append(b'Content-Type: text/plain\nContent-Transfer-Encoding: base64\n\n' + b64m.b64encode(body) + b'\n')
                else:
                    parts.append(b'Content-Type: text/plain\n\n' + body + b'\n')
                truth.append('yes')
            else:
                parts.append(b'Content-Type: text/html\n\nnothing here\n'); truth.append('no')
        msg = b'To: a\nContent-Type: multipart/mixed; boundary="b"\n\n' + b''.join(b'--b\n' + p for p in parts) + b'--b--\n'
        if rng.random() < 0.5:
            conf = 'maildir "~/md" {\n\tmatch attachment body /needle/ move "~/dst/a"\n}\n'
            # some part: parts in order, the first match or error decides
            want = 'NOMATCH'
            for t in truth:
                if t == 'err':
                    want = 'ERROR'; break
                if t == 'yes':
                    want = 'MATCH'; break
        else:
            conf = 'maildir "~/md" {\n\tmatch all attachment { match body /needle/ exec "true" } move "~/dst/a"\n}\n'
            # every part is visited; an error anywhere is an error; match iff some part matched
            want = 'ERROR' if 'err' in truth else ('MATCH' if 'yes' in truth else 'NOMATCH')
        ecases.append(ec.Case(conf, [('needle', '')], msg))
        expect.append((want, truth))
    ec.run_cases(h2, env2, ecases, want_spec=False)
    ebad = []
    for c, (want, truth) in zip(ecases, expect):
        if c.note == 'fault':
            rep.finding('sanitizer-fault', dict(c.readable(), implementation=c.impl))
            continue
        got = (c.impl or '').split(' ')[0]
        if got != want:
            rep.finding('unlisted', dict(c.readable(), parts=truth, implementation=got, specification=want,
                                         what='attachment condition/block: an undecodable part must be an error and never count as a match; '
                                              'a condition holds iff some part matches, a block visits every part'))
        elif c.model is not None and ec.impl_core(c) != ec.model_core(c):
            ebad.append(c)
    # what `exec stdin body` hands to the command IS the decoded body, also when the transfer into the temporary file is disturbed
    # (short counts, EINTR, ENOSPC, file size limit): real binary under the shim, tools/execbody.py (shared with C13)
    import proc
    import execbody
    ptools = proc.Tools(sc)
    # the same 8-bit family on the real binary: one undecodable message among healthy ones under the rule shapes of the property
    bytes_proc_cov = c11bytes.stage(rep, ptools)
    fault_cov = execbody.stage(rep, ptools, whole_part=False)
    # ... and the decoded body of the CURRENT message when rewriting / renaming / copying actions stand before, between and after the commands
    # of an action list: tools/execseq.py (shared with C13)
    import world
    import execseq
    seq_cov = execseq.stage(rep, ptools, world.WorldCheck(sc, ptools), focus='body')
    if ebad and not rep.violations:
        rep.violation({'obligation': 'correspondence expr_eval_attachment(_block) <-> Model/Eval.lean', 'disagreements': len(ebad),
                       'examples': [dict(c.readable(), implementation=ec.impl_core(c), model=c.model) for c in ebad[:4]]}, False)
    vlib.lean_conclude(rep)
    nparts = {}
    for r, i in zip(reqs, impl):
        if r[0] == 'parts':
            k = 'error' if i == 'NONE' else ('%s parts' % ('0' if i == 'P0' else '1-3' if i[:2] in ('P1', 'P2', 'P3') and (len(i) < 3 or i[2] == ' ') else '4+'))
            nparts[k] = nparts.get(k, 0) + 1
    nontriv = set(r for r, i in zip(reqs, impl) if (r[0] == 'parts' and i.startswith('P') and i != 'P0') or (r[0] == 'body' and i.startswith('B') and vlib.hexs(r[1]).find(i[1:]) < 0))
    rep.coverage.update({
        'evaluations': d.evals + d8.evals,
        'distinct_nontrivial': len(nontriv),
        'rule': '%d generated messages (85%% MIME trees: quoted boundary, 0-60 parts per level, depth 0-6, preamble/epilogue, boundary '
                'look-alikes, every encoding, missing/invalid terminator or boundary parameter; 12%% of the trees with a boundary out of an '
                'RFC 2047 encoded word - newline, CR, control bytes, "--" - over bodies of delimiter look-alikes, outside the specification\'s '
                'domain (NOTWF) and compared implementation <-> model only; 20%% mutated); part list with per-part table, '
                'raw and decoded body, and the message body, each compared with the line-based specification; non-trivial = at least one '
                'part, or a body that was actually decoded; distinct by request' % n,
        'samples': [{'request': d.line(reqs[i])[:300], 'implementation': impl[i][:200], 'specification': (spec[i] or '')[:200]}
                    for i in rng.sample(range(len(reqs)), 4)],
        'parts_histogram': nparts,
        'correspondence_mismatches': len(d.corr_mismatch),
        'spec_failures': len(d.spec_fail),
        'sanitizer_faults': len(d.faults),
        'content_type_spellings_judged_by_rfc2045': spell_cov,
        'eightbit_bytes_in_encoded_content_unit': bytes_unit_cov,
        'eightbit_bytes_in_encoded_content_real_binary': bytes_proc_cov,
        'exec_stdin_body_under_write_faults': fault_cov,
        'exec_stdin_body_across_action_sequences': seq_cov,
    })
    rep.assumptions += ['C locale / C.utf8']


def replay(rep, path):
    import json
    j = json.load(open(path))
    if j.get('stage') == 'c11bytes':
        import proc
        import c11bytes
        sc = vlib.Scratch()
        vlib.lean_gate(rep, 'C11', sc, [])
        c11bytes.replay(proc.Tools(sc), j)
        rep.coverage.update({'evaluations': 1, 'distinct_nontrivial': 1})
        return
    if j.get('stage') in ('execbody', 'execseq'):
        import proc
        import execbody
        import execseq
        sc = vlib.Scratch()
        vlib.lean_gate(rep, 'C11', sc, [])
        (execbody if j['stage'] == 'execbody' else execseq).replay(proc.Tools(sc), j)
        rep.coverage.update({'evaluations': 1, 'distinct_nontrivial': 1})
        return
    if j.get('stage') == 'ctype-spelling':
        print('rfc 2045 reading %s' % vlib.run_batch([vlib.driver_path()], ['S partsrfc ' + j['request'].split(' ')[1]])[0])
    mc.generic_replay(rep, path, 'C11', SPEC_OPS, {})
