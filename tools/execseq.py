"""What a command started by `exec stdin` / `exec stdin body` reads, across ACTION SEQUENCES (process-level stage of C11 and C13).

C13: "... unless stdin is requested, in which case it reads the complete current message (or the decoded body, or the attachment)
from offset 0"; C11: "body conditions and `exec stdin body` use the body decoded according to its Content-Transfer-Encoding ...".
The word that matters here is CURRENT: an action list may rewrite the message (label, add-header), rename it (flag, flags, move) or
copy it to another device (move) before, between and after the commands it starts.

Family: action lists of length 1..4 over
    label, a second label, add-header (two names), flag (other subdirectory), flags, move (same device), move (other device: the shim's
    EXDEV map), exec (no stdin), exec stdin, exec stdin body, attachment { exec stdin }, attachment { exec stdin body },
    attachment { <header condition> exec stdin body }
with at least one command that reads standard input; every position of such a command relative to one and two rewriting actions is
always generated (before, between, after), the rest is sampled; each list as one rule and as two rules chained by `pass`; the message
starts in new/ or cur/.  Messages: 7bit / base64 / quoted-printable body, multipart/alternative (text/html before text/plain, encoded
text/plain), multipart/mixed with encoded attachments, an existing X-Label, folded headers, irregular blanks after the colon, and
bodies and header blocks whose sizes straddle 4096, 8192 and 65536 bytes (stdio, pipe and read buffers).

Oracle - written from the property text and from mdsort.conf(5), NOT from the model:
  * every command of the list runs exactly once (attachment commands: once per selected part), in the order of the list, with its
    own argument, exit status 0, no diagnostic, descriptors 0-2 only; without `stdin` its input is /dev/null;
  * `exec stdin`: the bytes read are the complete current message from its first byte: the original if nothing before the command
    rewrites it, otherwise a rewrite that `Spec.rewriteOk` (property C08, driver `S hsetcheck`) accepts for exactly the header
    settings of the label / add-header actions BEFORE the command - all original fields, byte-identical body, each set header once
    with its value.  Where the expectation is determined byte for byte (regular `Name: value` lines) it is also compared exactly:
    the original header block with X-Label replaced in place and the new header lines after it;
  * `exec stdin body`: exactly `Spec.decodedBody` (driver `S body`) of the current message;
  * inside an attachment block: the part, re-serialised (`stdin`), or its decoded body (`stdin body`, driver `S parts`);
  * afterwards the message exists exactly once and is the complete rewrite by ALL label / add-header actions.

Known finding F23 (listed for C03: matches_interpolate sets the headers of ALL label / add-header actions in memory before the first
action runs, so the first write already carries the headers of later actions).  KNOWN_FINDINGS.txt lists its class for C03 only, so
it is not reported from here; the oracle TOLERATES exactly that class and nothing else: after an action that writes the message, what
`exec stdin` reads may be the documented content plus the headers of ALL later label / add-header actions of the same list (again
judged by Spec.rewriteOk for precisely those settings); the number of such runs is reported in the coverage.

Every run is also conformed call by call against `Model.mainP` (tools/world.py).
"""
import base64
import concurrent.futures as cf
import itertools
import quopri
import random
import re
import vlib
import proc
import world
import worldscen as ws

R = '@R@'
H = '"@HELPER@"'
XL = b'X-Label'

# key -> (kind, configuration text with %(t)s = the command's own argument, header setting or None)
ACTS = {
    'label': ('rewrite', 'label "sq1"', (XL, b'sq1')),
    'label2': ('rewrite', 'label "sq2"', (XL, b'sq2')),
    'hdrA': ('rewrite', 'add-header "X-Seq-A" "va"', (b'X-Seq-A', b'va')),
    'hdrB': ('rewrite', 'add-header "X-Seq-B" "v b"', (b'X-Seq-B', b'v b')),
    'flag': ('rename', None, None),                       # flag !new / flag new, depending on where the message starts
    'flags': ('rename', 'flags "F"', None),
    'move': ('rename', 'move "%s/dstA"' % R, None),
    'movex': ('copy', 'move "%s/dstX"' % R, None),        # dstX is on another device: EXDEV, the message is copied
    'exec': ('cmd', 'exec { %s "%%(t)s" }' % H, None),
    'stdin': ('cmd', 'exec stdin { %s "%%(t)s" }' % H, None),
    'body': ('cmd', 'exec stdin body { %s "%%(t)s" }' % H, None),
    'att': ('cmd', 'attachment { match all exec stdin { %s "%%(t)s" } }' % H, None),
    'attbody': ('cmd', 'attachment { match all exec stdin body { %s "%%(t)s" } }' % H, None),
    'attsel': ('cmd', 'attachment { match header "Content-Type" /pdf|html/ exec stdin body { %s "%%(t)s" } }' % H, None),
}
STDIN_CMDS = ('stdin', 'body', 'att', 'attbody', 'attsel')
BODY_CMDS = ('body', 'attbody', 'attsel')
ATT_CMDS = ('att', 'attbody', 'attsel')
REWRITES = ('label', 'label2', 'hdrA', 'hdrB')
SUBJECT = {'new': '1.host', 'cur': '1.host:2,R'}


# ---- messages ------------------------------------------------------------------------------------------------------------------

def pad_header(n):
    """A folded header of exactly n bytes (n >= 40), continuation lines starting with a TAB."""
    out = b'References: <0000.pad@example.com>'
    i = 1
    while len(out) + 1 < n:
        piece = b'\n\t<%04d.%s@example.com>' % (i, b'x' * 30)
        if len(out) + len(piece) + 1 > n:
            piece = b'\n\t' + b'y' * (n - len(out) - 3)
            if len(piece) < 3:
                break
        out += piece
        i += 1
    out += b'\n'
    if len(out) < n:
        out = out[:-1] + b'z' * (n - len(out)) + b'\n'
    return out


def head(extra=b''):
    return b'To: user1@example.com\nX-Id: 1\nSubject: sequence subject\n' + extra


class Msg:
    def __init__(self, name, data, parts=None, regular=True):
        """parts: the raw parts in order (None: not multipart); regular: every header line is `Name: value` with one blank, so that a
        rewrite is determined byte for byte."""
        self.name, self.data, self.parts, self.regular = name, data, parts, regular


def multipart(name, ctype, parts, extra=b'', pre=b'', post=b''):
    m = head(b'Content-Type: %s; boundary="sq"\n' % ctype + extra) + b'\n' + pre
    for p in parts:
        m += b'--sq\n' + p
    return Msg(name, m + b'--sq--\n' + post, parts=list(parts))


def messages(tier):
    t7 = ws.text_body(600, b'seven')
    M = [Msg('plain', head() + b'\n' + t7),
         Msg('base64', head(b'Content-Transfer-Encoding: base64\n') + b'\n' + base64.encodebytes(ws.text_body(900, b'b64'))),
         Msg('qp', head(b'Content-Transfer-Encoding: quoted-printable\n') + b'\n' +
             quopri.encodestring(b'caf\xe9 cr\xe8me = 1+1=2; ' + b'long line ' * 12 + b'\nsecond line\t\nlast\n')),
         Msg('xlabel', head(b'X-Label: old\nX-Other: kept\n') + b'\n' + t7),
         Msg('xlabel-twice', head(b'X-Label: old\nX-Other: kept\nX-Label: older\n') + b'\n' + t7),
         Msg('folded', b'Received: by a.example.com;\n\tMon, 21 Sep 2026 10:00:00 +0000\n' + head(b'X-Folded: one\n two\n\tthree\n') + b'\n' + t7),
         Msg('irregular', b'To:user1@example.com\nX-Id: 1\nSubject:    blanks after the colon\nX-Tab:\tt\n\n' + t7, regular=False)]
    plain_part = b'Content-Type: text/plain\nX-Part: text\n\nthe text/plain alternative\nsecond line\n'
    plain_b64 = b'Content-Type: text/plain\nContent-Transfer-Encoding: base64\nX-Part: text\n\n' + base64.encodebytes(b'the encoded text/plain alternative\n' * 3)
    html_part = b'Content-Type: text/html\nX-Part: html\n\n<p>the text/html alternative</p>\n'
    pdf_part = b'Content-Type: application/pdf\nContent-Transfer-Encoding: base64\nX-Part: pdf\n\n' + base64.encodebytes(ws.text_body(700, b'pdf'))
    qp_part = b'Content-Type: text/x-notes\nContent-Transfer-Encoding: quoted-printable\nX-Part: notes\n\n' + quopri.encodestring(b'na\xefve notes = 100%\n' * 4)
    M += [multipart('alternative', b'multipart/alternative', [html_part, plain_part]),
          multipart('alternative-b64', b'multipart/alternative', [html_part, plain_b64], extra=b'X-Label: old\n'),
          multipart('mixed', b'multipart/mixed', [plain_part, pdf_part, qp_part], pre=b'preamble line\n', post=b'epilogue line\n')]
    bsizes = [4096, 8192, 65536] if tier == 'quick' else [4095, 4096, 4097, 8191, 8192, 8193, 65535, 65536, 65537, 131072]
    for n in bsizes:
        M.append(Msg('body-%d' % n, head() + b'\n' + ws.text_body(n, b'big')))
    hsizes = [4096, 8192] if tier == 'quick' else [4095, 4096, 4097, 8191, 8192, 8193, 65535, 65536, 65537]
    for n in hsizes:
        # the header block INCLUDING its empty line is n bytes long
        base = head()
        M.append(Msg('hdr-%d' % n, base + pad_header(n - len(base) - 1) + b'\n' + t7))
    M.append(Msg('hdr-65536-b64', head(b'Content-Transfer-Encoding: base64\n') + pad_header(65536 - len(head()) - 34 - 1) + b'\n' +
                 base64.encodebytes(ws.text_body(5000, b'b64'))))
    return M


# ---- sequences -----------------------------------------------------------------------------------------------------------------

def witnesses(cmds):
    """Every position of a stdin command relative to one and two rewriting / copying actions."""
    W = []
    for c in cmds:
        W.append((c,))
        for r in ('label', 'hdrA', 'movex', 'flag', 'move'):
            W += [(r, c), (c, r)]
        for r1, r2 in (('label', 'hdrA'), ('hdrA', 'label'), ('label', 'label2'), ('hdrA', 'hdrB'), ('movex', 'label'), ('label', 'movex'),
                       ('flag', 'hdrA'), ('label', 'move')):
            W += [(c, r1, r2), (r1, c, r2), (r1, r2, c), (c, r1, c, r2), (r1, c, r2, c)]
    return W


def sequences(tier, rng, focus):
    """-> (systematic lists, sampled lists)"""
    cmds = BODY_CMDS if focus == 'body' else STDIN_CMDS
    keys = list(ACTS)
    syst = list(dict.fromkeys(witnesses(cmds)))
    pairs = [p for p in itertools.product(keys, repeat=2) if any(a in cmds for a in p)]
    syst += [p for p in (pairs if tier != 'quick' or focus != 'body' else rng.sample(pairs, 30)) if p not in syst]

    def sample(n, k):
        out = []
        while len(out) < k:
            s = tuple(rng.choice(keys) for _ in range(n))
            if any(a in cmds for a in s):
                out.append(s)
        return out
    if tier == 'quick':
        rnd = sample(3, 120 if focus != 'body' else 50) + sample(4, 100 if focus != 'body' else 40)
    else:
        rnd = sample(3, 1500) + sample(4, 2500)
    return syst, rnd


class Job:
    def __init__(self, seq, split, sub, msg):
        self.seq, self.split, self.sub, self.msg = tuple(seq), split, sub, msg

    def act_text(self, i):
        a = self.seq[i]
        if a == 'flag':
            return 'flag !new' if self.sub == 'new' else 'flag new'
        return ACTS[a][1] % {'t': 'c%d' % i} if ACTS[a][0] == 'cmd' else ACTS[a][1]

    def config(self):
        # a message that a `flag` takes to the other subdirectory is met again when that one is walked (known finding F21): every rule
        # is restricted to the subdirectory the message starts in, as the process stages of C03 and C09 do
        cond = 'new' if self.sub == 'new' else '! new'
        acts = [self.act_text(i) for i in range(len(self.seq))]
        if self.split is None:
            lines = ['\tmatch %s %s' % (cond, ' '.join(acts))]
        else:
            lines = ['\tmatch %s %s pass' % (cond, ' '.join(acts[:self.split])), '\tmatch %s %s' % (cond, ' '.join(acts[self.split:]))]
        return 'maildir "%s/src" {\n%s\n}\n' % (R, '\n'.join(lines))

    def pats(self):
        return [('pdf|html', '') for a in self.seq if a == 'attsel']

    def spec(self):
        tree = {}
        for d in ('src', 'dstA', 'dstX'):
            tree.update(proc.maildir_tree(d, {}))
        tree['src/%s/%s' % (self.sub, SUBJECT[self.sub])] = self.msg.data
        return ws.Spec('execseq', self.config(), self.pats(), tree=tree, devmap=('%s/dstX' % R,))

    def describe(self):
        return {'stage': 'execseq', 'actions': list(self.seq), 'pass_after': self.split, 'source_subdir': self.sub, 'message_kind': self.msg.name,
                'message_bytes': len(self.msg.data), 'message_head': self.msg.data[:400].decode('latin-1'), 'config': self.config()}


def jobs(tier, rng, focus):
    M = messages(tier)
    multi = [m for m in M if m.parts is not None]
    syst, rnd = sequences(tier, rng, focus)
    out = []
    for k, s in enumerate(syst + rnd):
        pool = multi if any(a in ATT_CMDS for a in s) else M
        # the systematic lists meet the message kinds in turn, the sampled ones a random kind
        m = pool[k % len(pool)] if k < len(syst) else rng.choice(pool)
        split = None if len(s) < 2 or rng.random() < 0.5 else rng.randrange(1, len(s))
        out.append(Job(s, split, rng.choice(['new', 'new', 'cur']), m))
    # every message kind with a rewrite before a command, between two rewrites, and around a copy to another device, in both rule shapes
    fixed = ((('label', 'body'), None), (('hdrA', 'stdin', 'label'), None), (('label', 'stdin', 'hdrA', 'stdin'), 2), (('hdrA', 'body', 'movex', 'body'), 1),
             (('label', 'attbody', 'hdrA', 'att'), None))
    for m in M:
        for s, sp in fixed:
            if (focus == 'body' and not any(a in BODY_CMDS for a in s)) or (m.parts is None and any(a in ATT_CMDS for a in s)):
                continue
            out.append(Job(s, sp, 'new', m))
    return out


# ---- expectation ---------------------------------------------------------------------------------------------------------------

def label_value(old, added):
    return (old + b' ' + added) if old is not None else added


def settings_upto(msg, seq, n):
    """Cumulative header settings [(key, value)] of the label / add-header actions among seq[:n], in the order they are first set."""
    # "Add label to the X-Label header": the labels the message already has (all X-Label fields, in file order) stay, the new one follows
    olds = re.findall(rb'^X-Label: (.*)$', msg.data.split(b'\n\n', 1)[0], re.M)
    label = b' '.join(olds) if olds else None
    kv = {}
    for a in seq[:n]:
        st = ACTS[a][2]
        if st is None:
            continue
        if st[0] == XL:
            label = label_value(label, st[1])
            kv[XL] = label
        else:
            kv[st[0]] = st[1]
    return list(kv.items())


def exact_rewrites(msg, kvs):
    """The rewrites of a regular message that are determined byte for byte: X-Label replaced where it first stood (later occurrences
    dropped), the new headers after the original header block, in any order."""
    if not kvs:
        return [msg.data]
    hb, body = msg.data.split(b'\n\n', 1)
    lines = re.split(rb'\n(?![ \t])', hb)
    out, new, seen = [], [], False
    kd = dict(kvs)
    for l in lines:
        if l.lower().startswith(b'x-label:') and XL in kd:
            if not seen:
                out.append(b'X-Label: ' + kd[XL])
                seen = True
            continue
        out.append(l)
    for k, v in kvs:
        if k == XL and seen:
            continue
        new.append(k + b': ' + v)
    return [b'\n'.join(out + list(p)) + b'\n\n' + body for p in set(itertools.permutations(new))]


class Oracle:
    """Answers of the specification side of the Lean driver, batched."""

    def __init__(self):
        self.q = {}

    def ask(self, line):
        self.q.setdefault(line, None)
        return line

    def flush(self):
        todo = [l for l, a in self.q.items() if a is None]
        for l, a in zip(todo, vlib.run_batch([vlib.driver_path()], todo)):
            self.q[l] = a

    def get(self, line):
        return self.q[line]


def q_rewrite(out, orig, kvs):
    args = [out, orig, XL]
    for k, v in kvs:
        args += [k, v]
    return 'S hsetcheck ' + ' '.join(vlib.hexs(a) for a in args)


def unbody(tok):
    return vlib.unhex(tok[1:] or '-') if tok.startswith('B') else None


def parse_helper(line):
    d = {}
    for tok in line.split(' '):
        if '=' in tok:
            k, v = tok.split('=', 1)
            d[k] = v
    argv = [] if d.get('argv', '') in ('', 'none') else [b'' if a == '-' else bytes.fromhex(a) for a in d.get('argv', '').split(',')]
    stdin = b'' if d.get('stdin', '-') == '-' else bytes.fromhex(d['stdin'])
    fds = [int(x) for x in d.get('fds', '').split(',') if x]
    return argv, stdin, fds, d.get('stdin_target', '')


def first_diff(a, b):
    n = 0
    while n < min(len(a), len(b)) and a[n] == b[n]:
        n += 1
    return n


def show(b):
    return repr(b[:160]) + ('... (%d bytes)' % len(b) if len(b) > 160 else '')


class Run:
    """One executed job: what the helper recorded, the final tree; `judge` is called twice (collect the questions, then answer)."""

    def __init__(self, job, scen, r):
        self.job, self.status, self.err = job, r.status, r.err[-300:].decode('latin-1').replace(scen.root, R)
        self.recs = [parse_helper(l) for l in r.helper]
        self.files = sorted((rel, data) for rel, data in ws.maildir_files(r.final).items())
        self.f23 = 0

    def expected_cmds(self):
        """[(index in the list, key, part index or None)] in the order the commands have to run."""
        job, out = self.job, []
        for i, a in enumerate(job.seq):
            if ACTS[a][0] != 'cmd':
                continue
            if a in ATT_CMDS:
                for pi, p in enumerate(job.msg.parts):
                    if a != 'attsel' or re.search(rb'^Content-Type: .*(pdf|html)', p.split(b'\n\n', 1)[0], re.M):
                        out.append((i, a, pi))
            else:
                out.append((i, a, None))
        return out

    def judge(self, O):
        job, msg, seq = self.job, self.job.msg, self.job.seq
        probs = []
        if self.status != 0:
            probs.append('exit status %r although every action of the list is possible: %s' % (self.status, self.err))
        elif self.err.strip():
            probs.append('exit status 0 with a diagnostic: %s' % self.err)
        want = self.expected_cmds()
        got_tags = [(a[0] if a else b'?') for a, _, _, _ in self.recs]
        want_tags = [b'c%d' % i for i, _, _ in want]
        if got_tags != want_tags:
            probs.append('the commands ran as %r, the list says %r' % (got_tags, want_tags))
            return probs
        later_all = settings_upto(msg, seq, len(seq))
        for (i, a, pi), (argv, stdin, fds, target) in zip(want, self.recs):
            what = '%s (action %d of %s)' % (a, i + 1, ' '.join(seq))
            if argv != [b'c%d' % i]:
                probs.append('%s: argument vector %r' % (what, argv))
            if sorted(fds) != [0, 1, 2]:
                probs.append('%s: inherited descriptors %s' % (what, fds))
            pre = settings_upto(msg, seq, i)
            if a == 'exec':
                if stdin != b'' or target != '/dev/null':
                    probs.append('%s: standard input is %s (%d bytes read), not /dev/null' % (what, target, len(stdin)))
                continue
            if target == '/dev/null':
                probs.append('%s: standard input is /dev/null although stdin was requested' % what)
            if a == 'stdin':
                # the complete current message: the settings of the actions before the command, nothing else; tolerated (F23, listed
                # for C03): after an action that writes the message, additionally the headers of ALL later label / add-header actions
                written = any(ACTS[b][0] in ('rewrite', 'copy') for b in seq[:i])
                alts = [pre] + ([later_all] if written and later_all != pre else [])
                answers = ['OK' if (not kvs and stdin == msg.data) else O.get(O.ask(q_rewrite(stdin, msg.data, kvs))) for kvs in alts]
                if any(x is None for x in answers):
                    continue            # first pass: the questions have been collected
                ok = [k for k, (kvs, x) in enumerate(zip(alts, answers))
                      if x == 'OK' and (not msg.regular or stdin in exact_rewrites(msg, kvs))]
                if not ok:
                    exp = exact_rewrites(msg, pre)[0] if msg.regular else msg.data
                    n = first_diff(stdin, exp)
                    probs.append('%s: the command did not read the complete current message = the original with the settings %r of the actions '
                                 'before it (Spec.rewriteOk says %s%s): it read %d bytes, first difference from the expected content at offset %d: '
                                 'read %s, expected %s' % (what, pre, answers[0], '' if len(alts) == 1 else '; with the headers of all later actions, '
                                 'tolerated as known finding F23: %s' % answers[1], len(stdin), n, show(stdin[max(0, n - 30):]), show(exp[max(0, n - 30):])))
                elif ok[0] == 1:
                    self.f23 += 1
                continue
            # decoded body of the current message / of the part, the part itself
            cur = exact_rewrites(msg, pre)[0] if msg.regular else msg.data
            if a == 'body':
                ans = O.get(O.ask('S body ' + vlib.hexs(cur)))
                exp = unbody(ans) if ans is not None else None
                name = 'the decoded body of the current message (Spec.decodedBody)'
            else:
                ans = O.get(O.ask('S parts ' + vlib.hexs(cur)))
                exp, name = None, 'part %d' % (pi + 1)
                if ans is not None:
                    toks = ans.split(' ')[1:] if ans.startswith('P') else []
                    if len(toks) != len(msg.parts):
                        probs.append('%s: the specification finds %d parts, the message was built from %d (%s)' % (what, len(toks), len(msg.parts), ans[:40]))
                        continue
                    if a == 'att':
                        exp, name = msg.parts[pi], 'part %d of the message, as it stands between its delimiter lines' % (pi + 1)
                    else:
                        exp, name = unbody(toks[pi].split('|')[-1]), 'the decoded body of part %d (Spec.decodedBody)' % (pi + 1)
            if ans is None:
                continue
            if exp is None:
                probs.append('%s: the specification gives no expectation (%s)' % (what, ans[:60]))
            elif stdin != exp:
                probs.append('%s: the command read %d bytes, %s has %d bytes; first difference at offset %d: read %s, expected %s'
                             % (what, len(stdin), name, len(exp), first_diff(stdin, exp), show(stdin[max(0, first_diff(stdin, exp) - 20):]),
                                show(exp[max(0, first_diff(stdin, exp) - 20):])))
        # afterwards: the message exists exactly once, completely rewritten by all label / add-header actions
        mine = [(rel, d) for rel, d in self.files if ws.msg_id(d) == 1]
        if len(mine) != 1 or len(self.files) != 1:
            probs.append('after the run the maildirs hold %s' % [(rel, len(d)) for rel, d in self.files])
        else:
            rel, data = mine[0]
            if not later_all and not any(ACTS[b][0] == 'copy' for b in seq):
                if data != msg.data:
                    probs.append('no action rewrites the message, but %s differs from the original at offset %d' % (rel, first_diff(data, msg.data)))
            elif not (not later_all and data == msg.data):
                ans = O.get(O.ask(q_rewrite(data, msg.data, later_all)))
                if ans is not None and (ans != 'OK' or (msg.regular and data not in exact_rewrites(msg, later_all))):
                    probs.append('%s is not the complete rewrite of the message by the settings %r (Spec.rewriteOk: %s): %s' % (rel, later_all, ans, show(data)))
        return probs


# ---- the stage -----------------------------------------------------------------------------------------------------------------

def execute(tools, W, job):
    spec = job.spec()
    scen = spec.build(tools)
    try:
        r = scen.run()
        run = Run(job, scen, r)
        req, tr, notes = W.request(scen, spec.pats, r)
        run.scen_root, run.req = scen.root, req
        # what world.compare needs after the sandbox is gone
        run.cmp = (scen, r)
        return run
    finally:
        scen.cleanup()


def stage(rep, tools, W, focus='all'):
    """focus='all' (C13): every command kind; focus='body' (C11): lists with at least one `stdin body` command."""
    rng = random.Random(rep.seed * 7919 + (1 if focus == 'body' else 2))
    js = jobs(rep.tier, rng, focus)
    with cf.ThreadPoolExecutor(vlib.NCPU) as ex:
        runs = list(ex.map(lambda j: execute(tools, W, j), js))
    O = Oracle()
    for x in runs:
        x.judge(O)          # first pass: collects the questions to the specification
    O.flush()
    for _ in range(3):      # answers may raise follow-up questions (alternatives are asked lazily)
        for x in runs:
            x.f23 = 0
            x.probs = x.judge(O)
        if all(a is not None for a in O.q.values()):
            break
        O.flush()
    verdicts = W.verdict([x.req for x in runs])
    stats = {'runs': len(runs), 'failing': 0, 'nonconforming': 0, 'runs_showing_F23_tolerated': 0, 'commands_judged': 0, 'by_length': {}, 'by_message': {},
             'with_pass': sum(1 for x in runs if x.job.split is not None), 'specification_queries': len(O.q)}
    corr, nrep = [], 0
    for x, v in zip(runs, verdicts):
        stats['by_length'][len(x.job.seq)] = stats['by_length'].get(len(x.job.seq), 0) + 1
        stats['by_message'][x.job.msg.name] = stats['by_message'].get(x.job.msg.name, 0) + 1
        stats['commands_judged'] += len(x.recs)
        if x.f23:
            stats['runs_showing_F23_tolerated'] += 1
        if x.probs:
            stats['failing'] += 1
            if nrep < 6:
                nrep += 1
                rep.finding('unlisted', dict(x.job.describe(), what=x.probs[:6], replay_cmd='python3 tools/check.py %s --replay <this file>' % rep.prop))
            continue
        kind, detail = world.compare(x.cmp[0], x.cmp[1], v)
        if kind != 'ok':
            stats['nonconforming'] += 1
            corr.append(dict(x.job.describe(), conform=kind, detail=detail[:400].replace(x.scen_root, R)))
    if corr and not rep.violations:
        rep.violation({'obligation': 'correspondence: the real run of an action list with commands does not follow Model.mainP / ends in a different '
                                     'state; the oracle of the property found nothing wrong with what the commands read',
                       'disagreements': len(corr), 'examples': corr[:6]}, False)
    stats['rule'] = ('%d action lists of length 1-4 over label / second label / add-header (two names) / flag / flags / move / move to another device / '
                     'exec / exec stdin / exec stdin body / attachment { exec stdin [body] } with at least one command reading standard input%s, every '
                     'position of it relative to one and two rewriting or copying actions, as one rule and as two rules chained by pass, message in new/ '
                     'or cur/; messages: 7bit, base64, quoted-printable, multipart/alternative, multipart/mixed with encoded parts, existing X-Label '
                     '(once, twice), folded and irregular header lines, bodies and header blocks of %s bytes; real binary under the shim; compared: '
                     'order, argument, descriptors and standard input of every command (exec helper record) with the current message (Spec.rewriteOk '
                     'for exactly the settings of the actions before the command, byte for byte where determined) / Spec.decodedBody / the part; '
                     'final tree; call-by-call conformance with Model.mainP'
                     % (len(runs), ' (stdin body)' if focus == 'body' else '', '4096 / 8192 / 65536' if rep.tier == 'quick' else '4095..131072'))
    stats['samples'] = [dict(x.job.describe(), commands=[(a[0].decode('latin-1') if a else '?', len(s), t.replace(x.scen_root, R)[-40:]) for a, s, f, t in x.recs])
                        for x in runs[:3]]
    return stats


def replay(tools, j):
    """Re-run one recorded list and print what the commands read."""
    M = {m.name: m for m in messages('thorough')}
    m = M.get(j.get('message_kind'))
    if m is None:
        print('unknown message kind', j.get('message_kind'))
        return
    job = Job(j['actions'], j.get('pass_after'), j.get('source_subdir', 'new'), m)
    scen = job.spec().build(tools)
    r = scen.run()
    run = Run(job, scen, r)
    print(job.config())
    print('exit status', r.status, r.err.decode('latin-1'))
    for t in r.trace:
        print(t.get('raw', '').replace(scen.root, R)[:200])
    for argv, stdin, fds, target in run.recs:
        print('command', argv, 'descriptors', fds, 'stdin', target.replace(scen.root, R), '%d bytes:' % len(stdin), show(stdin))
    O = Oracle()
    run.judge(O)
    for _ in range(3):
        O.flush()
        probs = run.judge(O)
    for p in probs:
        print('PROBLEM', p)
    scen.cleanup()
