"""C02 - failures AFTER the commit point of a rewriting / copying action.

Property text (C02): "every message ... still has at least one complete, intact copy".  The kill sweeps of the check stop the process
between two calls; this stage lets the calls that come AFTER the original was removed FAIL instead (the program is then still running
and may "clean up"):

(a) late single faults - for every rewriting or copying scenario of the shared corpus (label, add-header, move across devices, label
    + exec stdin, label + move + flag, add-header / pass / label / move chains) the fault-free traced run gives the commit points: the
    unlinkat of an ORIGINAL message (a file the sandbox held before the run).  For every call between a commit point and the next
    directory read of the walk (re-open of the new copy, close, the calls of the actions that follow in the same rule: fstatat, a
    second create / write / fsync / rename, utimensat, fork ...) one run per failure of DESIGN Appendix C that the call can exhibit
    (whole row, every tier).
(b) late failure by length - the rewriting actions on a maildir whose path is so long that the OLD name of the message fits PATH_MAX
    and the newly generated (longer) name does not (label / add-header in a maildir of PATH_MAX-k characters; a move across devices
    into such a maildir), for every k of the window, messages in new and in cur.  No fault is injected: message_set_file fails by
    itself after the original is gone.  The trees are built through directory descriptors (as tools/props/c18.py does).

Oracle, both: whatever the exit status, of every message that was there before the run a complete intact copy exists afterwards in
some new/ or cur/: the original bytes, or a rewrite that `Spec.rewriteOk` (driver `S hsetcheck`) accepts for the headers the
configuration sets - all original header lines, the byte-identical body.  (b) additionally records that the action succeeds (exit 0,
rewritten / moved) whenever the new path fits, so that the window really straddles the limit.
"""
import concurrent.futures as cf
import itertools
import os
import re
import shutil
import subprocess
import vlib
import proc
import worldscen as ws

R = '@R@'
PATH_MAX = 4096
XL = b'X-Label'

# scenario of worldscen.corpus() -> header settings of its configuration (name, value as a function of the original's X-Label)
REWRITING = {
    'label': [('L', b'lbl')],
    'add-header': [(b'X-Added', b'v1')],
    'move-exdev': [],
    'exec-stdin': [('L', b'x')],
    'label-move-flag': [('L', b'a')],
    'pass-chain': [(b'X-A', b'1'), ('L', b'two')],
}


def settings_for(conf_settings, orig):
    out = []
    for k, v in conf_settings:
        if k == 'L':
            old = re.search(rb'^X-Label: (.*)$', orig, re.M)
            out.append((XL, (old.group(1) + b' ' + v) if old else v))
        else:
            out.append((k, v))
    return out


class Copies:
    """Decides "is `data` a complete intact copy of `orig`" through Spec.rewriteOk, batched."""

    def __init__(self):
        self.todo, self.verdict = {}, {}

    def ask(self, data, orig, conf_settings):
        key = (data, orig, tuple(conf_settings))
        if key in self.verdict or key in self.todo:
            return key
        if data == orig:
            self.verdict[key] = True
            return key
        st = settings_for(conf_settings, orig)
        lines = []
        for n in range(len(st), -1, -1):
            for sub in itertools.combinations(st, n):
                args = [data, orig, XL]
                for k, v in sub:
                    args += [k, v]
                lines.append('S hsetcheck ' + ' '.join(vlib.hexs(a) for a in args))
        self.todo[key] = lines
        return key

    def resolve(self):
        keys = list(self.todo)
        lines = [l for k in keys for l in self.todo[k]]
        outs = iter(vlib.run_batch([vlib.driver_path()], lines))
        for k in keys:
            self.verdict[k] = 'OK' in [next(outs) for _ in self.todo[k]]
        self.todo = {}


# --------------------------------------------------------------------------
# (a) single faults after the commit point
# --------------------------------------------------------------------------

def windows(scen, calls):
    """Indices of the calls between the unlinkat of an original message and the next readdir."""
    originals = set()
    for rel, v in scen.initial.items():
        if v[0] == 'file' and re.search(r'(^|/)(new|cur)/[^/]+$', rel):
            originals.add(os.path.join(scen.root, rel).encode('latin-1'))
    idx, commits = [], []
    open_window = False
    for k, c in enumerate(calls):
        if c['name'] == 'readdir':
            open_window = False
        if open_window:
            idx.append(k)
        if c['name'] == 'unlinkat' and not c['errno']:
            p = proc.unescape(c['args'].get('dir', '')) + b'/' + proc.unescape(c['args'].get('path', ''))
            if p in originals:
                commits.append(k)
                open_window = True
    return commits, idx


def late_sweep(tools, spec, conf_settings):
    out = []
    scen = spec.build(tools)
    try:
        clean = scen.run()
        calls = clean.calls()
        commits, idx = windows(scen, calls)
        origs = {ws.msg_id(d): d for d in ws.maildir_files(scen.initial).values() if ws.msg_id(d) is not None}
        gone_ok = set(i for i in origs if not any(ws.msg_id(d) == i for d in ws.maildir_files(clean.final).values()))   # discarded as configured
        out.append({'scenario': spec.name, 'plan': None, 'commit_points': commits, 'window': idx, 'status': clean.status,
                    'files': [], 'origs': origs, 'gone_ok': gone_ok, 'settings': conf_settings, 'call': '', 'fired': False,
                    'problems': [] if commits else ['the scenario has no commit point (no original is removed): it does not rewrite or copy']})
        for k in idx:
            c = calls[k]
            for e in ws.ERRNOS.get(c['name'], ['EIO']):
                scen.reset()
                r = scen.run(fail='%d:%s' % (k, e))
                fired = any(t.get('fault') for t in r.trace if t['kind'] == 'call')
                files = sorted((rel, d) for rel, d in ws.maildir_files(r.final).items() if not rel.startswith('tmp/'))
                probs = []
                if not isinstance(r.status, int) or r.status < 0 or r.status >= 126:
                    probs.append('abnormal termination (status %r)' % (r.status,))
                out.append({'scenario': spec.name, 'plan': '%d:%s' % (k, e), 'call': c['raw'].replace(scen.root, R)[:160], 'status': r.status,
                            'fired': fired, 'files': files, 'origs': origs, 'gone_ok': gone_ok, 'settings': conf_settings, 'problems': probs,
                            'after_commit_at': max(u for u in commits if u < k), 'stderr': r.err[-300:].decode('latin-1').replace(scen.root, R),
                            'config': scen.config.replace(scen.root, R)})
        return out
    finally:
        scen.cleanup()


# --------------------------------------------------------------------------
# (b) the new name does not fit PATH_MAX, the old one does
# --------------------------------------------------------------------------

GENNAME = '1790000000.4242_8.host'    # what maildir_genname produces under proc.PIN (count = 7 % 128 + 1)
MSG = ws.msg(1, extra=b'X-Label: old\n')
ACTIONS = {
    'label': ('label "lbl"', [('L', b'lbl')]),
    'add-header': ('add-header "X-Added" "v1"', [(b'X-Added', b'v1')]),
    'move-other-device': (None, []),
    'label-move-other-device': (None, [('L', b'lbl')]),
}


def read_dir(path):
    """{name: bytes} of the regular files of a directory of ANY path length."""
    from props import c18
    fd = c18.dopen(path)
    out = {}
    if fd is None:
        return out
    try:
        for n in os.listdir(fd):
            try:
                f = os.open(n, os.O_RDONLY | os.O_NOFOLLOW, dir_fd=fd)
            except OSError:
                continue
            try:
                chunks = []
                while True:
                    b = os.read(f, 1 << 16)
                    if not b:
                        break
                    chunks.append(b)
                out[n] = b''.join(chunks)
            finally:
                os.close(f)
    finally:
        os.close(fd)
    return out


def length_window(action, sub):
    """Total lengths of <maildir>/<sub>/<generated name> to try: from three below PATH_MAX (everything fits) up to the last length at
    which the path the message has BEFORE the action still fits and the maildir's new/ can be named."""
    old, gen = names(sub)
    if 'other-device' in action:
        hi = PATH_MAX + len(gen) - 1           # <maildir>/new (total - 1 - len(gen)) has to fit: < PATH_MAX
    else:
        hi = PATH_MAX + len(gen) - len(old) - 1
    return list(range(PATH_MAX - 3, hi + 1))


def names(sub):
    return ('1.h', GENNAME + ':2,') if sub == 'new' else ('1.h:2,RS', GENNAME + ':2,RS')


def case_length(tools, action, sub, total):
    from props import c18
    box = tools.box()
    try:
        for d in ('src/new', 'src/cur', 'src/tmp', 'tmp', 'home'):
            os.makedirs(os.path.join(box, d))
        old, gen = names(sub)
        M = c18.chain(box + '/m', total - 1 - len(gen) - 4)
        c18.maildir_at(M)
        text, conf_settings = ACTIONS[action]
        devmap = None
        if 'other-device' in action:
            walked = box + '/src'
            devmap = box + '/m'
            text = ('label "lbl" ' if action.startswith('label') else '') + 'move "%s"' % M
        else:
            walked = M
        c18.dwrite('%s/%s/%s' % (walked, sub, old), MSG, mtime=1600000000)
        conf = 'maildir "%s" {\n\tmatch all %s\n}\n' % (walked, text)
        with open(box + '/conf', 'w', encoding='latin-1') as fh:
            fh.write(conf)
        env = {'PATH': os.environ.get('PATH', ''), 'HOME': box + '/home', 'TMPDIR': box + '/tmp', 'LD_PRELOAD': tools.shim, 'LC_ALL': 'C'}
        env.update(proc.PIN)
        if devmap:
            env['VSHIM_DEVMAP'] = devmap
        try:
            r = subprocess.run([tools.mdsort, '-f', box + '/conf'], input=b'', capture_output=True, env=env, cwd=box, timeout=30)
            status, err = r.returncode, r.stderr.decode('latin-1')
        except subprocess.TimeoutExpired:
            status, err = 'timeout', ''
        files = []
        for md in sorted(set([walked, M])):
            for s in ('new', 'cur'):
                for n, d in sorted(read_dir('%s/%s' % (md, s)).items()):
                    files.append(('%s/%s/%s' % ('...' + md[-12:], s, n), d))
        fits = total < PATH_MAX
        probs = []
        if fits and (status != 0 or not any(n.endswith(gen) for n, _ in files)):
            probs.append('the new path (%d characters) fits but exit status %r, files %s' % (total, status, [n for n, _ in files]))
        if not isinstance(status, int) or status < 0 or status >= 126:
            probs.append('abnormal termination (status %r)' % (status,))
        short = conf if len(conf) < 300 else conf[:120] + ' ...(a path of %d characters)... ' % len(M) + conf[-60:]
        return {'scenario': 'length/%s/%s' % (action, sub), 'plan': 'new path of %d characters (PATH_MAX %+d); path before the action: %d characters'
                % (total, total - PATH_MAX, len('%s/%s/%s' % (walked, sub, old))), 'total': total, 'action': action, 'sub': sub,
                'status': status, 'fired': not fits, 'files': files, 'origs': {1: MSG}, 'gone_ok': set(), 'settings': conf_settings,
                'problems': probs, 'stderr': err[-300:].replace(M, '<maildir of %d characters>' % len(M)), 'config': short, 'call': ''}
    finally:
        # the tree is deeper than PATH_MAX allows a path to be: remove through descriptors
        subprocess.run(['rm', '-rf', box], capture_output=True)
        shutil.rmtree(box, ignore_errors=True)


# --------------------------------------------------------------------------

def account(recs):
    """Adds to every record the problem "message i has no complete intact copy"."""
    cp = Copies()
    keys = {}
    for n, rec in enumerate(recs):
        for rel, d in rec['files']:
            for i, o in rec['origs'].items():
                if ws.msg_id(d) == i or d == o:
                    keys[(n, rel, i)] = cp.ask(d, o, rec['settings'])
    cp.resolve()
    for n, rec in enumerate(recs):
        if rec['plan'] is None:
            continue
        for i, o in rec['origs'].items():
            if i in rec['gone_ok']:
                continue
            cands = [(rel, d) for rel, d in rec['files'] if (n, rel, i) in keys]
            if not any(cp.verdict[keys[(n, rel, i)]] for rel, d in cands):
                rec['problems'].append('message %d has NO complete intact copy after the run (exit status %s); files with its id: %s'
                                       % (i, rec['status'], [(rel, '%d of %d bytes' % (len(d), len(o))) for rel, d in cands] or 'none'))


def stage(rep, tools):
    corpus = {s.name: s for s in ws.corpus()}
    specs = [(corpus[n], st) for n, st in REWRITING.items()]
    recs = []
    with cf.ThreadPoolExecutor(min(vlib.NCPU, len(specs))) as ex:
        for res in ex.map(lambda p: late_sweep(tools, p[0], p[1]), specs):
            recs.extend(res)
    jobs = [(a, sub, t) for a in ACTIONS for sub in ('new', 'cur') for t in length_window(a, sub)]
    if rep.tier == 'quick':
        # both ends of the window and every second length in between for the two-action variant
        jobs = [j for j in jobs if j[0] != 'label-move-other-device' or j[2] % 2 == 0 or abs(j[2] - PATH_MAX) <= 3]
    with cf.ThreadPoolExecutor(vlib.NCPU) as ex:
        lrecs = list(ex.map(lambda j: case_length(tools, *j), jobs))
    account(recs)
    account(lrecs)
    nrep, shown = 0, {}
    for rec in recs + lrecs:
        if rec['problems']:
            nrep += 1
            fam = rec['scenario'].split('/')[0] == 'length'
            shown[fam] = shown.get(fam, 0) + 1
            if shown[fam] <= 5:         # a few of each kind (injected failure / by length)
                rep.finding('unlisted', {'stage': 'late-failure', 'harness': 'process (real binary under the shim)', 'scenario': rec['scenario'],
                                         'fault_plan' if rec['scenario'].split('/')[0] != 'length' else 'lengths': rec['plan'],
                                         'call': rec['call'], 'after_commit_point_at_call': rec.get('after_commit_at'), 'exit_status': rec['status'],
                                         'what': rec['problems'][:6], 'stderr': rec.get('stderr', ''), 'config': rec.get('config', ''),
                                         'length_case': [rec.get('action'), rec.get('sub'), rec.get('total')],
                                         'files_after_the_run': [(rel, len(d)) for rel, d in rec['files']][:8],
                                         'replay_cmd': 'python3 tools/check.py C02 --replay <this file>'})
    return {
        'late_single_faults': {
            'scenarios': {r['scenario']: {'commit_points': r['commit_points'], 'calls_after_them': len(r['window'])} for r in recs if r['plan'] is None},
            'runs': len([r for r in recs if r['plan'] is not None]), 'faults_fired': len([r for r in recs if r['fired']]),
            'exit_status_histogram': hist(r for r in recs if r['plan'] is not None),
            'rule': 'every call between the unlinkat of an original message and the next readdir of the walk, every failure of its Appendix C '
                    'row; oracle: a complete intact copy (original bytes or a rewrite Spec.rewriteOk accepts) of every message exists',
        },
        'late_failure_by_length': {
            'cases': len(lrecs), 'new_path_does_not_fit': len([r for r in lrecs if r['fired']]),
            'exit_status_histogram_when_it_does_not_fit': hist(r for r in lrecs if r['fired']),
            'lengths': {'%s/%s' % (a, sub): [length_window(a, sub)[0], length_window(a, sub)[-1]] for a in ACTIONS for sub in ('new', 'cur')},
            'rule': 'label, add-header in a maildir / move and label+move across devices into a maildir such that <maildir>/<sub>/<generated name> has '
                    'PATH_MAX-3 .. the last length at which the path before the action still fits; from new and from cur; same oracle, whatever '
                    'the exit status; below PATH_MAX the action has to succeed',
        },
        'failing': nrep,
    }


def hist(rs):
    h = {}
    for r in rs:
        h[str(r['status'])] = h.get(str(r['status']), 0) + 1
    return h


def replay(tools, j):
    if j.get('scenario', '').startswith('length/'):
        a, sub, total = j['length_case']
        rec = case_length(tools, a, sub, total)
        account([rec])
        print('exit status', rec['status'])
        print(rec['stderr'])
        for rel, d in rec['files']:
            print('file', rel, len(d), 'bytes')
        print('oracle:', rec['problems'])
        return
    spec = [s for s in ws.corpus() if s.name == j.get('scenario')]
    if spec:
        scen = spec[0].build(tools)
        try:
            r = scen.run(fail=j.get('fault_plan'))
            print('exit status', r.status)
            print(r.err.decode('latin-1'))
            for t in r.trace:
                print(t['raw'].replace(scen.root, R)[:200])
            for rel in sorted(ws.maildir_files(r.final)):
                print('file', rel)
        finally:
            scen.cleanup()
