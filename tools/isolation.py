"""Isolation stage (shared by C03, C04, C06, C09, C10, C13): nothing leaks from one message, maildir or rule into the next.

What mdsort does for a message must not depend on WHICH OTHER messages, maildirs or rules were processed before it in the same
run (C04: "an error concerning one message or one maildir does not prevent the remaining messages and maildirs from being processed
correctly"; C03: the rules are applied per message; C09: "flags are taken only from the file name's ':2,' suffix"; C10: a header
condition sees the headers of THIS message; C13: the command reads "the complete current message (or the decoded body, or the
attachment) from offset 0"; C06: an explanation refers to the line it names).  The world model has no place where such a dependence
could live - Props/C04.lean `C04_message_independent`: `processMessage` is a program of the message's own entry and of the results
of its own calls, and changes the loop state by an effect that does not look at it - so the real binary is held to the same:

    metamorphic oracle.  For a configuration and a population m1 ... mk (k = 2..6, spread over new/ and cur/ of one or several
    maildirs, also `maildir { "a" "b" }` lists and several maildir blocks), run the real binary under the shim (pinned clock, pid,
    host, random, temporary names; readdir served sorted)
      (a) once on the whole population,
      (b) once per message ALONE (same configuration, same directories, same name, same modification time),
      (c) once on the empty maildirs (what the run says and returns without any message),
    each of them with `-d` first and then for real.  The PER-MESSAGE OUTCOME in (a) must equal the one in (b):
      final maildir / subdirectory / flag letters (as written) / name, content bytes, modification time (unless rewritten),
      the helper's records of the message's commands in order (argv, stdin bytes, inherited descriptors, what stdin is),
      the `-d` lines of the message (the `path -> destination` lines and the explanation lines with their markers),
    and for the run as a whole: exit status of (a) = max over (b) and (c); diagnostics of (a) minus those of (c) = the union over the
    messages of (diagnostics of (b) minus those of (c)), as multisets; `-d` changes nothing; no file other than messages changes.

Processing order = configuration order of the blocks, listed order of the paths of a block, new before cur, names in the order the
shim serves them (sorted): the generator places ROLES (message contents and flag suffixes) on SLOTS (maildir, subdirectory) and
names the files by their position, so every order of a population can be produced: all orders for k <= 3, sampled ones above.

Populations are adversarial for carried-over state: consecutive messages differ in the dimension a cache would be keyed on -
flag sets under one `flags` / `flag` action; a repeated header with different multiplicities, positions of the matching occurrence
and numbers of other headers (a remembered index lands inside another message's run); long then short bodies and attachments under
`exec stdin body` and commands in attachment blocks; destinations interpolated from captures that differ per message; rules on
configuration lines with 1, 2 and 3 digits firing in one `-d` run; a message that cannot be evaluated (undecodable base64, unparsable
date, over-long interpolated destination, missing destination, failing command, invalid flag suffix) between healthy ones.

What is NOT compared literally, and exactly that (nothing else is loosened):
  * the unique part of generated names: `maildir_genname` starts every name at the same counter (the shim pins arc4random) and
    increments on EEXIST, so the second message that arrives in a directory with the same flags gets the next number in (a) and the
    first in (b): `<time>.<pid>_<N>.<host>` is compared with N blanked - in names, in paths inside diagnostics and in arguments;
    likewise the counter of the shim's temporary names (`mdsort-XXV00001`) in what the helper reports as its stdin, and the sandbox
    directory (every run has its own, all of the same length so that marker columns and path limits do not move);
  * the modification time of a message whose content was rewritten (label, add-header): it is the wall clock of the run;
  * a message that is VISITED AGAIN in the same run - known finding F21 (`walk-revisits-moved`: taken from new to cur of the maildir
    being walked) and a destination that is itself walked later (`destination-walked-later`): identified exactly, from the trace of
    the run (b) (every name the walk's readdir returns there is a visit of the one message; the chain of directories is the class).
    The same revisit happens in (a) and in (b), so the outcome of the whole chain is compared like any other (modulo generated
    names: the second visit is under one); what is exempt is the ORDER: a revisited message is met again at the position its
    generated name sorts to, which depends on the counter - the stage never compares positions, and counts such populations.
"""
import base64
import concurrent.futures as cf
import itertools
import os
import random
import re
import vlib
import proc
import worldscen as ws

R = '@R@'
H = '"@HELPER@"'
GENNAME = re.compile(rb'1790000000\.4242_\d+\.host')
TMPNAME = re.compile(rb'mdsort-XXV\d+')
MAXREPORT = 4


# --------------------------------------------------------------------------
# populations
# --------------------------------------------------------------------------

class Role:
    """A message up to its identity: `make(i)` -> content bytes carrying the id i (header X-Id, a body marker `id<i>`, X-Part in
    parts); `suffix` = what follows `.host` in its file name."""

    def __init__(self, tag, make, suffix=''):
        self.tag, self.make, self.suffix = tag, make, suffix


class Msg:
    __slots__ = ('id', 'md', 'sub', 'name', 'data', 'tag')

    def __init__(self, i, md, sub, name, data, tag):
        self.id, self.md, self.sub, self.name, self.data, self.tag = i, md, sub, name, data, tag

    @property
    def rel(self):
        return '%s/%s/%s' % (self.md, self.sub, self.name)


class Pop:
    """conf (with @R@ / @HELPER@), dirs (maildirs to create), walk (maildirs in the order the configuration walks them),
    msgs in intended processing order."""

    def __init__(self, family, conf, dirs, walk, msgs, note=''):
        self.family, self.conf, self.dirs, self.walk, self.msgs, self.note = family, conf, list(dirs), list(walk), list(msgs), note

    def tree(self, ids):
        t = {}
        for d in self.dirs:
            t.update(proc.maildir_tree(d, {}))
        for m in self.msgs:
            if m.id in ids:
                t[m.rel] = m.data
        return t

    def mtimes(self, ids):
        return {m.rel: mtime_of(m.id) for m in self.msgs if m.id in ids}

    def readable(self):
        return {'family': self.family, 'note': self.note, 'config': self.conf,
                'population_in_processing_order': [{'file': m.rel, 'role': m.tag, 'content': m.data[:700].decode('latin-1') + ('... (%d bytes)' % len(m.data) if len(m.data) > 700 else '')} for m in self.msgs]}


def mtime_of(i):
    return (1600000000 + 86400 * i) * 10**9 + 123456789 + i


def head(i, lines):
    return b''.join(l + b'\n' for l in lines) + b'X-Id: %d\n' % i


def plain(i, lines=(), body=None):
    return head(i, lines) + b'\n' + (body if body is not None else b'id%d body line\nsecond line\n' % i)


def place(roles, slots, walk):
    """Roles (in the processing order wanted) on slots: the slots are sorted into walk order, position p gets the name m<p>."""
    slots = sorted(slots, key=lambda s: (walk.index(s[0]), 0 if s[1] == 'new' else 1))
    msgs = []
    for p, (role, (md, sub)) in enumerate(zip(roles, slots)):
        i = p + 1
        msgs.append(Msg(i, md, sub, 'm%02d.host%s' % (p, role.suffix), role.make(i), role.tag))
    return msgs


def orders(roles, rng, limit):
    """All orders for <= 3 roles, `limit` sampled ones (always the given order and its reverse) otherwise."""
    if len(roles) <= 3:
        return [list(p) for p in itertools.permutations(roles)]
    out = [list(roles), list(reversed(roles))]
    while len(out) < limit:
        p = list(roles)
        rng.shuffle(p)
        out.append(p)
    return out


def pad_rules(conf, rng, lines=None):
    """Put the rules of a configuration on lines with different numbers of digits: comment lines in front of every line that begins
    with a tab and `match` (top-level rules of the blocks).  lines = target line numbers in order, default drawn from 2 / 9 / 10 / 11 /
    99 / 100 / 101."""
    out, k = [], 0
    for l in conf.split('\n'):
        if l.startswith('\tmatch'):
            want = (lines[k] if lines and k < len(lines) else None)
            if want is None:
                want = len(out) + 1 + rng.choice([0, 0, 1, 6, 7, 8, 89, 97, 98])
            while len(out) + 1 < want:
                out.append('\t# %d' % (len(out) + 1))
            k += 1
        out.append(l)
    return '\n'.join(out)


# ---- flags (C09) ----------------------------------------------------------

SUFFIXES = ['', ':2,', ':2,S', ':2,RS', ':2,ST', ':2,FRS', ':2,a', ':2,PSab', ':2,xRb', ':2,D', ':2,T', ':2,FPRST']


def flag_role(suffix, kind=b'k1'):
    return Role('flags%s' % (suffix or ' none'), lambda i: plain(i, [b'To: u%d@example.com' % i, b'X-Kind: ' + kind]), suffix)


def fam_flags(rng, n):
    confs = [
        ('maildir { "%s/a" "%s/b" } {\n\tmatch all flags "F"\n}\n' % (R, R), ['a', 'b'], ['a', 'b']),
        ('maildir "%s/a" {\n\tmatch all flags "D" flag new\n}\n' % R, ['a'], ['a']),
        ('maildir "%s/a" {\n\tmatch all flags "ccA"\n}\n' % R, ['a'], ['a']),
        ('maildir "%s/a" {\n\tmatch header "X-Kind" /k2/ flags "T"\n\tmatch all flags "R"\n}\n' % R, ['a'], ['a']),
        ('maildir "%s/a" {\n\tmatch all flags "P" pass\n\tmatch ! new move "%s/c"\n}\nmaildir "%s/b" {\n\tmatch all flags "a"\n}\n' % (R, R, R), ['a', 'b', 'c'], ['a', 'b']),
        # the message is taken from new to cur of the maildir being walked and met again there (F21), and a destination walked later
        ('maildir "%s/a" {\n\tmatch new flags "F" flag !new\n\tmatch all flags "T"\n}\n' % R, ['a'], ['a']),
        ('maildir { "%s/a" "%s/b" } {\n\tmatch header "X-Kind" /k2/ move "%s/b"\n\tmatch all flags "R"\n}\n' % (R, R, R), ['a', 'b'], ['a', 'b']),
    ]
    pops = []
    while len(pops) < n:
        conf, dirs, walk = rng.choice(confs)
        k = rng.choice([2, 2, 3, 3, 3, 4, 5, 6])
        roles = [flag_role(s, rng.choice([b'k1', b'k1', b'k2'])) for s in rng.sample(SUFFIXES, k)]
        slots = [(rng.choice(walk), rng.choice(['new', 'cur'])) for _ in range(k)]
        conf = pad_rules(conf, rng) if rng.random() < 0.3 else conf
        for o in orders(roles, rng, 4):
            pops.append(Pop('flags', conf, dirs, walk, place(o, slots, walk)))
    return pops[:n]


# ---- repeated headers (C10) ------------------------------------------------

OTHERS = [b'Bcc', b'Cc', b'Date', b'From', b'Message-Id', b'Received', b'Reply-To', b'Subject', b'To', b'User-Agent', b'X-Mailer', b'X-Spam']


def header_role(rng, key=b'To', needle=b'needle@example.com', nb=None, m=None, j=None):
    """`nb` headers sorting before `key`, `m` occurrences of `key` of which the j-th (-1: none) matches, some sorting after it, in a random
    file order (the run keeps its file order: the header table is sorted stably by name).  `start` = index of the run in the sorted
    table (the X-Id header every message carries counts when it sorts before `key`)."""
    lower = [h for h in OTHERS if h.lower() < key.lower()]
    upper = [h for h in OTHERS if h.lower() > key.lower()]
    own = 1 if b'x-id' < key.lower() else 0
    nb = rng.randrange(0, 5) if nb is None else nb
    nb = max(nb, own) if lower else own
    m = rng.choice([1, 1, 2, 3, 3, 4, 5]) if m is None else m
    na = rng.randrange(0, 3) if upper else 0
    if j is None:
        j = rng.randrange(-1, m) if rng.random() < 0.85 else -1
    before = [rng.choice(lower) for _ in range(nb - own)]
    after = [rng.choice(upper) for _ in range(na)]
    seed = rng.randrange(1 << 30)

    def make(i):
        run = [key + b': ' + (needle if q == j else b'other%d@example.org' % q) for q in range(m)]
        lines = [h + b': filler %d' % q for q, h in enumerate(before)] + [h + b': tail %d' % q for q, h in enumerate(after)]
        r2 = random.Random(seed)
        r2.shuffle(lines)
        pos = sorted(r2.randrange(0, len(lines) + 1) for _ in run)
        for q, (at, l) in enumerate(zip(pos, run)):
            lines.insert(at + q, l)
        return plain(i, lines)
    role = Role('%s x%d (match #%s), run starts at index %d of the sorted table' % (key.decode(), m, j + 1 if j >= 0 else '-', nb), make)
    role.start, role.m = nb, m
    return role


def header_chain(rng, key, k):
    """k roles of which consecutive ones are made for each other: the index at which the run of `key` starts in one message lies strictly
    inside the run of the next one, whose only matching occurrence stands before that index."""
    roles = [header_role(rng, key, nb=rng.randrange(1, 5), j=rng.choice([-1, 0, 0]))]
    while len(roles) < k:
        prev = roles[-1].start
        if prev >= 1 and rng.random() < 0.8:
            nb = rng.randrange(max(0, prev - 3), prev)
            m = rng.randrange(prev - nb + 1, prev - nb + 4)
            roles.append(header_role(rng, key, nb=nb, m=m, j=rng.randrange(0, prev - nb)))
        else:
            roles.append(header_role(rng, key, nb=rng.randrange(1, 6)))
    return roles


def fam_header(rng, n):
    confs = [
        ('maildir "%s/a" {\n\tmatch header "To" /^needle@/ move "%s/dst"\n}\n' % (R, R), ['a', 'dst'], ['a'], b'To'),
        ('maildir "%s/a" {\n\tmatch header "Received" /^needle@/ move "%s/dst2"\n\tmatch header "To" /^needle@/ move "%s/dst"\n}\n' % (R, R, R),
         ['a', 'dst', 'dst2'], ['a'], b'To'),
        ('maildir { "%s/a" "%s/b" } {\n\tmatch header "Cc" /^needle@/ or header "To" /^needle@/ move "%s/dst"\n}\n' % (R, R, R), ['a', 'b', 'dst'], ['a', 'b'], b'To'),
        ('maildir "%s/a" {\n\tmatch header { "Cc" "Received" } /^needle@/ flags "F"\n}\nmaildir "%s/b" {\n\tmatch header "Received" /^needle@/ move "%s/dst"\n}\n' % (R, R, R),
         ['a', 'b', 'dst'], ['a', 'b'], b'Received'),
        ('maildir "%s/a" {\n\tmatch header "Subject" /^needle@/ label "s" pass\n\tmatch header "X-Spam" /^needle@/ move "%s/dst"\n}\n' % (R, R), ['a', 'dst'], ['a'], b'X-Spam'),
    ]
    pops = []
    while len(pops) < n:
        conf, dirs, walk, key = rng.choice(confs)
        k = rng.choice([2, 2, 2, 3, 3, 4, 5])
        if rng.random() < 0.6:
            roles = header_chain(rng, key, k)
        else:
            roles = [header_role(rng, key if rng.random() < 0.8 else rng.choice([b'Cc', b'Received', b'Subject', b'To'])) for _ in range(k)]
        slots = [(rng.choice(walk), rng.choice(['new', 'cur'])) for _ in range(k)]
        conf = pad_rules(conf, rng) if rng.random() < 0.3 else conf
        for o in orders(roles, rng, 4):
            ms = place(o, slots, walk)
            for m in ms:
                if m.sub == 'cur':
                    m.name += ':2,S'
            pops.append(Pop('repeated-header', conf, dirs, walk, ms))
    return pops[:n]


# ---- what a command reads (C13) ---------------------------------------------

def text(i, n, tag=b'text'):
    out, size, q = [b'id%d %s of %d bytes\n' % (i, tag, n)], 0, 0
    size = len(out[0])
    while size < n:
        l = b'id%d %s line %04d: the quick brown fox jumps over the lazy dog\n' % (i, tag, q)
        out.append(l)
        size += len(l)
        q += 1
    return b''.join(out)[:max(n, len(out[0])) - 1] + b'\n'


def part(i, k, n, ctype=b'text/plain', b64=False):
    body = b'id%d part %d\n' % (i, k) + text(i, n, b'part%d' % k)
    if b64:
        return b'Content-Type: %s\nContent-Transfer-Encoding: base64\nX-Part: m%dp%d\n\n' % (ctype, i, k) + base64.encodebytes(body)
    return b'Content-Type: %s\nX-Part: m%dp%d\n\n' % (ctype, i, k) + body


def mime(i, parts):
    m = head(i, [b'To: u%d@example.com' % i, b'Content-Type: multipart/mixed; boundary="b%d"' % i]) + b'\n'
    for p in parts:
        m += b'--b%d\n' % i + p
    return m + b'--b%d--\n' % i


def exec_roles(rng):
    long_, short = rng.choice([300, 700, 5000, 9000]), rng.choice([1, 12, 40])
    return [
        Role('plain body %d bytes' % long_, lambda i: plain(i, [b'To: u%d@example.com' % i], text(i, long_))),
        Role('plain body %d bytes' % short, lambda i: plain(i, [b'To: u%d@example.com' % i], text(i, short))),
        Role('base64 body %d bytes' % long_, lambda i: plain(i, [b'To: u%d@example.com' % i, b'Content-Transfer-Encoding: base64'], base64.encodebytes(text(i, long_, b'b64')))),
        Role('base64 body %d bytes' % short, lambda i: plain(i, [b'To: u%d@example.com' % i, b'Content-Transfer-Encoding: base64'], base64.encodebytes(text(i, short, b'b64')))),
        Role('multipart, large then small part', lambda i: mime(i, [part(i, 1, long_), part(i, 2, short, b'application/pdf')])),
        Role('multipart, one small part', lambda i: mime(i, [part(i, 1, short)])),
        Role('multipart, small then large base64 part', lambda i: mime(i, [part(i, 1, short), part(i, 2, long_, b'application/pdf', True)])),
        Role('empty body', lambda i: head(i, [b'To: u%d@example.com' % i, b'Subject: id%d empty' % i]) + b'\n'),
    ]


def fam_exec(rng, n):
    confs = [
        ('maildir "%s/a" {\n\tmatch all exec stdin body %s\n}\n' % (R, H), ['a'], ['a']),
        ('maildir { "%s/a" "%s/b" } {\n\tmatch all attachment { match all exec stdin { %s "part" } }\n}\n' % (R, R, H), ['a', 'b'], ['a', 'b']),
        ('maildir "%s/a" {\n\tmatch header "X-Id" /([0-9]+)/ exec { %s "id=\\1" "c d" }\n}\n' % (R, H), ['a'], ['a']),
        ('maildir "%s/a" {\n\tmatch all exec stdin { %s "whole" }\n}\n' % (R, H), ['a'], ['a']),
        ('maildir "%s/a" {\n\tmatch all label "l" exec stdin body %s\n}\n' % (R, H), ['a'], ['a']),
        ('maildir "%s/a" {\n\tmatch all exec stdin body %s\n}\nmaildir "%s/b" {\n\tmatch all attachment { match all exec stdin body %s } move "%s/dst"\n}\n' % (R, H, R, H, R),
         ['a', 'b', 'dst'], ['a', 'b']),
        ('maildir "%s/a" {\n\tmatch all attachment { match header "Content-Type" /pdf/ exec stdin %s } exec stdin body { %s "after" }\n}\n' % (R, H, H), ['a'], ['a']),
    ]
    pops = []
    while len(pops) < n:
        conf, dirs, walk = rng.choice(confs)
        k = rng.choice([2, 2, 3, 3, 4])
        roles = rng.sample(exec_roles(rng), k)
        slots = [(rng.choice(walk), rng.choice(['new', 'cur'])) for _ in range(k)]
        for o in orders(roles, rng, 3):
            ms = place(o, slots, walk)
            for m in ms:
                if m.sub == 'cur':
                    m.name += ':2,S'
            pops.append(Pop('command-input', conf, dirs, walk, ms))
    return pops[:n]


# ---- interpolated destinations (C06 / C12) ----------------------------------

LISTS = [b'devel', b'announce', b'users']


def fam_dest(rng, n):
    confs = [
        ('maildir "%s/a" {\n\tmatch header "List-Id" /<([a-z]+)\\.lists\\./ move "%s/lists/\\1"\n\tmatch header "X-Kind" /misc/ move "%s/misc"\n}\n' % (R, R, R), ['a'], ['a']),
        ('maildir { "%s/a" "%s/b" } {\n\tmatch header "To" /^([a-z]+)@/ label "\\1" move "%s/lists/\\1"\n}\n' % (R, R, R), ['a', 'b'], ['a', 'b']),
        ('maildir "%s/a" {\n\tmatch header "List-Id" /<([a-z]+)\\.lists\\./ move "%s/lists/\\1"\n}\nmaildir "%s/b" {\n\tmatch header "List-Id" /<([a-z]+)\\.lists\\./ move "%s/other/\\1"\n}\n'
         % (R, R, R, R), ['a', 'b'], ['a', 'b']),
    ]
    dests = ['lists/' + l.decode() for l in LISTS] + ['other/' + l.decode() for l in LISTS] + ['misc']

    def role(kind):
        if kind == b'misc':
            return Role('no list, kind misc', lambda i: plain(i, [b'To: nobody%d@example.com' % (i * 0), b'X-Kind: misc']))
        if kind == b'none':
            return Role('no list', lambda i: plain(i, [b'From: x@example.com', b'X-Kind: plain']))
        return Role('list %s' % kind.decode(), lambda i: plain(i, [b'To: %s@example.com' % kind, b'List-Id: The list <%s.lists.example.com>' % kind, b'X-Kind: list']))
    pops = []
    while len(pops) < n:
        conf, dirs, walk = rng.choice(confs)
        k = rng.choice([2, 3, 3, 4, 5])
        kinds = [rng.choice(LISTS + LISTS + [b'misc', b'none']) for _ in range(k)]
        if len(set(kinds)) == 1:
            continue
        roles = [role(x) for x in kinds]
        slots = [(rng.choice(walk), rng.choice(['new', 'cur'])) for _ in range(k)]
        conf = pad_rules(conf, rng) if rng.random() < 0.3 else conf
        for o in orders(roles, rng, 4):
            ms = place(o, slots, walk)
            for m in ms:
                if m.sub == 'cur':
                    m.name += ':2,S'
            pops.append(Pop('interpolated-destination', conf, dirs + dests, walk, ms))
    return pops[:n]


# ---- explanations of rules on lines with 1, 2, 3 digits (C06) ----------------

def fam_lines(rng, n):
    rules = [
        '\tmatch header "X-Kind" /q%(L)d/ and header "Subject" /(hello) (w[a-z]+)/ move "%(R)s/dst"',
        '\tmatch header "X-Kind" /q%(L)d/ and body /(needle) in (a) haystack/ move "%(R)s/dst2"',
        '\tmatch header "X-Kind" /q%(L)d/ and header "Subject" /w[a-z]+d/ flags "F"',
    ]
    pops = []
    while len(pops) < n:
        lines = sorted(rng.sample([2, 3, 8, 9, 10, 11, 12, 99, 100, 101], rng.choice([2, 3, 3])))
        chosen = [rng.choice(rules) for _ in lines]
        conf = 'maildir { "%s/a" "%s/b" } {\n' % (R, R)
        for k, (L, r) in enumerate(zip(lines, chosen)):
            txt = r % {'L': L, 'R': R}
            if k == 0 and rng.random() < 0.4:
                # the first rule passes on: one message is explained by two lines
                txt = '\tmatch header "X-Kind" /q%d/ and header "Subject" /(hello)/ label "first" pass' % L
            conf += txt + '\n'
        conf += '}\n'
        conf = pad_rules(conf, rng, lines)

        def role(Ls):
            kind = b' '.join(b'q%d' % L for L in Ls)
            return Role('fires line(s) %s' % ','.join(map(str, Ls)),
                        lambda i: plain(i, [b'X-Kind: ' + kind, b'Subject: say hello world and wood again'], b'id%d\nthere is a needle in a haystack here\n' % i))
        k = rng.choice([2, 2, 3, 3, 4])
        roles = []
        for _ in range(k):
            Ls = [rng.choice(lines)]
            if rng.random() < 0.3:
                Ls = sorted(set(Ls + [rng.choice(lines)]))
            roles.append(role(Ls))
        slots = [(rng.choice(['a', 'b']), rng.choice(['new', 'cur'])) for _ in range(k)]
        for o in orders(roles, rng, 4):
            ms = place(o, slots, ['a', 'b'])
            for m in ms:
                if m.sub == 'cur':
                    m.name += ':2,S'
            pops.append(Pop('rule-line-digits', conf, ['a', 'b', 'dst', 'dst2'], ['a', 'b'], ms))
    return pops[:n]


# ---- a message that cannot be processed between healthy ones (C04) -----------

ERR_CONF = ('maildir { "%(R)s/a" "%(R)s/b" } {\n'
            '\tmatch header "X-Kind" /date/ and date > 1 seconds move "%(R)s/dst"\n'
            '\tmatch header "X-Kind" /body/ and body /hello/ move "%(R)s/dst"\n'
            '\tmatch header "X-Kind" /interp/ and header "Subject" /(.*)/ move "%(R)s/dst/\\1"\n'
            '\tmatch header "X-Kind" /nodest/ move "%(R)s/nonexistent"\n'
            '\tmatch header "X-Kind" /cmd/ exec "false" move "%(R)s/dst"\n'
            '\tmatch header "X-Kind" /att/ attachment { match body /hello/ exec stdin %(H)s } move "%(R)s/dst"\n'
            '\tmatch header "X-Kind" /good/ label "ok" move "%(R)s/dst"\n'
            '\tmatch all flags "T"\n'
            '}\n') % {'R': R, 'H': H}


def error_roles():
    k = lambda kind: b'X-Kind: ' + kind
    return {
        'bad': [
            Role('unparsable Date under a date rule', lambda i: plain(i, [k(b'date'), b'Date: not a date at all'])),
            Role('undecodable base64 under a body rule', lambda i: plain(i, [k(b'body'), b'Content-Transfer-Encoding: base64'], b'%%%%id%d not base64%%%%\n' % i)),
            Role('over-long interpolated destination', lambda i: plain(i, [k(b'interp'), b'Subject: ' + b'x' * 5000])),
            Role('missing destination', lambda i: plain(i, [k(b'nodest')])),
            Role('failing command', lambda i: plain(i, [k(b'cmd')])),
            Role('invalid flag suffix', lambda i: plain(i, [k(b'good')]), ':1,S'),
            Role('multipart with an undecodable part', lambda i: mime(i, [part(i, 1, 20), b'Content-Transfer-Encoding: base64\nX-Part: m%dp2\n\n!!!! not base64 !!!!\n' % i]).replace(
                b'X-Id:', b'X-Kind: att\nX-Id:', 1)),
        ],
        'good': [
            Role('good, labelled and moved', lambda i: plain(i, [k(b'good')])),
            Role('good date', lambda i: plain(i, [k(b'date'), b'Date: Mon, 21 Sep 2020 14:13:20 +0100'])),
            Role('good base64 body', lambda i: plain(i, [k(b'body'), b'Content-Transfer-Encoding: base64'], base64.encodebytes(b'id%d hello\n' % i))),
            Role('good multipart', lambda i: mime(i, [b'Content-Type: text/plain\nX-Part: m%dp1\n\nid%d hello from part 1\n' % (i, i), part(i, 2, 30)]).replace(
                b'X-Id:', b'X-Kind: att\nX-Id:', 1)),
            Role('no rule but the last', lambda i: plain(i, [k(b'other')]), ':2,R'),
            Role('short interpolated destination', lambda i: plain(i, [k(b'interp'), b'Subject: sub'])),
        ],
    }


def fam_error(rng, n):
    E = error_roles()
    pops = []
    while len(pops) < n:
        k = rng.choice([2, 3, 3, 3, 4, 5])
        nbad = rng.choice([1, 1, 1, 2])
        roles = rng.sample(E['bad'], min(nbad, k - 1)) + [rng.choice(E['good']) for _ in range(k - min(nbad, k - 1))]
        slots = [(rng.choice(['a', 'b']), rng.choice(['new', 'cur'])) for _ in range(k)]
        conf = pad_rules(ERR_CONF, rng) if rng.random() < 0.3 else ERR_CONF
        for o in orders(roles, rng, 4):
            ms = place(o, slots, ['a', 'b'])
            for m in ms:
                if m.sub == 'cur' and ':' not in m.name:
                    m.name += ':2,S'
            pops.append(Pop('error-between-healthy', conf, ['a', 'b', 'dst', 'dst/sub'], ['a', 'b'], ms))
    return pops[:n]


FAMILIES = {'flags': fam_flags, 'repeated-header': fam_header, 'command-input': fam_exec, 'interpolated-destination': fam_dest,
            'rule-line-digits': fam_lines, 'error-between-healthy': fam_error}

# how many populations of each family a property's check runs in the quick tier (its own observables first)
PLAN = {
    'C09': {'flags': 110, 'interpolated-destination': 20, 'error-between-healthy': 10},
    'C10': {'repeated-header': 130, 'rule-line-digits': 10},
    'C13': {'command-input': 110, 'error-between-healthy': 15},
    'C06': {'rule-line-digits': 80, 'interpolated-destination': 50, 'repeated-header': 10},
    'C03': {'flags': 25, 'repeated-header': 25, 'command-input': 25, 'interpolated-destination': 25, 'rule-line-digits': 15, 'error-between-healthy': 15},
    'C04': {'error-between-healthy': 90, 'command-input': 20, 'flags': 15, 'repeated-header': 15},
}


def populations(focus, tier, rng):
    plan = PLAN[focus]
    mult = 1 if tier == 'quick' else 25
    pops = []
    for fam, n in plan.items():
        pops += FAMILIES[fam](random.Random(rng.randrange(1 << 30)), n * mult)
    return pops


# --------------------------------------------------------------------------
# running and observing
# --------------------------------------------------------------------------

class IsoTools:
    """proc.Tools with sandbox directories of one fixed length: marker columns of `-d` (the configuration path is printed in front of
    every explanation) and every path limit are the same in all runs of a population."""

    def __init__(self, tools):
        self.sc, self.mdsort, self.shim, self.helper = tools.sc, tools.mdsort, tools.shim, tools.helper
        self.n = itertools.count(1)
        self.base = os.path.join(tools.sc.dir, 'iso')
        os.makedirs(self.base, exist_ok=True)

    def box(self):
        d = os.path.join(self.base, 'i%07d' % next(self.n))
        os.makedirs(d)
        return d


def norm(b, root):
    if isinstance(b, str):
        b = b.encode('latin-1')
    b = b.replace(root.encode('latin-1'), b'@R@')
    b = GENNAME.sub(b'1790000000.4242_N.host', b)
    return TMPNAME.sub(b'mdsort-XXVnnnnn', b)


def who(stdin, argv):
    """The message (and part) a command ran for: from what it read, else from its arguments."""
    m = re.search(rb'^X-Id: (\d+)$', stdin, re.M)
    p = re.search(rb'^X-Part: m(\d+)p(\d+)$', stdin, re.M)
    q = re.search(rb'\bid(\d+)\b', stdin)
    cands = [(x.start(), int(x.group(1))) for x in (m, p, q) if x]
    if cands:
        return min(cands)[1]
    for a in argv:
        x = re.match(rb'^id=(\d+)$', a)
        if x:
            return int(x.group(1))
    return None


class Obs:
    """What one pair of runs (-d, then for real) of one sandbox shows, per message id and for the run."""

    def __init__(self, pop, ids, scen, d, r, visits=None):
        from props.c13 import parse_helper
        root = scen.root
        self.status = (d.status, r.status)
        self.per = {i: {'copies': [], 'commands': [], 'dry': [], 'diag': []} for i in ids}
        self.other, self.loose = [], []
        self.visits = visits
        byrel = {m.rel: m for m in pop.msgs if m.id in ids}
        # final tree
        init = scen.initial
        for rel, (kind, data, mt) in sorted(r.final.items()):
            if rel.startswith('tmp/') or rel in ('home', 'tmp'):
                if rel.startswith('tmp/'):
                    self.other.append('left in TMPDIR: %s' % rel)
                continue
            mm = re.match(r'^(.*)/(new|cur)/([^/]+)$', rel)
            i = ws.msg_id(data) if (kind == 'file' and mm) else None
            if i in self.per:
                md, sub, name = mm.groups()
                m0 = [m for m in pop.msgs if m.id == i][0]
                self.per[i]['copies'].append({'maildir': md, 'subdir': sub, 'name': norm(name, root).decode('latin-1'),
                                              'flags_as_written': name.split(':2,', 1)[1] if ':2,' in name else None,
                                              'content': data, 'mtime': mt if data == m0.data else 'rewritten'})
            elif init.get(rel) != (kind, data, mt) and kind != 'dir':
                self.other.append('%s changed or appeared' % rel)
        for rel in init:
            if rel not in r.final and rel not in byrel:
                self.other.append('%s disappeared' % rel)
        if d.final != init:
            self.other.append('-d changed the tree: %s' % sorted(set(k for k in set(d.final) | set(init) if d.final.get(k) != init.get(k)))[:4])
        if d.helper:
            self.other.append('-d ran %d command(s)' % len(d.helper))
        # commands
        for line in r.helper:
            argv, stdin, fds, target = parse_helper(line)
            i = who(stdin, argv)
            rec = {'argv': [norm(a, root).decode('latin-1') for a in argv], 'stdin': stdin, 'fds': fds,
                   'stdin_is': norm(target, root).decode('latin-1')}
            if i in self.per:
                self.per[i]['commands'].append(rec)
            elif i is None:
                self.loose.append(rec)          # neither the input nor the arguments name a message (an empty body): compared as a multiset
            else:
                self.other.append('a command ran with an input that belongs to no message of the run: argv %r stdin %r' % (rec['argv'], stdin[:80]))
        # -d lines
        cur = None
        paths = {('%s/%s' % (root, rel)).encode('latin-1'): m.id for rel, m in byrel.items()}
        for line in d.out.split(b'\n'):
            if not line:
                continue
            hit = [i for p, i in paths.items() if line.startswith(p + b' -> ')]
            if hit:
                cur = hit[0]
            if cur is None:
                self.other.append('-d printed a line in front of any message: %r' % line[:120])
            else:
                self.per[cur]['dry'].append(norm(line, root).decode('latin-1'))
        self.dry_order = []
        for line in d.out.split(b'\n'):
            for p, i in paths.items():
                if line.startswith(p + b' -> ') and (not self.dry_order or self.dry_order[-1] != i):
                    self.dry_order.append(i)
        if r.out.strip():
            self.other.append('the real run printed on standard output: %r' % r.out[:120])
        # diagnostics: real run and -d run, as multisets of normalised lines
        self.diag = {'real': sorted(norm(l, root) for l in r.err.split(b'\n') if l), 'dry': sorted(norm(l, root) for l in d.err.split(b'\n') if l)}


def msub(a, b):
    """Multiset difference a - b of two lists, and what of b is missing in a."""
    a, miss = list(a), []
    for x in b:
        if x in a:
            a.remove(x)
        else:
            miss.append(x)
    return a, miss


def visit_chain(pop, scen, r):
    """The directories in which the walk of a run with ONE message met a file (`readdir` of a directory stream opened on a new/ or cur/
    directory returned a name other than . and ..): every element is a visit of that message."""
    chain, streams = [], {}
    for t in r.calls():
        if t['name'] == 'opendir' and t['errno'] is None:
            streams[t['result']] = proc.unescape(t['args'].get('path', '')).decode('latin-1')
        elif t['name'] == 'closedir':
            streams.pop(t['args'].get('fd'), None)
        elif t['name'] == 'readdir' and t['errno'] is None and t['result'] not in ('.', '..', 'END'):
            d = streams.get(t['args'].get('fd'), '')
            if d.startswith(scen.root + '/') and re.search(r'/(new|cur)$', d):
                chain.append(os.path.relpath(d, scen.root))
    return chain


def revisit_class(chain):
    if len(chain) <= 1:
        return None
    a, b = chain[0], chain[1]
    if a.endswith('/new') and b == a[:-4] + '/cur':
        return 'walk-revisits-moved'
    return 'destination-walked-later'


class Sandbox:
    """One sandbox directory per population, refilled for every run of it (creating and removing directory trees costs more than
    the runs themselves): the maildirs, tmp/, home/ and the configuration stay, the files below the maildirs and tmp/ are replaced.
    A proc.Scenario without its constructor: `run` (environment pinned by the shim, helper record, final snapshot) is the shared one."""

    def __init__(self, tools, pop):
        self.pop = pop
        s = self.scen = proc.Scenario.__new__(proc.Scenario)
        s.tools, s.root = tools, tools.box()
        s.stdin_file, s.stdin, s.args, s.env_extra, s.devmap = False, None, [], {}, []
        s.config = pop.conf.replace('@HELPER@', tools.helper).replace('@R@', s.root)
        self.dirs = []
        for d in list(pop.dirs):
            for sub in ('new', 'cur', 'tmp'):
                self.dirs.append('%s/%s' % (d, sub))
        for rel in self.dirs + ['tmp', 'home']:
            os.makedirs(os.path.join(s.root, rel), exist_ok=True)
        with open(os.path.join(s.root, 'conf'), 'w', encoding='latin-1') as fh:
            fh.write(s.config)

    def fill(self, ids):
        root = self.scen.root
        for rel in self.dirs + ['tmp']:
            dp = os.path.join(root, rel)
            for fn in os.listdir(dp):
                os.unlink(os.path.join(dp, fn))
        for m in self.pop.msgs:
            if m.id in ids:
                p = os.path.join(root, m.rel)
                with open(p, 'wb') as fh:
                    fh.write(m.data)
                os.utime(p, ns=(mtime_of(m.id), mtime_of(m.id)))
        self.scen.initial = proc.snapshot(root, skip=('conf',))

    def run(self, ids, want_trace=False):
        self.fill(ids)
        s = self.scen
        s.args = ['-d']
        d = s.run(trace=False)
        s.args = []
        r = s.run(trace=want_trace)
        return Obs(self.pop, ids, s, d, r, visit_chain(self.pop, s, r) if want_trace else None)

    def cleanup(self):
        import shutil
        shutil.rmtree(self.scen.root, ignore_errors=True)


def show(x):
    if isinstance(x, bytes):
        return repr(x[:300]) + ('... (%d bytes)' % len(x) if len(x) > 300 else '')
    if isinstance(x, dict):
        return {k: show(v) for k, v in x.items()}
    if isinstance(x, list):
        return [show(v) for v in x]
    return x


def compare(pop, whole, alone, empty):
    """-> list of problems (strings / dicts) of one population."""
    probs = []
    for m in pop.msgs:
        a, b = whole.per[m.id], alone[m.id].per[m.id]
        for key, what in (('copies', 'where the message is after the run (maildir, subdirectory, flags, name, content, modification time)'),
                          ('commands', 'what the commands run for the message were given (argv, stdin, descriptors)'),
                          ('dry', 'the lines -d prints for the message')):
            if a[key] != b[key]:
                probs.append({'message': m.rel, 'role': m.tag, 'differs': what, 'in_the_run_over_the_whole_population': show(a[key]),
                              'in_the_run_on_this_message_alone': show(b[key])})
    # commands that name no message (empty input, no identifying argument): the same records, as a multiset
    key = lambda rec: repr(sorted(rec.items()))
    extra, missing = msub([key(x) for x in whole.loose], [key(x) for m in pop.msgs for x in alone[m.id].loose])
    if extra or missing:
        probs.append({'differs': 'commands whose input names no message', 'only_in_the_run_over_the_whole_population': extra[:4],
                      'only_in_the_runs_on_single_messages': missing[:4]})
    # exit status
    for k, mode in ((0, '-d'), (1, 'real run')):
        sts = [alone[m.id].status[k] for m in pop.msgs] + [empty.status[k]]
        want = max(s if isinstance(s, int) else 999 for s in sts)
        if whole.status[k] != want:
            probs.append('%s: exit status %r over the whole population; the runs on each message alone give %r, on the empty maildirs %r'
                         % (mode, whole.status[k], sts[:-1], sts[-1]))
    # diagnostics
    for mode in ('real', 'dry'):
        own, _ = msub(whole.diag[mode], empty.diag[mode])
        exp = []
        for m in pop.msgs:
            e, _ = msub(alone[m.id].diag[mode], empty.diag[mode])
            exp += e
        extra, missing = msub(own, exp)
        if extra or missing:
            probs.append({'differs': 'diagnostics of the %s' % ('real run' if mode == 'real' else '-d run'),
                          'only_in_the_run_over_the_whole_population': [x.decode('latin-1')[:300] for x in extra[:6]],
                          'only_in_the_runs_on_single_messages': [x.decode('latin-1')[:300] for x in missing[:6]]})
    for o in whole.other:
        probs.append('run over the whole population: ' + o)
    for m in pop.msgs:
        for o in alone[m.id].other:
            probs.append('run on %s alone: %s' % (m.rel, o))
    return probs


def check_pop(tools, pop):
    ids = [m.id for m in pop.msgs]
    box = Sandbox(tools, pop)
    try:
        whole = box.run(set(ids))
        alone = {i: box.run({i}, want_trace=True) for i in ids}
        empty = box.run(set())
    finally:
        box.cleanup()
    probs = compare(pop, whole, alone, empty)
    classes = sorted(set(c for c in (revisit_class(alone[i].visits) for i in ids) if c))
    matched = [i for i in ids if alone[i].per[i]['dry']]
    return {'pop': pop, 'problems': probs, 'revisit': classes, 'k': len(ids),
            'order_as_intended': whole.dry_order == [i for i in ids if i in set(whole.dry_order)],
            'acted_on': len(matched), 'commands': sum(len(alone[i].per[i]['commands']) + len(alone[i].loose) for i in ids),
            'errors': sum(1 for i in ids if alone[i].status[1] not in (0,)),
            'explained': sum(1 for i in ids if any('^' in l for l in alone[i].per[i]['dry']))}


def stage(rep, tools, focus):
    """Run the populations planned for property `focus`; report every population with a per-message difference as a failing input."""
    import time
    t0 = time.time()
    rng = random.Random(rep.seed * 104729 + sum(map(ord, focus)))
    it = IsoTools(tools)
    pops = populations(focus, rep.tier, rng)
    with cf.ThreadPoolExecutor(min(8, vlib.NCPU)) as ex:
        results = list(ex.map(lambda p: check_pop(it, p), pops))
    st = {'populations': len(results), 'runs_of_the_real_binary': sum(2 * (r['k'] + 2) for r in results), 'by_family': {}, 'by_size': {},
          'messages_acted_on': sum(r['acted_on'] for r in results), 'commands_compared': sum(r['commands'] for r in results),
          'messages_with_marker_lines': sum(r['explained'] for r in results), 'messages_that_are_an_error': sum(r['errors'] for r in results),
          'populations_with_a_revisited_message': {}, 'order_not_as_intended': sum(1 for r in results if not r['order_as_intended']),
          'failing': 0}
    nrep = {}
    for r in results:
        p = r['pop']
        st['by_family'][p.family] = st['by_family'].get(p.family, 0) + 1
        st['by_size'][r['k']] = st['by_size'].get(r['k'], 0) + 1
        for c in r['revisit']:
            st['populations_with_a_revisited_message'][c] = st['populations_with_a_revisited_message'].get(c, 0) + 1
        if r['problems']:
            st['failing'] += 1
            nrep[p.family] = nrep.get(p.family, 0) + 1
            if nrep[p.family] <= MAXREPORT:
                rep.finding('unlisted', dict(p.readable(), stage='isolation', checked_for=focus,
                                             what=['the outcome for a message depends on the other messages processed in the same run'] + r['problems'][:6],
                                             revisited=r['revisit'],
                                             reproduce='sandbox: maildirs %s (new/cur/tmp each) with the files above; pinned by the shim: time 1790000000, pid 4242, host "host", '
                                                       'arc4random 7, sorted readdir; mdsort -f conf [-d] once with all files and once with each file alone'
                                                       % ', '.join(p.dirs),
                                             replay_cmd='python3 tools/check.py %s --replay <this file>' % rep.prop,
                                             replay={'conf': p.conf, 'dirs': p.dirs, 'walk': p.walk, 'family': p.family,
                                                     'msgs': [[m.id, m.md, m.sub, m.name, m.data.hex(), m.tag] for m in p.msgs]}))
    st['wall_s'] = round(time.time() - t0, 1)
    st['rule'] = ('%d populations of 2-6 messages (%s): the real binary once over the whole population, once per message alone and once on the empty '
                  'maildirs, each with -d and for real, under the shim; per message: place, flags, name (unique part blanked), content, '
                  'modification time, the helper\'s records of its commands, its -d lines; per run: exit status = maximum, diagnostics as '
                  'multisets; every order for <= 3 messages' % (len(results), ', '.join('%s %d' % kv for kv in sorted(st['by_family'].items()))))
    return st


def replay_file(rep, path):
    """For the replay functions of the property checks: handles a replay file written by this stage (-> True)."""
    import json
    j = json.load(open(path))
    if j.get('stage') != 'isolation':
        return False
    sc = vlib.Scratch()
    vlib.lean_gate(rep, rep.prop, sc, [])
    res = replay(proc.Tools(sc), j)
    if res['problems']:
        rep.finding('unlisted', dict(res['pop'].readable(), stage='isolation', what=res['problems'][:6], replayed=path))
    rep.coverage.update({'evaluations': 2 * (res['k'] + 2), 'distinct_nontrivial': res['k']})
    return True


def replay(tools, j):
    """Re-run the population of a replay file and print the differences."""
    import json
    rp = j.get('replay') or {}
    pop = Pop(rp['family'], rp['conf'], rp['dirs'], rp['walk'], [Msg(i, md, sub, name, bytes.fromhex(data), tag) for i, md, sub, name, data, tag in rp['msgs']])
    res = check_pop(IsoTools(tools), pop)
    print(json.dumps({'problems': res['problems'], 'revisit': res['revisit']}, indent=1, default=str)[:6000])
    return res
