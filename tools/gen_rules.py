"""Generator of rule trees (mdsort.conf grammar) with messages that force the matchers.

A tree is rendered to configuration text for the real parser; the structure the
model evaluates is taken back from the parser's own dump (harness), with the
pattern sources (which mdsort does not keep) filled in from `patterns`, the list of
(source, flags) in textual order.
"""

ATOMS = 6   # header X-0 .. X-5 carry the truth value "1"/"0"

# Programs of `command` conditions.  `true` / `false` are real; a name `vstatus:...` is an injected outcome of the unit harness
# (harness/unit/h_expr.c: the real exec() of util.c forks and waits, the child ends as the name says; the model's command oracle maps
# the same outcome through Model.execStatus): exit statuses around the boundaries of exec()'s mapping (0, 1, 126 | 127 | 128, 129, 200,
# 255), death by a signal, and - as error sources - a program that cannot be executed, exit 127, fork / waitpid failing.
COMMANDS_OK = ['true', 'false', 'true', 'false', 'vstatus:exit:0', 'vstatus:exit:1', 'vstatus:exit:126', 'vstatus:exit:128',
               'vstatus:exit:129', 'vstatus:exit:200', 'vstatus:exit:255', 'vstatus:signal:15', 'vstatus:signal:9', 'vstatus:signal:11']
COMMANDS_ERR = COMMANDS_OK + ['/nonexistent/cmd', '/nonexistent/cmd', 'vstatus:exit:127', 'vstatus:errno:EACCES', 'vstatus:errno:ENOENT',
                              'vstatus:errno:ENOTDIR', 'vstatus:fork', 'vstatus:waitpid']


class Gen:
    def __init__(self, rng, depth=2, rules_max=3, interp=True, attachments=True, errors=True, dates=True, ctl_anywhere=False):
        self.rng = rng
        # pass / break at any position of an action list and repeated (the grammar accepts every placement; see actions())
        self.ctl_anywhere = ctl_anywhere
        self.depth = depth
        self.rules_max = rules_max
        self.interp = interp
        self.attachments = attachments
        self.errors = errors
        self.dates = dates
        self.patterns = []
        self.uses = set()

    # ---- conditions -----------------------------------------------------
    def pat(self, src, flags=''):
        self.patterns.append((src, flags))
        delim = '/'
        if '/' in src:
            delim = '@' if '@' not in src else '|'
        return delim + src + delim + flags

    def atom(self, in_att=False):
        r = self.rng
        k = r.random()
        if k < 0.55:
            i = r.randrange(ATOMS)
            self.uses.add(i)
            return 'header "X-%d" %s' % (i, self.pat('^1$'))
        if k < 0.62:
            return 'all'
        if k < 0.68:
            return r.choice(['new', 'old'])
        if k < 0.76 and self.interp:
            w = r.randrange(5)
            if w == 0:
                return 'header "To" ' + self.pat('(u[a-z]*)@([a-z.]*)', r.choice(['', 'i', 'l', 'u', 'iu']))
            if w == 1:
                return 'header { "Cc" "To" } ' + self.pat('([a-z]+)@', r.choice(['', 'i']))
            if w == 2:
                return 'header "Subject" ' + self.pat('(h)(x)?(.*)')
            if w == 3:
                return 'body ' + self.pat('(b[a-z]+)', r.choice(['', 'u']))
            return 'body ' + self.pat('^li(ne)([0-9])$')
        if k < 0.80:
            return 'isdirectory "~/%s"' % r.choice(['yes', 'no'])
        if k < 0.86:
            return 'command "%s"' % r.choice(COMMANDS_ERR if self.errors else COMMANDS_OK)
        if k < 0.91 and self.dates:
            unit = r.choice(['seconds', 'sec', 'minutes', 'hours', 'days', 'w', 'mo', 'y'])
            cap = {'s': 100000, 'm': 100000, 'h': 100000, 'd': 40000, 'w': 7000, 'y': 136}[unit[0]] if unit != 'mo' else 1600
            return 'date %s %d %s' % (r.choice(['<', '>']), min(cap, r.choice([0, 1, 30, 59, 60, 61, 3600, 100000])), unit)
        if k < 0.96 and self.attachments and not in_att:
            return 'attachment ' + self.cond(1, in_att=True)
        return 'body ' + self.pat(r.choice(['hello', 'xyz', '^$', 'p[0-9]']))

    def cond(self, depth, in_att=False):
        r = self.rng
        if depth <= 0 or r.random() < 0.45:
            a = self.atom(in_att)
            return ('! ' + a) if r.random() < 0.15 else a
        k = r.random()
        if k < 0.4:
            return '%s and %s' % (self.cond(depth - 1, in_att), self.cond(depth - 1, in_att))
        if k < 0.8:
            return '%s or %s' % (self.cond(depth - 1, in_att), self.cond(depth - 1, in_att))
        if k < 0.9:
            return '! (%s)' % self.cond(depth - 1, in_att)
        return '(%s)' % self.cond(depth - 1, in_att)

    # ---- actions --------------------------------------------------------
    def template(self):
        r = self.rng
        parts = []
        for _ in range(r.randrange(1, 4)):
            parts.append(r.choice(['\\\\0', '\\\\1', '\\\\2', '\\\\1.1', '\\\\0.0', '\\\\1.0', '\\\\3', '\\\\9', '${path}', 'x', '-', '.',
                                   '\\\\1\\\\.5', 'lit', '\\\\\\\\', '$', '{', '${nope}', '\\\\2147483648', '\\\\1.']))
        return ''.join(parts)

    def action(self):
        r = self.rng
        k = r.random()
        t = self.template() if (self.interp and r.random() < 0.4) else r.choice(['a', 'b', 'c'])
        if k < 0.30:
            return 'move "~/dst/%s"' % t
        if k < 0.42:
            return 'flag %snew' % r.choice(['', '!'])
        if k < 0.48:
            return 'flags "%s"' % r.choice(['F', 'S', 'FR', 'a', 'F1' if self.errors else 'T'])
        if k < 0.66:
            return 'label %s' % r.choice(['"%s"' % t, '{ "%s" "two" }' % t])
        if k < 0.76:
            return 'add-header "%s" "%s"' % (r.choice(['X-New', 'X-Label', 'Subject', 'X-0']), t)
        if k < 0.86:
            return 'exec %s%s' % (r.choice(['', 'stdin ', 'stdin body ']), r.choice(['"true"', '{ "echo" "%s" }' % t]))
        if k < 0.92 and self.attachments:
            return 'attachment { match %s exec %s"true" }' % (self.cond(0, in_att=True), r.choice(['', 'stdin ']))
        return 'label "l%d"' % r.randrange(9)

    def actions(self):
        r = self.rng
        if r.random() < 0.06:
            return 'discard'
        acts = [self.action() for _ in range(r.choice([1, 1, 2, 2, 3]))]
        k = r.random()
        if k < 0.25:
            acts.append('pass')
        elif k < 0.35:
            acts.append('break')
        elif k < 0.38:
            acts.insert(0, r.choice(['pass', 'break']))     # control action first
        elif self.ctl_anywhere and k < 0.60:
            # pass / break anywhere, one to three of them.  Inside the domain of C03_eval_refines_spec(_att)_wide (Proofs.ctlPlaced):
            # break anywhere and repeated with every attachment block before the first break, pass repeated at the end.  The
            # three named classes outside it are produced too: something after a pass (AFTERPASS: ignored by the evaluator), an
            # attachment block after a break (ATTAFTERBREAK), pass and break in one list (MIXED: no documented meaning).
            for _ in range(r.choice([1, 1, 2, 3])):
                acts.insert(r.randrange(len(acts) + 1), r.choice(['break', 'break', 'break', 'pass']))
        return ' '.join(acts)

    def rule(self, depth):
        r = self.rng
        c = self.cond(r.choice([0, 1, 1, 2]))
        if depth > 0 and r.random() < 0.3:
            return 'match %s {\n%s}' % (c, self.block(depth - 1))
        return 'match %s %s' % (c, self.actions())

    def block(self, depth):
        n = self.rng.randrange(1, self.rules_max + 1)
        return ''.join('\t%s\n' % self.rule(depth) for _ in range(n))

    def config(self):
        self.patterns = []
        self.uses = set()
        body = self.block(self.depth)
        return 'maildir "~/md" {\n%s}\n' % body


def _body(ctype, kind):
    return {'err': 'ERROR', 'yes': 'MATCH', 'no': 'NOMATCH'}[kind]


def _text_and_body(ctype, kind):
    return _body(ctype, kind) if b'text' in ctype else 'NOMATCH'         # and: the body is not looked at when the header does not match


def _body_or_html(ctype, kind):
    b = _body(ctype, kind)
    return b if b != 'NOMATCH' else ('MATCH' if b'html' in ctype else 'NOMATCH')


def _html_or_body(ctype, kind):
    return 'MATCH' if b'html' in ctype else _body(ctype, kind)           # or: the body is not looked at when the header matches


ATT_FORMS = [
    # (rule text, patterns in textual order, 'block' | 'cond' | 'negcond', condition on one part, a later rule matches everything)
    ('\tmatch all attachment { match body /needle/ exec "true" } move "~/dst/a"\n', [('needle', '')], 'block', _body, False),
    ('\tmatch all attachment { match header "Content-Type" /text/ and body /needle/ exec stdin "true" }\n\tmatch all label "l1"\n',
     [('text', ''), ('needle', '')], 'block', _text_and_body, True),
    ('\tmatch all attachment { match body /needle/ or header "Content-Type" /html/ exec "true" } label "l2"\n', [('needle', ''), ('html', '')],
     'block', _body_or_html, False),
    ('\tmatch attachment body /needle/ move "~/dst/a"\n\tmatch all label "l1"\n', [('needle', '')], 'cond', _body, True),
    ('\tmatch attachment ( header "Content-Type" /html/ or body /needle/ ) move "~/dst/a"\n', [('html', ''), ('needle', '')], 'cond', _html_or_body, False),
    ('\tmatch ! attachment body /needle/ label "l3"\n\tmatch all move "~/dst/b"\n', [('needle', '')], 'negcond', _body, True),
    ('\tmatch all attachment { match body /needle/ exec "true" } pass\n\tmatch all move "~/dst/c"\n', [('needle', '')], 'block', _body, True),
]


def attachment_expectation(form, parts):
    """Documented outcome (result, number of exec actions or None) of one ATT_FORMS configuration on parts [(content type, kind)]:
    an attachment { } block is evaluated for EVERY part - an error in any part is an error of the evaluation, it matches iff some part
    matched and selects its exec once per matching part; an attachment condition holds iff some part satisfies it - the parts are tried
    in order and the first match or error decides."""
    rule, pats, shape, fn, later = form
    vals = [fn(ct, k) for ct, k in parts]
    if shape == 'block':
        res = 'ERROR' if 'ERROR' in vals else ('MATCH' if 'MATCH' in vals else 'NOMATCH')
        nexec = vals.count('MATCH') if res == 'MATCH' else 0
    else:
        res = next((v for v in vals if v != 'NOMATCH'), 'NOMATCH')
        nexec = 0
        if shape == 'negcond' and res != 'ERROR':
            res = 'MATCH' if res == 'NOMATCH' else 'NOMATCH'
    if res == 'ERROR':
        return 'ERROR', None
    if res == 'NOMATCH' and later:
        return 'MATCH', 0
    return res, (nexec if res == 'MATCH' else None)


def attachment_error_cases(rng, n):
    """n x (config, patterns, message, part kinds, documented (result, number of exec actions)): attachment { ... } action blocks and
    attachment conditions over multipart messages in which ONE part cannot be evaluated (undecodable base64 body), placed before,
    between or after parts that match / do not match - the error of one part must not be forgotten because a later part matches, nor
    be raised when an earlier part already decided."""
    import base64
    out = []
    for _ in range(n):
        nparts = rng.randrange(2, 5)
        bad = rng.choice([0, 0, rng.randrange(nparts)])
        parts, kinds, ctypes = [], [], []
        for i in range(nparts):
            k = 'err' if i == bad else rng.choice(['yes', 'yes', 'no'])
            ctype = rng.choice([b'text/plain', b'text/html', b'application/pdf'])
            ctypes.append(ctype)
            if k == 'err':
                p = b'Content-Type: ' + ctype + b'\nContent-Transfer-Encoding: base64\n\n' + rng.choice([b'***', b'%%%not-base64%%%', b'!!!! no !!!!']) + b'\n'
            elif k == 'yes':
                body = b'the needle %d' % i
                if rng.random() < 0.4:
                    p = b'Content-Type: ' + ctype + b'\nContent-Transfer-Encoding: base64\n\n' + base64.b64encode(body) + b'\n'
                else:
                    p = b'Content-Type: ' + ctype + b'\n\n' + body + b'\n'
            else:
                p = b'Content-Type: ' + ctype + b'\n\nnothing here\n'
            parts.append(p)
            kinds.append(k)
        msg = b'To: a@b\nSubject: parts\nContent-Type: multipart/mixed; boundary="b"\n\n' + b''.join(b'--b\n' + p for p in parts) + b'--b--\n'
        form = rng.choice(ATT_FORMS)
        out.append(('maildir "~/md" {\n%s}\n' % form[0], list(form[1]), msg, kinds, attachment_expectation(form, list(zip(ctypes, kinds)))))
    return out


def message(rng, truth, mime=False, date=None):
    """A message whose headers X-i carry the valuation; optional MIME parts and Date."""
    hs = [b'X-%d: %d' % (i, 1 if truth[i] else 0) for i in range(len(truth))]
    hs.append(b'To: ' + rng.choice([b'user@example.com', b'User@Example.COM', b'admin@site.org', b'x']))
    if rng.random() < 0.5:
        hs.append(b'Cc: ' + rng.choice([b'carol@example.com', b'']))
    hs.append(b'Subject: ' + rng.choice([b'hello', b'hx', b'h', b'\\1 ${path}', b'=?utf-8?Q?h=C3=A9?=']))
    if rng.random() < 0.4:
        hs.append(b'X-Label: ' + rng.choice([b'old', b'\\1', b'${path}', b'a b', b'']))
    if date is not None:
        hs.append(b'Date: ' + date)
    rng.shuffle(hs)
    if mime:
        n = rng.choice([1, 2, 3])
        parts = []
        for i in range(n):
            ph = [b'Content-Type: ' + rng.choice([b'text/plain', b'text/html', b'application/pdf'])]
            ph += [b'X-%d: %d' % (j, rng.randrange(2)) for j in range(len(truth))]
            if rng.random() < 0.3:
                ph.append(b'Content-Transfer-Encoding: base64')
                pb = rng.choice([b'aGVsbG8K', b'cDcK', b'***'])
            else:
                pb = rng.choice([b'hello', b'p%d' % i, b'bird line1'])
            parts.append(b'\n'.join(ph) + b'\n\n' + pb + b'\n')
        if rng.random() < 0.12:
            # a boundary only an RFC 2047 encoded word can produce (newline, CR, "--"): findboundary compares bytes and resumes after
            # the text it compared; the parts between delimiter look-alikes (the PG2 witness shape among them)
            import gen_msg
            bnd = rng.choice([b'b\n', b'b\n', b'b\n--b', b'b\nb', b'\n', b'b\r', b'--', b'b--'])
            hs.append(b'Content-Type: multipart/mixed; boundary="' + gen_msg.encode_boundary(rng, bnd) + b'"')
            body = b''
            for p in parts:
                body += rng.choice([b'--' + bnd + b'\n', b'--' + bnd + b'\n', b'--' + bnd + b'\n--' + bnd + b'\n\n', b'--' + bnd, b'--' + bnd + b'--' + bnd + b'\n']) + p
            body += rng.choice([b'--' + bnd + b'--\n', b'--' + bnd + b'--\n', b'--' + bnd + b'\n--' + bnd + b'--\n', b''])
        else:
            hs.append(b'Content-Type: multipart/mixed; boundary="b"')
            body = b''.join(b'--b\n' + p for p in parts) + (b'--b--\n' if rng.random() < 0.93 else b'')
    else:
        body = rng.choice([b'hello\n', b'bird\nline1\nline2\n', b'', b'xyz\n', b'plain body\n'])
        if rng.random() < 0.1:
            hs.append(b'Content-Transfer-Encoding: base64')
            body = rng.choice([b'aGVsbG8K\n', b'YmlyZAo=\n', b'%%%\n'])
    return b'\n'.join(hs) + b'\n\n' + body
