"""C15, date text x locale family: what stands in a Date header besides the date, in the locales mdsort may run under.

A Date header is `[day-name ","] day month year hour ":" minute [":" second] zone` followed by whatever the sending program put
there: nothing, blanks, a comment naming the zone - in ASCII, in UTF-8, in the sender's 8-bit code page (Latin-1, KOI8-R,
Shift_JIS: byte sequences that are not UTF-8), as an RFC 2047 encoded word, nested, with control bytes - and the field may be
folded at any blank.  mdsort selects the character type locale of its environment (`setlocale(LC_CTYPE, "")`), and the evaluator
passes the date string through the platform's strptime and regexec.  The property does not care: the condition is decided by
the age alone, i.e. `now - (instant denoted by date, time and numeric zone)`.

The oracle (`read_date`) is a reading of the header written here from RFC 5322, independent of time.c: unfold, day/month/year,
time of day, numeric zone or GMT/UT/UTC; what follows the zone is ignored.  Every text of the family carries the class the
family expects:

  'age'      one of the three accepted layouts with a zone of the property's quantifier: the condition is `age CMP threshold`,
             nothing else; no diagnostic, exit status 0
  'refuse'   not a date (no zone, not a layout, bytes inside the date proper): the condition is an error - the message is left
             where it is, a diagnostic is printed, the exit status is not 0
  'observe'  dates outside the property's quantifier (obsolete RFC 5322 forms, alphabetic zones, a fold directly after the
             colon): no verdict, what mdsort does is recorded in the evidence

Levels: `time_parse` (harness op `tparse`, vlib.Differential against model and specification), the real parser and evaluator
in-process (harness op `eval` against the model `M eval`), the real binary in a real run and under -d; every level under
LC_ALL=C and LC_ALL=C.utf8, both sides of a comparison under the same LC_ALL.
"""
import base64
import calendar
import os
import re
import time
import concurrent.futures as cf
import vlib
import proc
import mbtext
import evalcommon as ec
import localeproc as lp

LOCALES = mbtext.LOCALES
NOW = int(proc.PIN['VSHIM_TIME'])
FAMILY = 'date text x locale'
NJOBS = min(4, vlib.NCPU)

MONTHS = ['jan', 'feb', 'mar', 'apr', 'may', 'jun', 'jul', 'aug', 'sep', 'oct', 'nov', 'dec']
DAYS = ['mon', 'tue', 'wed', 'thu', 'fri', 'sat', 'sun']
LAYOUTS = ['%a, %d %b %Y %H:%M:%S', '%a, %d %b %Y %H:%M', '%d %b %Y %H:%M:%S']

# --------------------------------------------------------------------------
# the oracle: an independent reading of the field body
# --------------------------------------------------------------------------

_DT = re.compile(rb'(?:(' + '|'.join(DAYS).encode() + rb'),[ \t]*)?(\d{1,2})[ \t]+(' + '|'.join(MONTHS).encode() +
                 rb')[ \t]+(\d{4})[ \t]+(\d{1,2}):(\d{2})(?::(\d{2}))?', re.I)
_ZONE = re.compile(rb'[ \t]*(?:([+-])(\d{2})(\d{2})(?!\d)|(GMT|UTC|UT)(?![0-9A-Za-z]))')


def unfold(body):
    """RFC 5322 unfolding: a line break in front of a blank disappears, the blank stays."""
    return re.sub(rb'\r?\n(?=[ \t])', b'', body)


def read_date(body):
    """body: the bytes between `Date:` and the end of the field.  -> ('instant', t) | ('refuse', why) | ('unjudged', why)"""
    s = unfold(body).lstrip(b' \t')
    m = _DT.match(s)
    if not m:
        return 'refuse', 'does not begin with day, month, year and time of day'
    dayname, dd, mon, yyyy, hh, mi, ss = m.groups()
    if dayname is None and ss is None:
        return 'unjudged', 'neither day name nor seconds: not one of the three accepted layouts'
    dd, yyyy, hh, mi, sec = int(dd), int(yyyy), int(hh), int(mi), int(ss or b'0')
    month = MONTHS.index(mon.decode().lower()) + 1
    if not (1 <= dd <= calendar.monthrange(yyyy, month)[1] and hh <= 23 and mi <= 59 and sec <= 59):
        return 'unjudged', 'day, hour, minute or second out of range'
    if not 1969 <= yyyy <= 2038:        # instants 1970-2037; the local date of the first and last day may lie in the neighbouring year
        return 'unjudged', 'year outside 1970-2037'
    rest = s[m.end():]
    z = _ZONE.match(rest)
    if not z:
        if rest.strip(b' \t') == b'':
            return 'refuse', 'no zone'
        return 'unjudged', 'zone is neither a numeric offset nor GMT/UT/UTC'
    off = 0
    if z.group(1):
        zh, zm = int(z.group(2)), int(z.group(3))
        if zh > 23 or zm > 59:
            return 'unjudged', 'numeric zone outside -2359..+2359'
        off = (3600 * zh + 60 * zm) * (1 if z.group(1) == b'+' else -1)
    return 'instant', calendar.timegm((yyyy, month, dd, hh, mi, sec)) - off


def verdict(t, cmp_, thr):
    age = NOW - t
    return age > thr if cmp_ == '>' else age < thr


# --------------------------------------------------------------------------
# the texts
# --------------------------------------------------------------------------

U = lambda s: s.encode('utf-8')
L1 = lambda s: s.encode('latin-1')


def qword(b, charset=b'iso-8859-1'):
    return b'=?' + charset + b'?q?' + b''.join((b'=%02X' % c) if (c >= 127 or c < 33 or c in b'=?_()') else bytes([c]) for c in b) + b'?='


def bword(b, charset=b'utf-8'):
    return b'=?' + charset + b'?B?' + base64.b64encode(b) + b'?='


# what follows the zone: (label, bytes)
TAILS_ASCII = [
    ('nothing', b''), ('comment', b' (CEST)'), ('long-comment', b' (Central European Summer Time)'), ('comment-attached', b'(CEST)'),
    ('trailing-blank', b' '), ('trailing-blanks', b'   '), ('trailing-tab', b' \t'), ('comment-then-blanks', b' (CEST)  \t'),
    ('nested-comment', b' (CEST (Central European (Summer) Time))'), ('deep-nesting', b' ((((x))))'), ('quoted-pairs', b' (a \\) b \\( c \\\\)'),
    ('unbalanced-open', b' (CEST'), ('unbalanced-close', b' CEST)'), ('two-comments', b' (CEST) (summer time)'), ('empty-comment', b' ()'),
    ('word-after-zone', b' CEST'), ('regex-metacharacters', b' (^.*$ [a-z]+ \\1 {2})'), ('long-tail', b' (' + b'zone ' * 60 + b')'),
]
TAILS_UTF8 = [
    ('utf8-comment', U(' (Mitteleuropäische Sommerzeit)')), ('utf8-cjk', U(' (中欧夏令时间)')),
    ('utf8-french', U(' (heure d’été d’Europe centrale)')), ('utf8-4byte', U(' (\U0001f552 CEST)')),
    ('utf8-combining', U(' (e\u0301te\u0301)')), ('utf8-nbsp-before-comment', U('\u00a0(CEST)')), ('utf8-after-comment', U(' (CEST) ä')),
    ('utf8-nested', U(' (MESZ (Mitteleuropäische (Sommer) Zeit))')), ('utf8-attached', U('ä')), ('utf8-cyrillic', U(' (Москва)')),
]
TAILS_8BIT = [
    ('latin1-comment', L1(' (Mitteleuropäische Sommerzeit)')), ('latin1-french', L1(" (heure d'été d'Europe centrale)")),
    ('latin1-portuguese', L1(' (Hora de verão da Europa Central)')), ('latin1-one-byte', b' (\xe4)'), ('latin1-before-comment', b' \xe4 (CEST)'),
    ('latin1-after-comment', b' (CEST) \xe4'), ('latin1-attached', b'\xe4'), ('latin1-attached-to-comment', b' (CEST)\xff'),
    ('latin1-nbsp-before-comment', b'\xa0(CEST)'), ('latin1-nested', L1(' (MESZ (Mitteleuropäische (Sommer) Zeit))')),
    ('latin1-last-byte', b' (MESZ) \xe4'), ('latin1-only-byte', b' \xe9'), ('shift-jis', b' (\x93\x8c\x8b\x9e (\x95W\x8f\x80\x8e\x9e))'),
    ('koi8-r', b' (\xed\xcf\xd3\xcb\xd7\xc1)'), ('cp1252-euro', b' (\x80 zone)'), ('gb2312', b' (\xd6\xd0\xb9\xfa\xb1\xea\xd7\xbc\xca\xb1\xbc\xe4)'),
] + [('invalid-utf8-%d' % i, b' (' + b + b')') for i, b in enumerate(mbtext.INVALID)]
TAILS_CONTROL = [
    ('crlf-line-end', b'\r'), ('crlf-after-comment', b' (CEST)\r'), ('control-soh', b' (\x01)'), ('control-del', b' (a\x7fb)'),
    ('control-vt-ff', b' (a\x0bb\x0cc)'), ('iso-2022-jp', b' (\x1b$BF|K\\\x1b(B)'), ('control-backspace', b' (a\x08b)'), ('vt-attached', b'\x0b'),
    ('bell-and-latin1', b' (\x07\xe4\x7f)'), ('c1-control-utf8', U(' (a\u0085b)')),
]
TAILS_ENCODED = [
    ('encoded-word-latin1-q', b' (' + qword(L1('Mitteleuropäische')) + b' Sommerzeit)'), ('encoded-word-utf8-b', b' (' + bword(U('Mitteleuropäische Sommerzeit')) + b')'),
    ('encoded-word-latin1-b', b' (' + bword(L1('heure dété'), b'ISO-8859-1') + b')'), ('encoded-word-one-byte', b' (' + qword(b'\xe4', b'utf-8') + b')'),
    ('encoded-word-koi8', b' (' + bword(b'\xed\xcf\xd3\xcb\xd7\xc1', b'koi8-r') + b')'), ('encoded-words-adjacent', b' (' + qword(b'\xe4') + b' ' + bword(b'\xc3') + b')'),
]
TAILS_FOLDED = [
    ('fold-before-comment', b'\n (CEST)'), ('fold-tab-before-latin1-comment', b'\n\t' + L1('(Mitteleuropäische Sommerzeit)')),
    ('fold-inside-latin1-comment', L1(' (Mitteleuropäische\n Sommerzeit)')), ('folds-inside-comment', b' (a\n\tb\n c)'),
    ('fold-inside-utf8-comment', U(' (Mitteleuropäische\n\tSommerzeit)')), ('fold-then-blanks', b'\n   '), ('crlf-fold-before-comment', b'\r\n (CEST)\r'),
]
TAILS = TAILS_ASCII + TAILS_UTF8 + TAILS_8BIT + TAILS_CONTROL + TAILS_ENCODED + TAILS_FOLDED

# blanks between `Date:` and the value (the fold directly after the colon is in OBSERVE)
HEADS = [('one-blank', b' '), ('no-blank', b''), ('three-blanks', b'   '), ('tab', b'\t'), ('blank-tab-blank', b' \t ')]

# numeric zones of the quantifier and the three names
ZONES = [(0, b'+0000'), (0, b'-0000'), (7200, b'+0200'), (-18000, b'-0500'), (19800, b'+0530'), (-12600, b'-0330'), (45900, b'+1245'),
         (-39600, b'-1100'), (50400, b'+1400'), (86340, b'+2359'), (-86340, b'-2359'), (3600, b'+0100'), (0, b'GMT'), (0, b'UT'), (0, b'UTC')]


class DateText:
    __slots__ = ('label', 'body', 'cls', 'instant', 'why')

    def __init__(self, label, body, cls, instant=None, why=None):
        self.label, self.body, self.cls, self.instant, self.why = label, body, cls, instant, why

    def message(self, k):
        return b'To: user%d@example.com\nX-Id: %d\nDate:' % (k, k) + self.body + b'\nSubject: message %d\n\nbody of message %d\n' % (k, k)

    def value(self):
        """What time_parse is handed for this field when nothing is folded with a TAB: unfolded, leading blanks skipped."""
        return unfold(self.body).lstrip(b' \t')

    def readable(self):
        return {'date_text': self.label, 'date_field': repr(b'Date:' + self.body), 'class': self.cls,
                **({'instant': self.instant, 'true_age_seconds': NOW - self.instant} if self.instant is not None else {}),
                **({'why': self.why} if self.why else {})}


def tokens(t, off, layout, case=None):
    s = time.strftime(layout, time.gmtime(t + off))
    if case == 'lower':
        s = s.lower()
    elif case == 'upper':
        s = s.upper()
    return s.encode().split(b' ')


def join(toks, seps):
    out = toks[0]
    for tk, sp in zip(toks[1:], seps):
        out += sp + tk
    return out


def layouts_for(t):
    return LAYOUTS if t % 60 == 0 else [LAYOUTS[0], LAYOUTS[2]]


def texts_for(rng, t, tier='quick'):
    """The family for one instant: every tail once (zone, layout, blanks chosen by `rng`), then the shapes of the date proper -
    blanks, folds at every gap with blank / TAB continuation, letter case, one-digit day - with a few tails each."""
    out = []

    def base(off, ztxt, layout=None, seps=None, zsep=b' ', case=None, head=b' ', strip_zero=False):
        layout = layout or rng.choice(layouts_for(t))
        toks = tokens(t, off, layout, case)
        if strip_zero:
            toks = [tk[1:] if (tk[:1] == b'0' and tk[1:2].isdigit() and len(tk) == 2) else tk for tk in toks]
        return head + join(toks, seps or [b' '] * (len(toks) - 1)) + zsep + ztxt

    for label, tail in TAILS:
        off, ztxt = rng.choice(ZONES)
        head = rng.choice(HEADS)[1] if rng.random() < 0.3 else b' '
        out.append(DateText(label, base(off, ztxt, head=head, zsep=rng.choice([b' ', b' ', b'  ', b''])) + tail, 'age', t))
    some_tails = [b'', b' (CEST)', L1(' (Mitteleuropäische Sommerzeit)'), U(' (Mitteleuropäische Sommerzeit)'), b' (\xe4)\r']
    pick_tail = lambda: rng.choice(some_tails)
    for hl, head in HEADS:
        off, ztxt = rng.choice(ZONES)
        out.append(DateText('head:' + hl, base(off, ztxt, head=head) + pick_tail(), 'age', t))
    for layout in layouts_for(t):
        n = len(layout.split(' ')) - 1
        for gl, gap in [('two-blanks', b'  '), ('tab', b'\t'), ('fold-blank', b'\n '), ('fold-tab', b'\n\t'), ('fold-blanks-tab', b'\n  \t'), ('crlf-fold', b'\r\n ')]:
            # (a CRLF fold in front of the zone is in observed_texts: the CR stays in front of the zone)
            for where in (range(n + 1) if (tier != 'quick' or gl.startswith('fold-')) else [rng.randrange(n + 1)]) if gl != 'crlf-fold' else [rng.randrange(n)]:
                off, ztxt = rng.choice(ZONES)
                seps = [b' '] * n
                zsep = b' '
                if where < n:
                    seps[where] = gap
                else:
                    zsep = gap
                out.append(DateText('gap:%s:%s:%d' % (layout.count(' '), gl, where), base(off, ztxt, layout=layout, seps=seps, zsep=zsep) + pick_tail(), 'age', t))
        off, ztxt = rng.choice(ZONES)
        out.append(DateText('every-gap-folded:%d' % n, base(off, ztxt, layout=layout, seps=[rng.choice([b'\n ', b'\n\t', b'\n \t '])for _ in range(n)], zsep=b'\n\t') + pick_tail(), 'age', t))
        for case in ('lower', 'upper'):
            off, ztxt = rng.choice(ZONES)
            out.append(DateText('case:%s:%d' % (case, n), base(off, ztxt, layout=layout, case=case) + pick_tail(), 'age', t))
        off, ztxt = rng.choice(ZONES)
        out.append(DateText('no-leading-zeros:%d' % n, base(off, ztxt, layout=layout, strip_zero=True) + pick_tail(), 'age', t))
    if b',' in tokens(t, 0, LAYOUTS[0])[0]:
        toks = tokens(t, 0, LAYOUTS[0])
        out.append(DateText('no-blank-after-comma', b' ' + toks[0] + join(toks[1:], [b' '] * (len(toks) - 2)) + b' +0000' + pick_tail(), 'age', t))
        wrong = DAYS[(DAYS.index(toks[0][:3].decode().lower()) + 1) % 7].capitalize().encode() + b','
        out.append(DateText('other-day-name', b' ' + join([wrong] + toks[1:], [b' '] * (len(toks) - 1)) + b' +0000' + pick_tail(), 'age', t))
    # every text must mean the instant it was built from - by the independent reading
    for d in out:
        got = read_date(d.body)
        if got != ('instant', t):
            raise vlib.CheckError('date text family: %r was built for the instant %d, the oracle reads %r' % (d.body, t, got))
    return out


def refused_texts():
    """Field bodies that are no date: the condition is an error whatever the comparison."""
    raw = [
        ('no-zone', b' Mon, 15 Jul 2019 12:00:00'), ('no-zone-trailing-blanks', b' Mon, 15 Jul 2019 12:00:00   '), ('no-zone-folded-blank', b' Mon, 15 Jul 2019 12:00:00\n '),
        ('empty', b''), ('blanks-only', b'   '), ('comment-only', b' (no date)'), ('words', b' yesterday afternoon'), ('iso-8601', b' 2019-07-15T12:00:00+02:00'),
        ('latin1-month', b' Mon, 15 M\xe4r 2019 12:00:00 +0100'), ('utf8-month', U(' Mon, 15 Mär 2019 12:00:00 +0100')), ('latin1-before-date', b' \xa0Mon, 15 Jul 2019 12:00:00 +0200'),
        ('latin1-day-name', b' S\xe1b, 13 Jul 2019 12:00:00 +0200'), ('byte-inside-year', b' Mon, 15 Jul 20\xe419 12:00:00 +0200'), ('byte-inside-time', b' Mon, 15 Jul 2019 12\xb700:00 +0200'),
        ('german-day-name', b' Mo, 15 Jul 2019 12:00:00 +0200'), ('unix-date', b' Mon Jul 15 12:00:00 2019'), ('numeric-month', b' Mon, 15 07 2019 12:00:00 +0200'),
        ('epoch-seconds', b' 1563184800'), ('control-inside-date', b' Mon, 15 Jul\x01 2019 12:00:00 +0200'),
    ]
    out = []
    for label, body in raw:
        got = read_date(body)
        if got[0] != 'refuse':
            raise vlib.CheckError('date text family: %r is meant to be no date, the oracle reads %r' % (body, got))
        out.append(DateText(label, body, 'refuse', None, got[1]))
    return out


def observed_texts():
    """Outside the property's quantifier: obsolete RFC 5322 syntax, zones that are neither numeric nor GMT/UT/UTC, a layout mdsort
    does not accept.  No verdict; what mdsort does is recorded (instant = what a full RFC 5322 reader would say, where there is one)."""
    T = calendar.timegm((2019, 7, 15, 10, 0, 0))
    return [DateText(l, b, 'observe', i, w) for l, b, i, w in [
        ('fold-directly-after-colon', b'\n Mon, 15 Jul 2019 12:00:00 +0200', T, 'RFC 5322 allows folding white space in front of the day name'),
        ('no-day-name-no-seconds', b' 15 Jul 2019 12:00 +0200', T, 'a valid RFC 5322 date; not one of the three accepted layouts'),
        ('comment-before-date', b' (sent) Mon, 15 Jul 2019 12:00:00 +0200', T, 'obsolete syntax: CFWS around the day name'),
        ('comment-inside-date', b' Mon, 15 Jul 2019 (x) 12:00:00 +0200', T, 'obsolete syntax: CFWS between the tokens'),
        ('comment-between-time-and-zone', b' Mon, 15 Jul 2019 12:00:00 (x) +0200', T, 'obsolete syntax: CFWS after the seconds'),
        ('two-digit-year', b' 15 Jul 19 12:00:00 +0200', T, 'obsolete syntax: obs-year'),
        ('zone-EDT', b' Mon, 15 Jul 2019 06:00:00 EDT', T, 'obsolete zone name (RFC 5322 4.3: EDT = -0400)'),
        ('zone-EST', b' Mon, 15 Jul 2019 05:00:00 EST', T, 'obsolete zone name (RFC 5322 4.3: EST = -0500)'),
        ('zone-PST', b' Mon, 15 Jul 2019 02:00:00 PST', T, 'obsolete zone name (RFC 5322 4.3: PST = -0800)'),
        ('military-zone', b' Mon, 15 Jul 2019 10:00:00 Z', T, 'obsolete zone name: RFC 5322 says to read it as -0000'),
        ('zone-hours-24', b' Mon, 15 Jul 2019 12:00:00 +2400', None, 'numeric zone outside -2359..+2359'),
        ('zone-minutes-60', b' Mon, 15 Jul 2019 12:00:00 +0060', None, 'numeric zone outside -2359..+2359'),
        ('byte-inside-zone', b' Mon, 15 Jul 2019 12:00:00 +02\xe400', None, 'not a zone'),
        ('byte-before-zone', b' Mon, 15 Jul 2019 12:00:00 \xe4+0200', None, 'not a zone'),
        ('crlf-fold-before-zone', b' Mon, 15 Jul 2019 12:00:00\r\n +0200\r', T, 'CRLF line ends and the field folded in front of the zone'),
        ('vertical-tab-before-zone', b' Mon, 15 Jul 2019 12:00:00 \x0b+0200', None, 'a control byte in front of the zone'),
        ('leap-second', b' Mon, 15 Jul 2019 12:00:60 +0200', T + 60, 'second 60'),
        ('full-names', b' Monday, 15 July 2019 12:00:00 +0200', T, 'not RFC 5322: full day and month names'),
    ]]


def group_instants(rng, tier):
    """Instants the messages of one group all denote.  (a) July 2019 (DST in the northern zones), whole hours before the pinned clock
    so that the age is a whole number of hours; seconds not zero.  (b) January 2025, seconds zero: all three layouts.  (c) 59 seconds
    before the pinned clock: local dates on both sides of midnight, ages next to zero."""
    g = [NOW - 3600 * 63004, calendar.timegm((2025, 1, 15, 8, 30, 0)), NOW - 59]
    if tier != 'quick':
        g += [0, 951782400, 1711846800 - 1, 2145916799, NOW + 300] + [rng.randrange(0, 2145916800) // 60 * 60 for _ in range(3)]
    return g


def rules_for(t):
    """[(comparison, count, unit)] with the threshold 1 below, at and 1 above the true age (strict comparison)."""
    age = NOW - t
    out = []
    for cmp_ in ('>', '<'):
        for thr in sorted({x for x in (age - 1, age, age + 1) if x >= 0} | ({0, 1} if age < 1 else set())):      # a date in the future: the age is negative
            out.append((cmp_, thr, 'seconds', thr))
    if age > 0 and age % 3600 == 0:
        for cmp_ in ('>', '<'):
            for n in (age // 3600 - 1, age // 3600, age // 3600 + 1):
                out.append((cmp_, n, 'hours', n * 3600))
    return out


def rule_text(cmp_, n, unit, header_kw=False):
    return 'match date %s%s %d %s move "dst"' % ('header ' if header_kw else '', cmp_, n, unit)


# --------------------------------------------------------------------------
# level 1: time_parse (harness op tparse) against model, specification and the oracle
# --------------------------------------------------------------------------

def check_driver_locale(locale):
    denv = dict(os.environ, LC_ALL=locale)
    info = vlib.run_batch([vlib.driver_path()], ['M locale 00'], denv)[0]
    if info != ('1 1' if locale == 'C' else '1 6'):
        raise vlib.CheckError('the driver does not run in locale %s (setlocale/MB_CUR_MAX: %r)' % (locale, info))
    return denv


def tparse_stage(rep, h, env, rng, texts, tzs, stat):
    A = lambda s: s.encode('latin-1')
    corr = []
    for locale in LOCALES:
        denv = check_driver_locale(locale)
        reqs = [('tparse', d.value(), A(str(NOW)), A(tzs[i % len(tzs)])) for i, d in enumerate(texts)]
        dif = vlib.Differential(rep, [h], env=dict(env, LC_ALL=locale), spec_ops={'tparse'}, name='h_expr LC_ALL=%s' % locale, denv=denv)
        impl, model, spec = dif.run(reqs, shrink=False)
        stat['tparse_evaluations'] = stat.get('tparse_evaluations', 0) + dif.evals
        nbad = 0
        for d, r, i in zip(texts, reqs, impl):
            want = {'age': 'OK %d' % (d.instant or 0), 'refuse': 'NONE'}.get(d.cls)
            if want is not None and i != want and not i.startswith('FAULT'):
                nbad += 1
                if nbad <= 3:
                    rep.finding('unlisted', dict(d.readable(), family=FAMILY, level='time_parse (harness h_expr)', locale='LC_ALL=' + locale,
                                                 request=dif.line(r), implementation=i, specification=want,
                                                 what='time_parse does not read the instant the Date text denotes' if d.cls == 'age' else
                                                      'time_parse accepts a text that is not a date'))
        corr.append(dif)
    return corr


# --------------------------------------------------------------------------
# level 2: the real parser and evaluator in-process (harness op eval) against the model and the oracle
# --------------------------------------------------------------------------

def eval_stage(rep, h, env, rng, groups, refused, tzs, stat):
    """Every text x the rules around its true age, real evaluation and dry run alternating; under each locale the model runs with the same
    LC_ALL.  -> cases whose answer differs from the model's (correspondence)."""
    bad_corr = []
    for locale in LOCALES:
        denv = check_driver_locale(locale)
        cases, meta = [], []
        k = 0
        for t, texts in groups:
            rules = rules_for(t)
            for d in texts:
                for (cmp_, n, unit, thr) in rules:
                    k += 1
                    conf = 'maildir "~/md" {\n\tmatch date %s%s %d %s move "~/dst/a"\n}\n' % ('header ' if k % 3 == 0 else '', cmp_, n, unit)
                    c = ec.Case(conf, [], d.message(1), 'new', '1.host', '1' if k % 2 else '0', tz=tzs[k % len(tzs)])
                    c.locale = locale
                    cases.append(c)
                    meta.append((d, 'MATCH' if verdict(t, cmp_, thr) else 'NOMATCH', (cmp_, n, unit)))
        for j, d in enumerate(refused):
            for cmp_, n in (('>', 1), ('<', 4000000000)):
                k += 1
                c = ec.Case('maildir "~/md" {\n\tmatch date %s %d seconds move "~/dst/a"\n}\n' % (cmp_, n), [], d.message(1), 'new', '1.host',
                            '1' if k % 2 else '0', tz=tzs[k % len(tzs)])
                c.locale = locale
                cases.append(c)
                meta.append((d, 'ERROR', (cmp_, n, 'seconds')))
        ec.run_cases(h, dict(env, LC_ALL=locale), cases, want_spec=False, denv=denv)
        nbad = {}
        for c, (d, want, rule) in zip(cases, meta):
            stat['eval_cases'] = stat.get('eval_cases', 0) + 1
            if c.note == 'fault':
                rep.finding('sanitizer-fault', dict(c.readable(), implementation=c.impl))
                continue
            got = c.impl.split(' ')[0] if c.impl else None
            if got != want:
                key = (locale, d.cls, want)
                nbad[key] = nbad.get(key, 0) + 1
                if nbad[key] <= 2:
                    rep.finding('unlisted', dict(c.readable(), **d.readable(), family=FAMILY, level='real parser and evaluator (harness h_expr)',
                                                 rule=rule_text(*rule), implementation=(c.impl or '')[:300], specification=want,
                                                 what=('the message is %d seconds old: `date %s %d %s` is %s, the evaluator says %s' %
                                                       (NOW - d.instant, rule[0], rule[1], rule[2], 'true' if want == 'MATCH' else 'false', got))
                                                 if d.cls == 'age' else 'the Date field is not a date (%s): the condition is an error, the evaluator says %s' % (d.why, got)))
            elif c.model is not None and (c.impl if c.dry == '1' else ec.impl_core(c)) != (c.model if c.dry == '1' else ec.model_core(c)):
                bad_corr.append(c)
            if want == 'MATCH':
                stat['eval_true'] = stat.get('eval_true', 0) + 1
    return bad_corr


# --------------------------------------------------------------------------
# level 3: the real binary, real run and -d
# --------------------------------------------------------------------------

# a refusal of time_parse: `<program>: strptime: <value>: Invalid argument`, `<program>: tzparse: <rest>: Invalid argument`
DIAG = re.compile(r'^[^ :]+: (strptime|tzparse|timegm): ')


class Box:
    """One maildir `src` with the messages of a population, an empty maildir `dst`, run under one LC_ALL (and TZ)."""

    def __init__(self, tools, name, msgs, locale, tz):
        tree = {}
        tree.update(proc.maildir_tree('src', {('new', '%d.host' % k): m for k, m in msgs}))
        tree.update(proc.maildir_tree('dst', {}))
        env = {'LC_ALL': locale}
        if tz is not None:
            env['TZ'] = tz
        self.name, self.locale, self.tz, self.ids = name, locale, tz, [k for k, _ in msgs]
        self.scen = proc.Scenario(tools, 'maildir "@R@/src" {\n\tmatch all move "@R@/dst"\n}\n', tree, env=env)

    def config(self, rule):
        return 'maildir "%s/src" {\n\t%s\n}\n' % (self.scen.root, rule.replace('"dst"', '"%s/dst"' % self.scen.root))

    def run(self, rule):
        """-> dict(listed ids, moved ids, status of -d and of the real run, stderr of each)"""
        s = self.scen
        for base in (s.root, s._saved):
            with open(os.path.join(base, 'conf'), 'w', encoding='latin-1') as fh:
                fh.write(self.config(rule))
        s.args = ['-d']
        d = s.run(trace=False)
        dry_changed = {k: v for k, v in d.final.items() if k != 'conf'} != {k: v for k, v in s.initial.items() if k != 'conf'}
        if dry_changed:
            s.reset()
        s.args = []
        r = s.run(trace=False)
        listed = set()
        for path in lp.parse_dry(d.out, s.root):
            mm = re.search(r'/src/new/(\d+)\.host$', path)
            if mm:
                listed.add(int(mm.group(1)))
        moved, left = set(), set()
        for rel, (kind, data, _) in r.final.items():
            mm = re.match(r'(src|dst)/(new|cur)/', rel)
            if mm and kind == 'file':
                i = re.search(rb'^X-Id: (\d+)$', data, re.M)
                if i:
                    (moved if mm.group(1) == 'dst' else left).add(int(i.group(1)))
        s.reset()
        return {'listed': listed, 'moved': moved, 'left': left, 'status': (d.status, r.status), 'dry_changed_tree': dry_changed,
                'stderr': (d.err.decode('latin-1').replace(s.root, '@R@'), r.err.decode('latin-1').replace(s.root, '@R@'))}

    def cleanup(self):
        self.scen.cleanup()


def process_stage(rep, tools, rng, groups, refused, observed, tzs, stat):
    # populations: every 'age' text of every group in one maildir; the refused texts in a second one; the observed in a third
    pop, k = [], 0
    for t, texts in groups:
        for d in texts:
            k += 1
            pop.append((k, d, t))
    k += 1
    nodate_id = k               # a message without any Date field: no instant, the condition is false whatever the comparison
    age_msgs = [(i, d.message(i)) for i, d, _ in pop] + [(nodate_id, b'To: x@example.com\nX-Id: %d\nSubject: no date\n\nbody\n' % nodate_id)]
    ref_msgs = [(i + 1, d.message(i + 1)) for i, d in enumerate(refused)]
    obs_msgs = [(i + 1, d.message(i + 1)) for i, d in enumerate(observed)]
    rules = []
    for gi, (t, _) in enumerate(groups):
        for ri, (cmp_, n, unit, thr) in enumerate(rules_for(t)):
            rules.append((cmp_, n, unit, thr, (gi + ri) % 3 == 0))
    boxes = []
    for li, locale in enumerate(LOCALES):
        tz = [None, 'UTC', 'Europe/Stockholm', 'America/St_Johns', 'Pacific/Chatham'][(rep.seed + li) % 5]
        boxes.append(('age', Box(tools, 'age', age_msgs, locale, tz)))
        boxes.append(('refuse', Box(tools, 'refuse', ref_msgs, locale, tz)))
        boxes.append(('observe', Box(tools, 'observe', obs_msgs, locale, tz)))
    jobs = []
    for kind, b in boxes:
        if kind == 'age':
            jobs += [(kind, b, r) for r in rules]
        else:
            jobs += [(kind, b, r) for r in [('>', 1, 'seconds', 1, False), ('<', 4000000000, 'seconds', 4000000000, True),
                                            ('>', 226815199, 'seconds', 226815199, False), ('<', 226815201, 'seconds', 226815201, False)][:4 if kind == 'observe' else 2]]
    # one box is used by one thread at a time
    by_box = {}
    for j in jobs:
        by_box.setdefault(id(j[1]), []).append(j)

    def work(js):
        return [(kind, b, r, b.run(rule_text(r[0], r[1], r[2], r[4]))) for kind, b, r in js]
    try:
        with cf.ThreadPoolExecutor(NJOBS) as ex:
            results = [x for part in ex.map(work, by_box.values()) for x in part]
    finally:
        for _, b in boxes:
            b.cleanup()
    bytext = {i: (d, t) for i, d, t in pop}
    bad = {}
    obs = {}
    for kind, b, (cmp_, n, unit, thr, hkw), res in results:
        rule = rule_text(cmp_, n, unit, hkw)
        stat['process_runs'] = stat.get('process_runs', 0) + 2
        ctx = {'family': FAMILY, 'level': 'real binary (mdsort under the shim)', 'locale': 'LC_ALL=' + b.locale, 'TZ': b.tz if b.tz is not None else '(unset)',
               'rule': rule, 'clock': NOW, 'population': kind}

        def report(key, payload):
            bad[key] = bad.get(key, 0) + 1
            if bad[key] <= 2:
                rep.finding('unlisted', dict(ctx, **payload))
        if res['status'][0] == 'timeout' or res['status'][1] == 'timeout' or any(isinstance(s_, int) and (s_ < 0 or s_ >= 128) for s_ in res['status']):
            report((b.locale, kind, 'crash'), {'what': 'mdsort did not end normally: exit status of -d %r, of the real run %r' % res['status'], 'stderr': res['stderr']})
            continue
        if res['dry_changed_tree']:
            report((b.locale, kind, 'dry-changed'), {'what': '-d changed the maildirs'})
        if kind == 'age':
            for i in b.ids:
                stat['process_decisions'] = stat.get('process_decisions', 0) + 2
                if i == nodate_id:
                    d, want = None, False
                else:
                    d, t = bytext[i]
                    want = verdict(t, cmp_, thr)
                    stat['process_true'] = stat.get('process_true', 0) + (2 if want else 0)
                moved, listed = i in res['moved'], i in res['listed']
                what = []
                if moved != want:
                    what.append('real run: the message was %s' % ('moved' if moved else 'left in place'))
                if listed != want:
                    what.append('-d: the message is %s' % ('listed' if listed else 'not listed'))
                if i not in res['moved'] and i not in res['left']:
                    what.append('the message is in neither maildir after the real run')
                if what:
                    dd = d.readable() if d else {'date_text': 'no Date field'}
                    report((b.locale, d.cls if d else 'nodate', want, moved, listed),
                           dict(dd, message=repr(d.message(i) if d else dict(age_msgs)[i]),
                                expected=('the message is %d seconds old: `%s` is %s - %s' % (NOW - t, rule, 'true' if want else 'false',
                                          'moved by the real run and listed by -d' if want else 'left in place and not listed')) if d else
                                         'no Date field: the condition is false, the message is left in place and not listed',
                                observed=what, exit_status={'-d': res['status'][0], 'real run': res['status'][1]}, stderr=res['stderr']))
            if res['status'] != (0, 0) or res['stderr'][0].strip() or res['stderr'][1].strip():
                report((b.locale, kind, 'status'), {'what': 'every Date field of this maildir is a date: exit status 0 and no diagnostic are expected; '
                                                            'exit status of -d %r, of the real run %r' % res['status'], 'stderr': [x[-600:] for x in res['stderr']]})
        elif kind == 'refuse':
            stat['process_refusals'] = stat.get('process_refusals', 0) + 2 * len(b.ids)
            for i in b.ids:
                d = refused[i - 1]
                what = []
                if i in res['moved'] or i not in res['left']:
                    what.append('real run: the message was moved')
                if i in res['listed']:
                    what.append('-d: the message is listed')
                if what:
                    report((b.locale, kind, d.label), dict(d.readable(), message=repr(d.message(i)), observed=what, stderr=res['stderr'],
                                                           expected='the Date field is not a date (%s): the condition is an error, the message stays' % d.why))
            ndiag = [len([l for l in e.split('\n') if DIAG.match(l)]) for e in res['stderr']]
            if res['status'][0] in (0,) or res['status'][1] in (0,) or min(ndiag) < len(b.ids):
                report((b.locale, kind, 'quiet'), {'what': 'none of the %d Date fields of this maildir is a date: a diagnostic for each and a non-zero exit status are '
                                                           'expected; exit status of -d %r, of the real run %r; diagnostics %r' % (len(b.ids), res['status'][0], res['status'][1], ndiag),
                                                   'stderr': [x[-600:] for x in res['stderr']]})
        else:
            for i in b.ids:
                d = observed[i - 1]
                o = obs.setdefault(d.label, {'date_field': repr(b'Date:' + d.body), 'why_outside': d.why, 'behaviour': {}})
                moved, listed = i in res['moved'], i in res['listed']
                if moved != listed:
                    report((b.locale, kind, 'dry-vs-real'), dict(d.readable(), message=repr(d.message(i)),
                                                                 what='-d %s the message, the real run %s it' % ('lists' if listed else 'does not list',
                                                                                                                'moves' if moved else 'does not move')))
                # a refusal names the date string: `mdsort: strptime: <value>: Invalid argument`
                refusal = re.compile(r'^[^ :]+: strptime: [ \t]*' + re.escape(d.value().decode('latin-1')) + ': Invalid argument$')
                if not moved and any(refusal.match(l) for l in res['stderr'][1].split('\n')):
                    key = 'refused with a diagnostic (message left, exit status %r)' % (res['status'][1],)
                elif d.instant is not None:
                    key = 'decided as RFC 5322 reads it' if moved == verdict(d.instant, cmp_, thr) else 'decided, NOT as RFC 5322 reads it (no diagnostic)'
                else:
                    key = 'decided (no diagnostic): moved' if moved else 'decided (no diagnostic): left'
                o['behaviour'][key] = o['behaviour'].get(key, 0) + 1
    stat['outside_the_quantifier'] = obs
    stat['process_messages'] = {'age': len(age_msgs), 'refuse': len(ref_msgs), 'observe': len(obs_msgs)}
    stat['process_rules'] = len(rules)
    stat['process_deviations'] = sum(bad.values())


# --------------------------------------------------------------------------
# the stage and its replay
# --------------------------------------------------------------------------

def stage(rep, sc, h, env, rng, tzs):
    """-> (statistics, Differential objects of the tparse level, eval cases that differ from the model)"""
    stat = {}
    groups = [(t, texts_for(rng, t, rep.tier)) for t in group_instants(rng, rep.tier)]
    refused, observed = refused_texts(), observed_texts()
    stat['texts'] = {'per_instant': [len(x) for _, x in groups], 'refuse': len(refused), 'observe': len(observed), 'tails': len(TAILS)}
    alltexts = [d for _, x in groups for d in x] + refused + observed
    difs = tparse_stage(rep, h, env, rng, alltexts, tzs, stat)
    bad_corr = eval_stage(rep, h, env, rng, groups, refused, tzs, stat)
    tools = proc.Tools(sc)
    process_stage(rep, tools, rng, groups, refused, observed, tzs, stat)
    return stat, difs, bad_corr


def replay(rep, j, sc):
    """Re-run the case of a replay file of this family under its locale and print both sides."""
    locale = str(j.get('locale', 'LC_ALL=C')).split('=', 1)[1]
    print('family: %s; level: %s; LC_ALL=%s' % (FAMILY, j.get('level'), locale))
    for k in ('date_text', 'date_field', 'rule', 'expected', 'observed', 'what'):
        if k in j:
            print('%-10s %s' % (k, j[k]))
    level = str(j.get('level', ''))
    if level.startswith('real binary'):
        import ast
        if 'message' not in j:
            return
        tools = proc.Tools(sc)
        tz = None if j.get('TZ') in (None, '(unset)') else j['TZ']
        b = Box(tools, 'replay', [(1, ast.literal_eval(j['message']))], locale, tz)
        try:
            res = b.run(j['rule'])
        finally:
            b.cleanup()
        print('now: -d %s the message (exit status %r, stderr %r); the real run %s it (exit status %r, stderr %r)' %
              ('lists' if res['listed'] else 'does not list', res['status'][0], res['stderr'][0][-300:],
               'moves' if res['moved'] else 'leaves', res['status'][1], res['stderr'][1][-300:]))
        return
    h, env = ec.harness(sc)
    denv = dict(os.environ, LC_ALL=locale)
    line = j['request']
    impl = vlib.run_batch([h], [line], dict(env, LC_ALL=locale))[0]
    print('request        %s' % line)
    print('implementation %s' % impl)
    if line.startswith('tparse'):
        print('model          %s' % vlib.run_batch([vlib.driver_path()], ['M ' + line], denv)[0])
        print('specification  %s' % vlib.run_batch([vlib.driver_path()], ['S ' + line], denv)[0])
    print('oracle         %s' % j.get('specification'))
