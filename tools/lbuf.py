"""The growable buffer (libks/buffer.c): exact sizes, and the correspondence stage of the index-level model.

Every string mdsort builds piecewise is built in a libks buffer that starts at the size given to buffer_alloc()
and doubles (buffer_reserve: from 16 when empty).  What happens exactly AT a capacity (a piece that ends on the last
byte, one before, one after) is invisible to generators that draw lengths at random.  This module

* reads the initial sizes from the source being checked (every `buffer_alloc(` call), derives the capacities
  (`capacities`, `boundaries`) and the lengths worth generating around them (`exact_lengths`) - used by the exact-size
  families of C08 and C12;
* runs operation sequences through the real libks/buffer.c (harness/unit/h_buffer.c, ASan + UBSan), the index-level
  Lean model (`M lbuf`: Model/L0/Buffer.lean, theorems C07_L0_buffer_*) and the statement the list-level models rely
  on (`S lbuf`: every call returns 0, the bytes in use are the pieces in order, buffer_str hands out those bytes up
  to the first NUL) - `stage`, called from C07 (full) and from C08 / C12 (short).
"""
import glob
import os
import re
import vlib

DELTAS = (-1, 0, 1)


def alloc_sites(src):
    """[(file, line, argument text, constant or None)] for every buffer_alloc( call of the source tree."""
    out = []
    for f in sorted(glob.glob(os.path.join(src, '*.c')) + glob.glob(os.path.join(src, '*.y')) + glob.glob(os.path.join(src, 'libks', '*.c'))):
        base = os.path.relpath(f, src)
        if base in ('parse.c', 'parse_traced.c'):
            continue
        for ln, line in enumerate(open(f, encoding='latin-1'), 1):
            for m in re.finditer(r'=\s*buffer_alloc\(([^;]*)\)\s*;', line):
                arg = m.group(1).strip()
                const = None
                if re.fullmatch(r'\d+', arg):
                    const = int(arg)
                else:
                    mm = re.fullmatch(r'1\s*<<\s*(\d+)', arg)
                    if mm:
                        const = 1 << int(mm.group(1))
                out.append((base, ln, arg, const))
    return out


def initial_sizes(src):
    """Constant initial sizes used by the code base (64, 128, 8192 at the pinned tree) plus 16, the size an empty buffer grows to;
    call sites with a computed size (strlen of the input) are covered by small hints in `requests`."""
    consts = sorted({c for _, _, _, c in alloc_sites(src) if c is not None})
    return sorted(set(consts) | {16})


def capacities(initial, upto):
    c = initial if initial else 16
    out = []
    while c <= upto:
        out.append(c)
        c *= 2
    return out


def boundaries(src, upto=1 << 17):
    s = set()
    for i in initial_sizes(src):
        s.update(capacities(i, upto))
    return sorted(s)


def exact_lengths(src, lo, hi, deltas=DELTAS):
    """Lengths in [lo, hi] that are a capacity of some buffer of the code base, one below, one above."""
    out = set()
    for b in boundaries(src):
        for d in deltas:
            if lo <= b + d <= hi:
                out.add(b + d)
    return sorted(out)


# --------------------------------------------------------------------------
# operation sequences
# --------------------------------------------------------------------------

def _bytes(rng, n, nul_free):
    if n == 0:
        return b''
    k = rng.randrange(4)
    if k == 0:
        return bytes([rng.choice(b'abcxyz019 ')]) * n
    if k == 1:
        s = (b'0123456789' * (n // 10 + 1))[:n]
        return s
    lo = 1 if nul_free else 0
    return bytes(rng.randrange(lo, 256) for _ in range(n))


def _split(rng, total, marks):
    """Cut [0, total) into 1..6 pieces; cut points preferably ON the marks (capacities, one below, one above)."""
    cuts = set()
    inside = [m for m in marks if 0 < m < total]
    for _ in range(rng.randrange(0, 6)):
        if inside and rng.random() < 0.6:
            cuts.add(rng.choice(inside))
        elif total > 1:
            cuts.add(rng.randrange(1, total))
    pts = [0] + sorted(cuts) + [total]
    return [pts[i + 1] - pts[i] for i in range(len(pts) - 1)]


def requests(rng, src, n, big=True):
    """Operation sequences whose running length lands exactly on, one below and one above every capacity."""
    inits = initial_sizes(src)
    hints = sorted(set(inits) | {0, 1, 2, 15, 16, 17, 31, 32, 33, 63, 65, 127, 129, 100, 1000})
    reqs = []

    def seq(hint, total, final, only=None, appendonly=True):
        caps = capacities(hint if hint else 16, max(4 * total, 64))
        marks = sorted({c + d for c in caps for d in (-1, 0, 1)})
        args = [str(hint).encode()]
        for ln in _split(rng, total, marks):
            op = only or rng.choice('ssfffc' if ln == 1 else 'sfff')
            args += [op.encode(), _bytes(rng, 1 if op == 'c' else ln, op == 'f')]
            if op == 'c' and ln > 1:
                args += [b's', _bytes(rng, ln - 1, False)]
        if not appendonly and len(args) > 3:
            k = rng.randrange(1, (len(args) - 1) // 2 + 1) * 2 + 1
            extra = [b'r', b''] if rng.random() < 0.5 else [b'p', str(rng.choice([0, 1, 2, total // 2, total, total + 5])).encode()]
            args[k:k] = extra
        if final:
            args.append(final.encode())
        reqs.append(tuple(['lbuf'] + args))

    # 1. every (initial size, capacity of its chain, delta) with every single operation kind and with mixed sequences
    for hint in hints:
        for cap in capacities(hint if hint else 16, 1 << 13 if hint < 8192 else 1 << 15):
            for d in (-2, -1, 0, 1, 2):
                total = cap + d
                if total < 0:
                    continue
                for only in ('f', 's', None):
                    seq(hint, total, rng.choice([None, 'T', 'L']), only=only)
    # 2. one piece that by itself crosses several capacities; the empty piece; a piece ending in NUL before buffer_str
    for hint in inits + [0, 1]:
        for total in (0, 1, 3 * (hint or 16), 5 * (hint or 16) + 1):
            reqs.append(('lbuf', str(hint).encode(), b'f', _bytes(rng, total, True), b'T'))
            reqs.append(('lbuf', str(hint).encode(), b's', _bytes(rng, total, True) + b'\0', b'T'))
            reqs.append(('lbuf', str(hint).encode(), b's', b'', b'f', b'', b's', _bytes(rng, total, True), b'L'))
    # 3. random sequences, a share with reset / pop (the model is compared, the append statement does not apply)
    while len(reqs) < n:
        hint = rng.choice(hints)
        caps = capacities(hint if hint else 16, max(1 << 12, 2 * hint))
        total = max(0, rng.choice(caps) + rng.choice((-2, -1, 0, 0, 0, 1, 2, rng.randrange(-20, 20))))
        seq(hint, total, rng.choice([None, None, 'T', 'L']), appendonly=rng.random() < 0.8)
    # 4. buffer_read_fd: files of exactly k * 4096 bytes, one less, one more (8192 to start with, room for bf_siz / 2 after every read)
    if big:
        for size in sorted({0, 1, 100} | {k * 4096 + d for k in (1, 2, 3, 4, 5, 6, 7, 8, 12, 16, 24, 32) for d in (-1, 0, 1)}):
            data = _bytes(rng, size, True)
            reqs.append(('lbuf', b'R', data, b'T'))
            reqs.append(('lbuf', b'R', data[:-1] + b'\0' if data else data, b'T'))
            reqs.append(('lbuf', b'R', data, b'f', _bytes(rng, rng.choice([1, 63, 64, 4095, 4096]), True), b'L'))
    return reqs


def describe(req):
    """Readable form of a request: sizes only."""
    a = list(req[1:])
    if a and a[0] == b'R':
        out = ['buffer_read_fd(<%d bytes>)' % len(a[1])]
        a = a[2:]
    else:
        out = ['buffer_alloc(%s)' % a[0].decode()]
        a = a[1:]
    names = {b's': 'buffer_puts', b'c': 'buffer_putc', b'f': 'buffer_printf("%s")', b'r': 'buffer_reset', b'p': 'buffer_pop'}
    while len(a) >= 2:
        out.append('%s(<%d bytes>)' % (names.get(a[0], '?'), len(a[1])) if a[0] in (b's', b'f', b'c') else '%s(%s)' % (names.get(a[0], '?'), a[1].decode()))
        a = a[2:]
    if a:
        out.append({b'T': 'buffer_str', b'L': "buffer_putc(0) + buffer_release"}.get(a[0], '?'))
    return ' ; '.join(out)


def append_only(req):
    return not any(req[i] in (b'r', b'p') for i in range(2 if req[1] != b'R' else 3, len(req), 2))


def stage(rep, sc, rng, n, big=True):
    """Real libks/buffer.c under ASan+UBSan  <->  index-level model (exact: return values, bf_len, bf_siz, bytes, string handed out)
    and  <->  the append statement (everything but bf_siz).  A difference to the statement is a failing input."""
    h = sc.unit_harness('h_buffer', ['libks/buffer.c'])
    reqs = requests(rng, sc.src, n, big)
    lines = [vlib.Differential.line(r) for r in reqs]
    impl = vlib.run_batch([h], lines, vlib.ASAN_ENV)
    model = vlib.run_batch([vlib.driver_path()], ['M ' + l for l in lines])
    spec = vlib.run_batch([vlib.driver_path()], ['S ' + l for l in lines])
    bad_spec, bad_model, faults = [], [], []
    at = {'exact': 0, 'below': 0, 'above': 0}
    bset = set(boundaries(sc.src))
    for r, l, i, m, s in zip(reqs, lines, impl, model, spec):
        fi, fs = i.split(' '), s.split(' ')
        if i.startswith('FAULT'):
            faults.append((r, l, i, m, s))
            continue
        if len(fs) >= 5 and fs[2].isdigit():
            ln = int(fs[2])
            if ln in bset:
                at['exact'] += 1
            elif ln + 1 in bset:
                at['below'] += 1
            elif ln - 1 in bset:
                at['above'] += 1
        if append_only(r) and (len(fi) != len(fs) or fi[:3] != fs[:3] or fi[4:] != fs[4:]):
            bad_spec.append((r, l, i, m, s))
        elif i != m:
            bad_model.append((r, l, i, m, s))
    for r, l, i, m, s in faults[:3]:
        rep.finding('sanitizer-fault', {'stage': 'libks buffer (harness/unit/h_buffer.c)', 'operations': describe(r), 'request': l[:4000],
                                        'implementation': i, 'model': m[:300], 'replay_cmd': 'python3 tools/check.py %s --replay <this file>' % rep.prop})
    def weight(x):
        fi, fs = x[2].split(' '), x[4].split(' ')
        return (0 if len(fi) > 4 and len(fs) > 4 and fi[4] != fs[4] else 1, len(x[1]))      # lost or altered bytes first, then the shortest
    for r, l, i, m, s in sorted(bad_spec, key=weight)[:3]:
        fi, fs = i.split(' '), s.split(' ')
        what = []
        if fi[1] != fs[1]:
            what.append('return values %s (a call reported failure)' % fi[1])
        if fi[2] != fs[2]:
            what.append('bf_len is %s, the pieces have %s bytes' % (fi[2], fs[2]))
        if len(fi) > 4 and len(fs) > 4 and fi[4] != fs[4]:
            what.append('the bytes in use are not the pieces appended')
        if len(fi) > 5 and len(fs) > 5 and fi[5] != fs[5]:
            what.append('the string handed out is not the pieces up to their first NUL')
        rep.finding('unlisted', {'stage': 'libks buffer (harness/unit/h_buffer.c)', 'operations': describe(r), 'request': l[:4000],
                                 'what': what, 'implementation': i[:600], 'model': m[:600], 'statement': s[:600],
                                 'replay_cmd': 'python3 tools/check.py %s --replay <this file>' % rep.prop})
    if bad_model and not rep.violations:
        rep.violation({'obligation': 'correspondence libks/buffer.c <-> Model/L0/Buffer.lean (return values, bf_len, bf_siz, bytes in use, string handed out)',
                       'disagreements': len(bad_model),
                       'examples': [{'operations': describe(r), 'request': l[:2000], 'implementation': i[:300], 'model': m[:300]} for r, l, i, m, s in bad_model[:5]]}, False)
    ops = {}
    for r in reqs:
        for k in range(2 if r[1] != b'R' else 3, len(r), 2):
            ops[r[k].decode()] = ops.get(r[k].decode(), 0) + 1
    return {'requests': len(reqs), 'alloc_sites': ['%s:%d buffer_alloc(%s)' % (f, ln, a) for f, ln, a, c in alloc_sites(sc.src)],
            'initial_sizes': initial_sizes(sc.src), 'capacities_upto_128k': boundaries(sc.src), 'operations': ops,
            'final_length_at_a_capacity': at, 'read_fd_requests': sum(1 for r in reqs if r[1] == b'R'),
            'statement_failures': len(bad_spec), 'model_mismatches': len(bad_model), 'sanitizer_faults': len(faults),
            'rule': 'operation sequences on the real libks/buffer.c (ASan + UBSan): buffer_alloc with every constant size of the code base, '
                    '16 and sizes around them, pieces appended by buffer_puts / buffer_putc / buffer_printf("%s") with the running length and '
                    'the cut points exactly on, one or two below and above every capacity of the doubling chain, optional buffer_str or '
                    'putc(0) + release, a share with buffer_reset / buffer_pop; buffer_read_fd on files of k * 4096 - 1, k * 4096, k * 4096 + 1 '
                    'bytes; compared with the index-level model (exact, including bf_siz) and with the append statement'}


def replay(rep, sc, j):
    h = sc.unit_harness('h_buffer', ['libks/buffer.c'])
    lines = [j['request']] if 'request' in j else [e['request'] for e in j.get('examples', [])]
    for l in lines:
        print('request        %s' % l[:300])
        print('implementation %s' % vlib.run_batch([h], [l], vlib.ASAN_ENV)[0][:600])
        print('model          %s' % vlib.run_batch([vlib.driver_path()], ['M ' + l])[0][:600])
        print('statement      %s' % vlib.run_batch([vlib.driver_path()], ['S ' + l])[0][:600])
