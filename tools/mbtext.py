"""Multibyte text for the locale families of C06 and C10: a table of characters with their display widths, an independent
display-width function (the column oracle), generators of values with multibyte / wide / zero-width / invalid sequences.

The only UTF-8 locale of this image is C.utf8; `LOCALES` are the two values of LC_ALL every locale stage runs under.
"""
import unicodedata

LOCALES = ('C', 'C.utf8')

# (text, columns): characters the generators use.  Widths are the ones every terminal and every wcwidth() agree on
# (East Asian Wide / Fullwidth = 2, combining marks and format characters = 0, C1 controls = 0 (not printable)).
CHARS = [
    ('\u00e9', 1), ('\u00c9', 1), ('\u00df', 1), ('\u00f1', 1), ('\u03b1', 1), ('\u03a9', 1), ('\u0416', 1), ('\u0436', 1),   # 2 bytes, 1 column
    ('\u20ac', 1), ('\u2192', 1), ('\u2013', 1),                                              # 3 bytes, 1 column
    ('\u4e2d', 2), ('\u6587', 2), ('\u3042', 2), ('\ud55c', 2), ('\uff21', 2), ('\u3001', 2),  # 3 bytes, 2 columns (CJK, kana, hangul, fullwidth)
    ('\U0001f600', 2), ('\U00020000', 2),                                                     # 4 bytes, 2 columns
    ('\U0001d49c', 1), ('\U00010348', 1),                                                     # 4 bytes, 1 column
    ('\u0301', 0), ('\u0308', 0), ('\u20dd', 0),                                              # combining marks: no column
    ('\u200b', 0), ('\u200d', 0), ('\ufe0f', 0),                                              # zero-width space / joiner / variation selector
    ('\u0085', 0),                                                                            # C1 control: not printable
]
WIDE = [c for c, w in CHARS if w == 2]
ZERO = [c for c, w in CHARS if w == 0]
NARROW = [c for c, w in CHARS if w == 1]
TABLE = {c: w for c, w in CHARS}

# byte sequences that are not UTF-8: every byte is shown as one column (what mdsort's strnwidth does: an undecodable byte
# counts one column, and what a terminal shows: one replacement character per byte)
INVALID = [b'\x80', b'\xbf', b'\xc3', b'\xe9', b'\xfe', b'\xff', b'\xc0', b'\xf0', b'\x80\x80',              # stray bytes (see oracle_defined)
           b'\xe4\xb8', b'\xf0\x9f\x98', b'\xc0\x80', b'\xc1\xbf', b'\xe0\x80\x80', b'\xed\xa0\x80',           # truncated, overlong, surrogate
           b'\xf4\x90\x80\x80', b'\xf5\x80\x80\x80', b'\xf8\x88\x80\x80\x80']                                 # beyond U+10FFFF, 5-byte form


def char_width(ch):
    """Columns of one decoded character (independent of the C library: table, else Unicode properties)."""
    if ch in TABLE:
        return TABLE[ch]
    o = ord(ch)
    if 0xdc80 <= o <= 0xdcff:
        return 1                       # an undecodable byte (surrogateescape)
    if o < 32 or 0x7f <= o < 0xa0:
        return 0                       # control characters are not printable: no column (see `has_control`)
    cat = unicodedata.category(ch)
    if cat in ('Mn', 'Me', 'Cf'):
        return 0
    if unicodedata.east_asian_width(ch) in ('W', 'F'):
        return 2
    return 1


def chars(b, locale):
    """The characters of `b` as the locale sees them: [(bytes of the character, columns)]."""
    if locale == 'C':
        return [(bytes([c]), 1 if (c >= 128 or 32 <= c <= 126) else 0) for c in b]
    out = []
    for ch in b.decode('utf-8', errors='surrogateescape'):
        out.append((ch.encode('utf-8', errors='surrogateescape'), char_width(ch)))
    return out


def display_width(b, locale):
    return sum(w for _, w in chars(b, locale))


def oracle_defined(b, locale):
    """Whether the display width of `b` is a fact independent of the decoder.  Well-formed UTF-8 always is; a stray byte that
    every decoder rejects on its own (a continuation byte without a lead byte, a lead byte not followed by a continuation byte,
    0xfe, 0xff - e.g. Latin-1 text in a UTF-8 locale) is shown as one replacement character.  A lead byte FOLLOWED by continuation
    bytes that still is not a character (truncated, overlong, surrogate, beyond U+10FFFF, the 5- and 6-byte forms glibc's mbtowc
    still decodes) is shown as one or as several replacement characters depending on the decoder: there the oracle abstains
    (the comparison with the model still covers these inputs)."""
    if locale == 'C':
        return True
    esc = b.decode('utf-8', errors='surrogateescape')
    for i, ch in enumerate(esc[:-1]):
        o, o2 = ord(ch), ord(esc[i + 1])
        if 0xdcc0 <= o <= 0xdcfd and 0xdc80 <= o2 <= 0xdcbf:
            return False
    return True


def has_control(b):
    """A control character (TAB, ESC, DEL, C1): a terminal does not show it in a fixed number of columns."""
    return any(c < 32 or c == 127 for c in b) or b'\xc2\x85' in b


def boundaries(b, locale):
    """Offsets of `b` at which a character begins (plus len(b))."""
    offs, pos = [], 0
    for cb, _ in chars(b, locale):
        offs.append(pos)
        pos += len(cb)
    offs.append(pos)
    return offs


def judge_markers(prefix, before, matched, marker, locale, open_end=False):
    """The column oracle.  `prefix` + `before` is what the quoted line shows in front of the first matched character,
    `matched` the matched text on that line (open_end: the match continues on the next line, `$` is not judged),
    `marker` the marker line.  Returns a list of problems (empty = the markers are where the property puts them):
    `^` in the column of the first matched character = display width of everything before it; `$` under the last matched
    character (any of its columns when it is wide; directly after `^` when the match has fewer than two columns)."""
    probs = []
    if marker.strip(b' ') == b'' or set(marker) - set(b' ^$'):
        return ['marker line %r has other characters than blanks, ^ and $' % marker[:60]]
    caret, dollar = marker.find(b'^'), marker.find(b'$')
    if caret < 0 or dollar < 0 or marker.count(b'^') != 1 or marker.count(b'$') != 1 or not marker.endswith(b'$'):
        return ['marker line %r is not blanks ^ blanks $' % marker[:60]]
    want = display_width(prefix, locale) + display_width(before, locale)
    if caret != want:
        probs.append('^ in column %d, the first matched character is displayed in column %d' % (caret, want))
    if not open_end:
        cs = chars(matched, locale)
        w = sum(x for _, x in cs)
        if w < 2:
            lo = hi = want + 1
        else:
            visible = [x for _, x in cs if x > 0]
            # trailing zero-width characters belong to the last visible one
            hi = want + w - 1
            lo = want + w - visible[-1]
            lo = max(lo, want + 1)
        if not (lo <= dollar <= hi):
            probs.append('$ in column %d, the last matched character is displayed in column%s %s' %
                         (dollar, 's' if lo != hi else '', ('%d-%d' % (lo, hi)) if lo != hi else str(lo)))
    return probs


# --------------------------------------------------------------------------
# generators
# --------------------------------------------------------------------------

WORDS = [b'hello', b'world', b'caf', b'x', b'Re:', b'42', b'a-b', b'(q)', b'foo.bar', b'I']


def atom(rng, invalid=True, control=False):
    """One piece of text: mostly a single character (so that match boundaries fall between any two characters)."""
    r = rng.random()
    if r < 0.28:
        return rng.choice(WORDS)
    if r < 0.40:
        return b' '
    if r < 0.52:
        return rng.choice(NARROW).encode()
    if r < 0.68:
        return rng.choice(WIDE).encode()
    if r < 0.80:
        return rng.choice(ZERO[:-1]).encode()
    if r < 0.86:
        # a base character with combining marks
        return (rng.choice('eoaEn') + ''.join(rng.choice(ZERO[:3]) for _ in range(rng.choice([1, 1, 2])))).encode()
    if r < 0.94 and invalid:
        return rng.choice(INVALID)
    if control and r > 0.97:
        return rng.choice([b'\t', b'\x1b', b'\x7f', b'\xc2\x85'])
    return bytes([rng.choice(range(33, 127))])


def atoms_line(rng, n, **kw):
    return [atom(rng, **kw) for _ in range(n)]


def text(rng, nmin=2, nmax=10, **kw):
    return b''.join(atoms_line(rng, rng.randint(nmin, nmax), **kw))
