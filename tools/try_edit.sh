#!/bin/sh
# usage: try_edit.sh Cxx <file> <sed-expression> [tier]
# Sanity probe of a check: applies one sed edit to a scratch worktree of /repo HEAD (never /repo), runs the check against it, cleans up.
p=$1; f=$2; e=$3; t=${4:-quick}
wt=$(mktemp -d /tmp/te.XXXXXX); rmdir $wt
git -C /repo worktree add -q --detach $wt HEAD || exit 2
cp /repo/config.h /repo/config.mk $wt/ 2>/dev/null
sed -i "$e" $wt/$f
echo "edit: $(git -C $wt diff --stat | tail -1)"
ev=$(mktemp -d /tmp/tev.XXXXXX)
( cd "$(dirname "$0")/.." && VERIF_REPO=$wt VERIF_EVID=$ev python3 tools/check.py $p --tier $t > /tmp/te.$p.out 2>/tmp/te.$p.err; echo "rc=$? violations=$(grep -c '^VIOLATION' /tmp/te.$p.out) with_input=$(grep '^VIOLATION' /tmp/te.$p.out | grep -vc no-failing)" )
git -C /repo worktree remove --force $wt; rm -rf $ev
